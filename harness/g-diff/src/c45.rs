//! C45 — text merges obey the merge identities, never panic and terminate
//! (E1: bounded-exhaustive enumeration of (base, ours, theirs) triples under a watchdog).
//!
//! Texts are sequences of one-letter lines with an explicit terminator per line (LF, CRLF, or none for the last
//! line). `ours`/`theirs` are ALL texts reachable from the base by at most N line edits (insert / delete / replace /
//! toggle the final newline / flip the terminator of one line). Every triple is merged under every configuration
//! (conflict style x marker size x labels, the three auto-resolutions, diff algorithm) and the identities of the
//! property statement are evaluated on every result.
use gix_merge::blob::builtin_driver::text::{Conflict, ConflictStyle, Labels, Options};
use gix_merge::blob::{builtin_driver, Resolution};
use imara_diff::intern::InternedInput;
use serde::{Deserialize, Serialize};
use std::collections::{BTreeMap, HashSet};
use std::sync::atomic::{AtomicU64, Ordering};
use vkit::{bytes::escape, ok, ok_trivial, Opts, Run, Verdict, B};

#[derive(Clone, Copy, PartialEq, Eq, Hash, PartialOrd, Ord, Debug)]
enum Eol {
    Lf,
    CrLf,
    None,
}
#[derive(Clone, Copy, PartialEq, Eq, Hash, PartialOrd, Ord, Debug)]
struct Line {
    c: u8,
    eol: Eol,
}

fn render(lines: &[Line]) -> Vec<u8> {
    let mut v = Vec::with_capacity(lines.len() * 3);
    for l in lines {
        // letter 0 = empty line
        if l.c != 0 {
            v.push(l.c);
        }
        match l.eol {
            Eol::Lf => v.push(b'\n'),
            Eol::CrLf => v.extend_from_slice(b"\r\n"),
            Eol::None => {}
        }
    }
    v
}

/// only the last line may lack a terminator
fn normalise(v: &mut [Line], dom: Eol) {
    let n = v.len();
    for (i, l) in v.iter_mut().enumerate() {
        if i + 1 < n && l.eol == Eol::None {
            l.eol = dom;
        }
    }
}

/// every text one edit away from `src`
fn single_edits(src: &[Line], alpha: &[u8], dom: Eol, flips: bool, out: &mut dyn FnMut(Vec<Line>)) {
    for p in 0..=src.len() {
        for &c in alpha {
            let mut v = src.to_vec();
            v.insert(p, Line { c, eol: dom });
            normalise(&mut v, dom);
            out(v);
        }
    }
    for p in 0..src.len() {
        let mut v = src.to_vec();
        v.remove(p);
        out(v);
    }
    for p in 0..src.len() {
        for &c in alpha {
            if src[p].c != c {
                let mut v = src.to_vec();
                v[p].c = c;
                out(v);
            }
        }
    }
    if let Some(last) = src.last() {
        let mut v = src.to_vec();
        let n = v.len();
        v[n - 1].eol = if last.eol == Eol::None { dom } else { Eol::None };
        out(v);
    }
    if flips {
        for p in 0..src.len() {
            let e = match src[p].eol {
                Eol::Lf => Eol::CrLf,
                Eol::CrLf => Eol::Lf,
                Eol::None => continue,
            };
            let mut v = src.to_vec();
            v[p].eol = e;
            out(v);
        }
    }
}

/// all texts within `max` edits of base, with their edit distance (in this edit vocabulary), simplest first
fn sides(base: &[Line], alpha: &[u8], dom: Eol, flips: bool, max: usize) -> Vec<(usize, Vec<u8>)> {
    let mut seen: BTreeMap<Vec<Line>, usize> = BTreeMap::new();
    seen.insert(base.to_vec(), 0);
    let mut level = vec![base.to_vec()];
    for d in 1..=max {
        let mut next = Vec::new();
        for t in &level {
            single_edits(t, alpha, dom, flips, &mut |v| {
                if !seen.contains_key(&v) {
                    seen.insert(v.clone(), d);
                    next.push(v);
                }
            });
        }
        level = next;
    }
    // an empty line without terminator renders to nothing, so distinct structures can render to the same bytes:
    // keep each text once, with its smallest distance
    let mut by_text: BTreeMap<Vec<u8>, usize> = BTreeMap::new();
    for (l, d) in seen {
        let e = by_text.entry(render(&l)).or_insert(d);
        *e = (*e).min(d);
    }
    let mut v: Vec<(usize, Vec<u8>)> = by_text.into_iter().map(|(t, d)| (d, t)).collect();
    v.sort();
    v
}

/// base texts: all line sequences over `letters` with length 0..=max_len, in each terminator format
fn bases(letters: &[u8], max_len: usize, mixed: bool, mut f: impl FnMut(&[Line], Eol)) {
    vkit::enumerate::seqs(letters, 0, max_len, |cs| {
        if cs.is_empty() {
            f(&[], Eol::Lf);
            f(&[], Eol::CrLf);
            return;
        }
        for dom in [Eol::Lf, Eol::CrLf] {
            for final_nl in [true, false] {
                let mut v: Vec<Line> = cs.iter().map(|&c| Line { c, eol: dom }).collect();
                if !final_nl {
                    if cs[cs.len() - 1] == 0 {
                        continue; // an unterminated empty last line is no line: same text as the shorter base
                    }
                    v.last_mut().unwrap().eol = Eol::None;
                }
                f(&v, dom);
            }
        }
        if mixed && cs.len() >= 2 {
            // first line terminated differently from the rest
            for (first, rest) in [(Eol::CrLf, Eol::Lf), (Eol::Lf, Eol::CrLf)] {
                let mut v: Vec<Line> = cs.iter().map(|&c| Line { c, eol: rest }).collect();
                v[0].eol = first;
                f(&v, rest);
            }
        }
    });
}


/// one hunk on a side: base range [s, e) is replaced by `repl` (None = deleted); s == e is an insertion
type GHunk = (usize, usize, Option<u8>);

fn render_letters(letters: &[u8]) -> Vec<u8> {
    letters.iter().flat_map(|&c| [c, b'\n']).collect()
}

fn apply_hunks(base: &[u8], hunks: &[GHunk]) -> Vec<u8> {
    let mut out = Vec::new();
    let mut pos = 0;
    for &(s, e, repl) in hunks {
        out.extend_from_slice(&base[pos..s]);
        out.extend(repl);
        pos = e;
    }
    out.extend_from_slice(&base[pos..]);
    render_letters(&out)
}

/// every side with 1 or 2 hunks over a base of `n` lines; two hunks are separated by at least one unchanged line.
/// A non-empty range is deleted or replaced by `letter`, an empty range gets `letter` inserted.
fn geometry_sides(n: usize, letter: u8) -> Vec<(usize, Vec<GHunk>)> {
    let mut singles: Vec<GHunk> = Vec::new();
    for s in 0..=n {
        for e in s..=n {
            if e > s {
                singles.push((s, e, None));
            }
            singles.push((s, e, Some(letter)));
        }
    }
    let mut v: Vec<(usize, Vec<GHunk>)> = singles.iter().map(|h| (1, vec![*h])).collect();
    for a in &singles {
        for b in &singles {
            if a.1 < b.0 {
                v.push((2, vec![*a, *b]));
            }
        }
    }
    v
}

/// maximal runs of base positions that a side changed (base lines are distinct): (start, end) in base coordinates
fn hunks_of(base: &[u8], side: &[u8]) -> Vec<(usize, usize)> {
    let b: Vec<u8> = base.iter().copied().filter(|c| *c != b'\n').collect();
    let s: Vec<u8> = side.iter().copied().filter(|c| *c != b'\n').collect();
    // walk both: side = base with ranges replaced by at most one foreign letter
    let mut hunks = Vec::new();
    let (mut i, mut j) = (0, 0);
    while i < b.len() || j < s.len() {
        if i < b.len() && j < s.len() && b[i] == s[j] {
            i += 1;
            j += 1;
            continue;
        }
        let start = i;
        if j < s.len() && !b.contains(&s[j]) {
            j += 1; // the inserted / replacing letter
        }
        // skip deleted base lines up to the next line that the side kept
        while i < b.len() && (j >= s.len() || b[i] != s[j]) {
            i += 1;
        }
        hunks.push((start, i));
    }
    hunks
}

#[derive(Clone, Copy, Debug)]
struct Cfg {
    algo: imara_diff::Algorithm,
    conflict: Conflict,
    labels: bool,
}
impl Cfg {
    fn describe(&self) -> String {
        format!("{:?}/{:?}/labels={}", self.algo, self.conflict, self.labels)
    }
}

fn configs(marker_sizes: &[usize], algos: &[imara_diff::Algorithm]) -> Vec<Cfg> {
    let mut v = Vec::new();
    for &algo in algos {
        for style in [ConflictStyle::Merge, ConflictStyle::Diff3, ConflictStyle::ZealousDiff3] {
            for &marker_size in marker_sizes {
                v.push(Cfg { algo, conflict: Conflict::Keep { style, marker_size }, labels: marker_size % 2 == 1 });
            }
            // default marker size without labels as well
            v.push(Cfg { algo, conflict: Conflict::Keep { style, marker_size: 7 }, labels: false });
        }
        for conflict in [Conflict::ResolveWithOurs, Conflict::ResolveWithTheirs, Conflict::ResolveWithUnion] {
            v.push(Cfg { algo, conflict, labels: true });
        }
    }
    v
}

fn lines_of(text: &[u8]) -> impl Iterator<Item = &[u8]> {
    text.split_inclusive(|&b| b == b'\n')
}

fn has_marker_byte(out: &[u8]) -> bool {
    out.iter().any(|b| matches!(b, b'<' | b'=' | b'>' | b'|'))
}

#[derive(Default)]
struct Summary {
    keep_conflicts: u32,
    keep_clean: u32,
    ours_mixed: bool,
    theirs_mixed: bool,
}

/// Merge one triple under every configuration and check the identities. Err = violation message.
fn check_triple(base: &[u8], ours: &[u8], theirs: &[u8], cfgs: &[Cfg], merges: &AtomicU64) -> Result<Summary, String> {
    let mut out = Vec::new();
    let mut input: InternedInput<&[u8]> = InternedInput::default();
    let mut sum = Summary::default();
    let show = |cfg: &Cfg, out: &[u8], res: Resolution| format!("[{}] -> {:?} \"{}\"", cfg.describe(), res, escape(out));
    let mut joined: Option<String> = None;
    'cfg: for cfg in cfgs {
        input.clear();
        let labels = if cfg.labels {
            Labels { ancestor: Some("B".into()), current: Some("O".into()), other: Some("T".into()) }
        } else {
            Labels::default()
        };
        let res = builtin_driver::text(
            &mut out,
            &mut input,
            labels,
            ours,
            base,
            theirs,
            Options { diff_algorithm: cfg.algo, conflict: cfg.conflict },
        );
        merges.fetch_add(1, Ordering::Relaxed);
        // (1) one side equals the base -> the other side, without conflict
        if ours == base {
            if out != theirs {
                return Err(format!("ours-eq-base: result is not theirs {}", show(cfg, &out, res)));
            }
            if res != Resolution::Complete {
                return Err(format!("ours-eq-base-conflict: conflict reported {}", show(cfg, &out, res)));
            }
        } else if theirs == base {
            if out != ours {
                return Err(format!("theirs-eq-base: result is not ours {}", show(cfg, &out, res)));
            }
            if res != Resolution::Complete {
                return Err(format!("theirs-eq-base-conflict: conflict reported {}", show(cfg, &out, res)));
            }
        }
        // (2) both sides made the same change -> that change
        if ours == theirs {
            if out != ours {
                return Err(format!("same-change: result is not the common change {}", show(cfg, &out, res)));
            }
            if res != Resolution::Complete {
                return Err(format!("same-change-conflict: conflict reported for identical sides {}", show(cfg, &out, res)));
            }
        }
        // (3) conflict-free results contain no inserted markers (the alphabet has no marker characters)
        if res == Resolution::Complete && has_marker_byte(&out) {
            return Err(format!("marker-in-clean: conflict-free result contains a marker {}", show(cfg, &out, res)));
        }
        // (4) ours/theirs resolutions contain only lines of the base or the chosen side — except lines that the other
        // side contributed *without conflict* (identity (1) demands those: ours == base must give theirs under every
        // resolution). "Without conflict" is read off the unminimised diff3 rendering of the same merge.
        let chosen = match cfg.conflict {
            Conflict::ResolveWithOurs => Some((ours, "ours")),
            Conflict::ResolveWithTheirs => Some((theirs, "theirs")),
            _ => None,
        };
        if let Some((side, name)) = chosen {
            let mut reference = Vec::new();
            let mut ref_input: InternedInput<&[u8]> = InternedInput::default();
            builtin_driver::text(
                &mut reference,
                &mut ref_input,
                Labels::default(),
                ours,
                base,
                theirs,
                Options { diff_algorithm: cfg.algo, conflict: Conflict::Keep { style: ConflictStyle::Diff3, marker_size: 7 } },
            );
            merges.fetch_add(1, Ordering::Relaxed);
            let mut allowed: HashSet<&[u8]> = lines_of(base).chain(lines_of(side)).collect();
            let mut inside = false;
            for l in lines_of(&reference) {
                if l.starts_with(b"<<<<<<<") {
                    inside = true;
                } else if l.starts_with(b">>>>>>>") {
                    inside = false;
                } else if !inside {
                    allowed.insert(l);
                }
            }
            if let Some(l) = lines_of(&out).find(|l| !allowed.contains(l)) {
                // failure shape of its own: an unterminated last line glued to the line written after it
                let unterminated = [base, ours, theirs].into_iter().filter_map(|t| lines_of(t).last()).filter(|l| !l.ends_with(b"\n"));
                for u in unterminated {
                    if l.len() > u.len() && l.starts_with(u) && allowed.contains(&l[u.len()..]) {
                        // keep evaluating the remaining configurations: this shape is a known finding and must not
                        // hide a different violation of the same triple
                        joined.get_or_insert(format!(
                            "{name}-joined-line: line \"{}\" glues the unterminated line \"{}\" to the following line (diff3 rendering \"{}\") {}",
                            escape(l),
                            escape(u),
                            escape(&reference),
                            show(cfg, &out, res)
                        ));
                        continue 'cfg;
                    }
                }
                return Err(format!(
                    "{name}-foreign-line: line \"{}\" is not in the base, not in {name} and not a conflict-free contribution (diff3 rendering \"{}\") {}",
                    escape(l),
                    escape(&reference),
                    show(cfg, &out, res)
                ));
            }
            let mixed = out != side && out != base && out != if name == "ours" { theirs } else { ours };
            if name == "ours" {
                sum.ours_mixed |= mixed;
            } else {
                sum.theirs_mixed |= mixed;
            }
        }
        if let Conflict::Keep { .. } = cfg.conflict {
            if res == Resolution::Conflict {
                sum.keep_conflicts += 1;
            } else {
                sum.keep_clean += 1;
            }
        }
    }
    match joined {
        Some(m) => Err(m),
        None => Ok(sum),
    }
}

#[derive(Serialize, Deserialize, Hash, Clone, Debug)]
struct Triple {
    base: B,
    ours: B,
    theirs: B,
}

#[derive(Serialize, Deserialize, Hash, Clone, Debug)]
struct Pair {
    base: B,
    side: B,
}

pub fn run(run: &'static Run) {
    use imara_diff::Algorithm::{Histogram, Myers};
    let quick = run.quick();
    run.rule(
        "texts = sequences of lines whose content is one letter or EMPTY, each with terminator LF | CRLF | none (last line only, never an empty one). \
         sub `triples`: base = every line sequence over {a, b, empty} of length 0..=3 in formats {all LF, all CRLF} x {final newline, none} \
         (+ thorough: first line terminated differently from the rest); ours = every text within 2 edits of the base, theirs likewise, \
         edit = insert a line (ours: x|z|a|empty, theirs: y|z|a|empty) at any position, delete a line, replace a line's content, toggle the final \
         newline, flip one line's terminator LF<->CRLF; total edits (ours+theirs): all pairs (<= 4) for base length 0..=1; \
         for length 2 quick: <= 3, thorough: <= 4; for length 3 quick: <= 2, thorough: <= 3. \
         Every triple is merged under styles {merge,diff3,zdiff3} x marker sizes {1,7,20} (labels on for odd sizes, plus size 7 without \
         labels) and resolutions {ours,theirs,union}, diff algorithm Myers (thorough: + Histogram). \
         sub `chains`: base = N distinct lines, N = 3..=6 (thorough 3..=7); each side = 1 or 2 hunks (two hunks separated by >= 1 unchanged line), \
         hunk = any base range [s,e) deleted or replaced by one new line (X ours, Y theirs), or one line inserted at s; all pairs of sides, same configurations as `triples`. \
         sub `identities`: base length 0..=3 (thorough 0..=4) over {a, b, empty}, side within 2 edits (contents x|a|empty); merges (base,base,side), \
         (side,base,base), (side,base,side) under every marker size 1..=20. non-trivial = at least one side differs from the base.",
    );
    run.assume("a panic (incl. debug assertions / overflow checks) is caught per case; a merge running > 5 s is reported as hang (cases take microseconds)");
    run.assume("marker detection relies on the alphabet containing none of < = > |; labels are the single letters B O T");
    run.budget_secs(run.pick(35.0, 560.0));

    let merges = AtomicU64::new(0);
    let conflicts = AtomicU64::new(0);
    let clean_both_changed = AtomicU64::new(0);
    let mixed_resolution = AtomicU64::new(0);
    let crlf_cases = AtomicU64::new(0);

    // ---- sub: triples ----
    let cfgs = configs(&[1, 7, 20], if quick { &[Myers] } else { &[Myers, Histogram] });
    run.cov("configurations_per_triple", cfgs.len());
    run.sub_with(
        "triples",
        Opts::default().chunk(1 << 14).watchdog(5.0),
        |emit| {
            bases(b"ab\0", 3, !quick, |base, dom| {
                // bound on the total number of edits (ours + theirs); each side has at most 2
                let max_total = match (quick, base.len()) {
                    (_, 0..=1) => 4,
                    (true, 2) => 3,
                    (false, 2) => 4,
                    (true, _) => 2,
                    (false, _) => 3,
                };
                let o = sides(base, b"xza\0", dom, true, 2);
                let t = sides(base, b"yza\0", dom, true, 2);
                let b = B(render(base));
                let mut pairs: Vec<(usize, usize, usize)> = Vec::with_capacity(o.len() * t.len());
                for (i, (d1, _)) in o.iter().enumerate() {
                    for (j, (d2, _)) in t.iter().enumerate() {
                        if d1 + d2 <= max_total {
                            pairs.push((d1 + d2, i, j));
                        }
                    }
                }
                pairs.sort();
                for (_, i, j) in pairs {
                    emit(Triple { base: b.clone(), ours: B(o[i].1.clone()), theirs: B(t[j].1.clone()) });
                }
            });
        },
        |c: &Triple| -> Verdict {
            let sum = match check_triple(&c.base, &c.ours, &c.theirs, &cfgs, &merges) {
                Ok(s) => s,
                Err(m) => return Err(m),
            };
            if c.base.contains(&b'\r') || c.ours.contains(&b'\r') || c.theirs.contains(&b'\r') {
                crlf_cases.fetch_add(1, Ordering::Relaxed);
            }
            let (ob, tb, same) = (c.ours == c.base, c.theirs == c.base, c.ours == c.theirs);
            if ob && tb {
                return ok_trivial("nothing-changed");
            }
            if sum.ours_mixed || sum.theirs_mixed {
                mixed_resolution.fetch_add(1, Ordering::Relaxed);
            }
            if ob {
                return ok("ours-unchanged=>theirs");
            }
            if tb {
                return ok("theirs-unchanged=>ours");
            }
            if same {
                return ok("same-change");
            }
            if sum.keep_conflicts == 0 {
                clean_both_changed.fetch_add(1, Ordering::Relaxed);
                ok("both-changed/clean")
            } else {
                conflicts.fetch_add(1, Ordering::Relaxed);
                if sum.keep_clean == 0 {
                    ok("both-changed/conflict-in-every-style")
                } else {
                    ok("both-changed/conflict-in-some-styles")
                }
            }
        },
    );

    // ---- sub: hunk geometries — chains of alternately overlapping hunks (ours-theirs-ours and theirs-ours-theirs) ----
    // Base = N distinct lines, so the diff of each side is exactly the chosen hunks.
    let chains_ours_first = AtomicU64::new(0);
    let chains_theirs_first = AtomicU64::new(0);
    run.sub_with(
        "chains",
        Opts::default().chunk(1 << 14).watchdog(5.0),
        |emit| {
            for n in 3..=run.pick(6usize, 7) {
                let base: Vec<u8> = (0..n as u8).map(|i| b'a' + i).collect();
                let o = geometry_sides(n, b'X');
                let t = geometry_sides(n, b'Y');
                let b = B(render_letters(&base));
                for (ho, ours) in &o {
                    for (ht, theirs) in &t {
                        let _ = (ho, ht);
                        emit(Triple { base: b.clone(), ours: B(apply_hunks(&base, ours)), theirs: B(apply_hunks(&base, theirs)) });
                    }
                }
            }
        },
        |c: &Triple| -> Verdict {
            let sum = match check_triple(&c.base, &c.ours, &c.theirs, &cfgs, &merges) {
                Ok(s) => s,
                Err(m) => return Err(m),
            };
            // recover the geometry from the texts (distinct base lines): hunks = maximal runs of changed base positions
            let (ho, ht) = (hunks_of(&c.base, &c.ours), hunks_of(&c.base, &c.theirs));
            let chain = |a: &[(usize, usize)], b: &[(usize, usize)]| {
                a.windows(2).any(|w| b.iter().any(|t| w[0].0 <= t.0 && t.0 < w[0].1.max(w[0].0 + 1) && t.1 > w[1].0))
            };
            let (co, ct) = (chain(&ho, &ht), chain(&ht, &ho));
            if co {
                chains_ours_first.fetch_add(1, Ordering::Relaxed);
            }
            if ct {
                chains_theirs_first.fetch_add(1, Ordering::Relaxed);
            }
            let kind = match (co, ct) {
                (true, true) => "chain-both-orders",
                (true, false) => "chain-ours-theirs-ours",
                (false, true) => "chain-theirs-ours-theirs",
                _ => "no-chain",
            };
            ok(format!("geometry/{kind}/{}", if sum.keep_conflicts > 0 { "conflict" } else { "clean" }))
        },
    );
    run.cov("triples_with_chain_ours_theirs_ours", chains_ours_first.load(Ordering::Relaxed));
    run.cov("triples_with_chain_theirs_ours_theirs", chains_theirs_first.load(Ordering::Relaxed));
    run.require("a chain ours-theirs-ours of overlapping hunks was merged", chains_ours_first.load(Ordering::Relaxed) > 0);
    run.require("a chain theirs-ours-theirs of overlapping hunks was merged", chains_theirs_first.load(Ordering::Relaxed) > 0);

    // ---- sub: identities over a wider space and every marker size ----
    let all_sizes: Vec<usize> = (1..=20).collect();
    let cfgs_wide = configs(&all_sizes, if quick { &[Myers] } else { &[Myers, Histogram] });
    run.cov("configurations_per_identity_merge", cfgs_wide.len());
    run.sub_with(
        "identities",
        Opts::default().chunk(1 << 12).watchdog(5.0),
        |emit| {
            bases(b"ab\0", run.pick(3, 4), true, |base, dom| {
                let b = B(render(base));
                for (_, s) in sides(base, b"xa\0", dom, true, 2) {
                    emit(Pair { base: b.clone(), side: B(s) });
                }
            });
        },
        |c: &Pair| -> Verdict {
            for (o, t) in [(&c.base, &c.side), (&c.side, &c.base), (&c.side, &c.side)] {
                if let Err(m) = check_triple(&c.base, o, t, &cfgs_wide, &merges) {
                    return Err(m);
                }
            }
            if c.side == c.base {
                ok_trivial("nothing-changed")
            } else if c.side.is_empty() || c.base.is_empty() {
                ok("identity/empty-text")
            } else if c.side.contains(&b'\r') || c.base.contains(&b'\r') {
                ok("identity/crlf")
            } else {
                ok("identity/lf")
            }
        },
    );

    run.cov("merges_performed", merges.load(Ordering::Relaxed));
    run.cov("triples_with_conflict", conflicts.load(Ordering::Relaxed));
    run.cov("triples_both_changed_clean", clean_both_changed.load(Ordering::Relaxed));
    run.cov("triples_where_ours_or_theirs_resolution_mixes_sides", mixed_resolution.load(Ordering::Relaxed));
    run.cov("triples_with_crlf", crlf_cases.load(Ordering::Relaxed));
    run.require("some triple produced a conflict", conflicts.load(Ordering::Relaxed) > 0);
    run.require("some triple with both sides changed merged cleanly", clean_both_changed.load(Ordering::Relaxed) > 0);
    run.require("some ours/theirs resolution produced a text that is neither the side nor the base", mixed_resolution.load(Ordering::Relaxed) > 0);
    run.require("CRLF texts were merged", crlf_cases.load(Ordering::Relaxed) > 0);
}
