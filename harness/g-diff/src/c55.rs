//! C55 — worktree streams and tar/zip archives contain exactly the tree's files (E1: all small trees over fixed path
//! slots x entry kinds x one optional additional entry; tree listing and `git archive` as oracles).
use crate::c44::{build_trees, Map};
use gix_hash::ObjectId;
use gix_object::tree::EntryKind;
use serde::{Deserialize, Serialize};
use std::collections::HashMap;
use std::io::Read;
use std::path::Path;
use std::sync::atomic::{AtomicU64, Ordering};
use vkit::{bad, git, ok, ok_trivial, Opts, Run, Verdict};

const SLOTS: [&str; 4] = ["a", "d/b", "d/e/c", "z"];

/// kind -> (mktree mode+type, content); sizes sit around the stream reader's buffer (u16::MAX = 65535 bytes)
fn kind_table(quick: bool) -> Vec<(&'static str, &'static str, Vec<u8>)> {
    let big = |n: usize| vkit::enumerate::lcg_bytes(n, n as u64);
    let mut v = vec![
        ("empty", "100644 blob", Vec::new()),
        ("one", "100644 blob", b"x".to_vec()),
        ("buf", "100644 blob", big(65535)),
        ("buf+1", "100644 blob", big(65536)),
        ("exe", "100755 blob", b"#!/bin/sh\n".to_vec()),
        ("link", "120000 blob", b"a".to_vec()),
        ("sub", "160000 commit", Vec::new()),
    ];
    if !quick {
        v.push(("buf-1", "100644 blob", big(65534)));
        v.push(("2buf+1", "100644 blob", big(131071)));
    }
    v
}

#[derive(Serialize, Deserialize, Hash, Clone, Debug)]
struct Case {
    tree: Map,
    /// additional entry added by the caller: none | file | exe | link | dir
    extra: String,
}

/// (path, kind of entry, content) — what a consumer must see
type Listing = Vec<(String, &'static str, Vec<u8>)>;

fn extra_entry(extra: &str) -> Option<(gix_worktree_stream::AdditionalEntry, (String, &'static str, Vec<u8>))> {
    use gix_worktree_stream::{entry::Source, AdditionalEntry};
    let (mode, path, kind, content): (EntryKind, &str, &'static str, &[u8]) = match extra {
        "file" => (EntryKind::Blob, "extra/file", "file", b"extra content\n"),
        "exe" => (EntryKind::BlobExecutable, "extra-exe", "exe", b"#!/bin/true\n"),
        "link" => (EntryKind::Link, "extra/link", "link", b"../a"),
        "dir" => (EntryKind::Tree, "extra-dir", "dir", b""),
        _ => return None,
    };
    Some((
        AdditionalEntry {
            id: ObjectId::null(gix_hash::Kind::Sha1),
            mode: mode.into(),
            relative_path: path.into(),
            source: if kind == "dir" { Source::Null } else { Source::Memory(content.to_vec()) },
        },
        (path.to_string(), kind, content.to_vec()),
    ))
}

fn new_stream(odb: &gix_odb::HandleArc, tree: ObjectId, extra: &str) -> gix_worktree_stream::Stream {
    let mut stream = gix_worktree_stream::from_tree(
        tree,
        odb.clone(),
        gix_filter::Pipeline::new(Default::default(), Default::default()),
        |_, _, _| Ok::<_, std::convert::Infallible>(()),
    );
    if let Some((e, _)) = extra_entry(extra) {
        stream.add_entry(e);
    }
    stream
}

/// files and symlinks below `root` (directories are not compared: git archive creates one per gitlink)
fn snapshot_files(root: &Path) -> Listing {
    let mut v: Listing = Vec::new();
    for (p, (kind, mode, bytes)) in vkit::scratch::snapshot(root) {
        match kind {
            'l' => v.push((p, "link", bytes)),
            'f' => v.push((p, if mode & 0o100 != 0 { "exe" } else { "file" }, bytes)),
            _ => {}
        }
    }
    v.sort();
    v
}

fn brief(l: &Listing) -> String {
    l.iter().map(|(p, k, c)| format!("{p}:{k}:{}B", c.len())).collect::<Vec<_>>().join(", ")
}

const ZIP_LIST: &str = r#"
import sys, json, zipfile
z = zipfile.ZipFile(sys.argv[1])
out = []
for i in z.infolist():
    out.append([i.filename, i.external_attr >> 16, i.file_size])
    if not i.filename.endswith('/'):
        import os
        dst = os.path.join(sys.argv[2], i.filename)
        os.makedirs(os.path.dirname(dst), exist_ok=True)
        open(dst, 'wb').write(z.read(i))
if z.testzip() is not None:
    sys.exit(3)
print(json.dumps(out))
"#;

pub fn run(run: &'static Run) {
    let quick = run.quick();
    let kinds = kind_table(quick);
    let kind_names: Vec<&str> = kinds.iter().map(|k| k.0).collect();
    run.rule(format!(
        "trees = every assignment of (absent | one of kinds {kind_names:?}) to the path slots {SLOTS:?} with at most {} entries; \
         file sizes around the stream buffer (65535 bytes); x additional entry in {{none, file, exe, link, dir}} for trees with <=1 entry, {{none, file}} otherwise. Per case: (1) stream entries \
         (path, mode, id, content) == blobs/executables/symlinks of the tree + the additional entry, each once; (2) tar written by gix-archive, \
         extracted with tar(1): files == extraction of `git archive --format=tar` + the additional entry; (3) zip written by gix-archive, read with \
         python3 zipfile: names, unix modes, contents == the same listing. non-trivial = the tree has at least one streamed entry.",
        if quick { 2 } else { 3 }
    ));
    run.assume("git archive, GNU tar and python3 zipfile are trusted; only files and symlinks are compared (git archive adds an empty directory per gitlink, gitoxide documents that it streams none); permissions are compared by the executable bit only (git applies tar.umask)");
    run.assume("no worktree filters / export-ignore attributes are configured (identity pipeline); tree_prefix is not varied");
    run.budget_secs(run.pick(35.0, 560.0));

    // ---- fixture: one repository with every blob and every tree ----
    let dir = vkit::scratch::Dir::new("c55").keep();
    git::init(&dir);
    let empty_tree = git::git_text(&dir, &["mktree"]);
    let commit = git::git_text(&dir, &["commit-tree", "-m", "sub", &empty_tree]);
    let mut table: HashMap<String, (String, String)> = HashMap::new();
    let mut content: HashMap<String, (&'static str, Vec<u8>)> = HashMap::new();
    for (name, mt, bytes) in &kinds {
        let oid = if *name == "sub" {
            commit.clone()
        } else {
            String::from_utf8_lossy(&git::git_in(&dir, &["hash-object", "-w", "--stdin"], bytes)).trim().to_string()
        };
        table.insert(name.to_string(), (mt.to_string(), oid));
        let k = match *mt {
            "100755 blob" => "exe",
            "120000 blob" => "link",
            "160000 commit" => "sub",
            _ => "file",
        };
        content.insert(name.to_string(), (k, bytes.clone()));
    }
    let max_entries = if quick { 2 } else { 3 };
    let mut maps: Vec<Map> = Vec::new();
    let mut alpha: Vec<Option<&str>> = vec![None];
    alpha.extend(kind_names.iter().map(|k| Some(*k)));
    vkit::enumerate::seqs(&alpha, SLOTS.len(), SLOTS.len(), |assign| {
        let m: Map = SLOTS.iter().zip(assign).filter_map(|(p, k)| k.map(|k| (p.to_string(), k.to_string()))).collect();
        if m.len() <= max_entries {
            maps.push(m);
        }
    });
    maps.sort_by_key(|m| m.len());
    let trees = build_trees(&dir, &table, &maps);
    run.cov("trees", maps.len());
    // pack everything: reading loose objects is very slow for git on a loaded machine
    let all = git::git(&dir, &["cat-file", "--batch-all-objects", "--batch-check=%(objectname)"]);
    git::git_in(&dir, &["pack-objects", "-q", ".git/objects/pack/pack"], &all);
    git::git(&dir, &["prune-packed", "-q"]);
    let store = std::sync::Arc::new(
        gix_odb::Store::at_opts(dir.join(".git/objects"), &mut None.into_iter(), gix_odb::store::init::Options::default())
            .unwrap_or_else(|e| vkit::machinery!("gix-odb cannot open fixture: {e}")),
    );

    let big_streamed = AtomicU64::new(0);
    let with_sub = AtomicU64::new(0);
    run.sub_with(
        "archive",
        Opts::default().chunk(64).watchdog(600.0),
        |emit| {
            for m in &maps {
                // the additional entries are independent of the tree: all of them for trees with <=1 entry, none|file otherwise
                let extras: &[&str] = if m.len() <= 1 { &["none", "file", "exe", "link", "dir"] } else { &["none", "file"] };
                for e in extras {
                    emit(Case { tree: m.clone(), extra: e.to_string() });
                }
            }
        },
        |c: &Case| -> Verdict {
            let Some(&tree_id) = trees.get(&c.tree) else { vkit::machinery!("case refers to a tree outside the fixture") };
            let odb: gix_odb::HandleArc = store.to_cache_arc();
            // what must come out: every blob/exe/link of the tree, plus the additional entry
            let mut expected: Listing = c
                .tree
                .iter()
                .filter_map(|(p, k)| {
                    let (kind, bytes) = &content[k];
                    (*kind != "sub").then(|| (p.clone(), *kind, bytes.clone()))
                })
                .collect();
            let extra = extra_entry(&c.extra).map(|(_, l)| l);
            expected.extend(extra.clone());
            expected.sort();

            // (1) the stream itself
            let mut stream = new_stream(&odb, tree_id, &c.extra);
            let mut seen: Listing = Vec::new();
            loop {
                let mut entry = match stream.next_entry() {
                    Ok(Some(e)) => e,
                    Ok(None) => break,
                    Err(e) => return bad("stream-error", e),
                };
                let kind = match entry.mode.kind() {
                    EntryKind::Blob => "file",
                    EntryKind::BlobExecutable => "exe",
                    EntryKind::Link => "link",
                    EntryKind::Tree => "dir",
                    EntryKind::Commit => "sub",
                };
                let path = entry.relative_path().to_string();
                let announced = entry.bytes_remaining();
                let mut buf = Vec::new();
                if let Err(e) = entry.read_to_end(&mut buf) {
                    return bad("stream-read-error", format!("{path}: {e}"));
                }
                if let Some(n) = announced {
                    if n != buf.len() {
                        return bad("stream-length", format!("{path}: announced {n} bytes, delivered {}", buf.len()));
                    }
                }
                if let Some(k) = c.tree.get(&path) {
                    if entry.id.to_string() != table[k].1 {
                        return bad("stream-id", format!("{path}: id {} but the tree has {}", entry.id, table[k].1));
                    }
                }
                seen.push((path, kind, buf));
            }
            seen.sort();
            if seen != expected {
                return bad("stream-entries", format!("stream yielded [{}], expected [{}]", brief(&seen), brief(&expected)));
            }

            // (2) tar vs git archive
            let scratch = vkit::scratch::Dir::new("c55case");
            let mut tar = Vec::new();
            let mut stream = new_stream(&odb, tree_id, &c.extra);
            if let Err(e) = gix_archive::write_stream(
                &mut stream,
                gix_worktree_stream::Stream::next_entry,
                &mut tar,
                gix_archive::Options { format: gix_archive::Format::Tar, tree_prefix: None, modification_time: 1112911993 },
            ) {
                return bad("tar-error", e);
            }
            let untar = |bytes: &[u8], to: &Path| -> Result<(), String> {
                std::fs::create_dir_all(to).map_err(|e| e.to_string())?;
                let mut cmd = std::process::Command::new("tar");
                cmd.arg("-xf").arg("-").arg("-C").arg(to);
                let o = git::run_cmd(cmd, Some(bytes));
                if o.ok {
                    Ok(())
                } else {
                    Err(o.err_text())
                }
            };
            let ours_dir = scratch.join("ours");
            if let Err(e) = untar(&tar, &ours_dir) {
                return bad("tar-unreadable", format!("tar(1) rejects the archive: {e}"));
            }
            let git_tar = git::git(&dir, &["archive", "--format=tar", &tree_id.to_string()]);
            let git_dir = scratch.join("git");
            if let Err(e) = untar(&git_tar, &git_dir) {
                vkit::machinery!("cannot extract git archive output: {e}");
            }
            let mut want = snapshot_files(&git_dir);
            want.extend(extra.clone().filter(|e| e.1 != "dir"));
            want.sort();
            let got = snapshot_files(&ours_dir);
            if got != want {
                return bad("tar-content", format!("extracted [{}], git archive (+extra) gives [{}]", brief(&got), brief(&want)));
            }
            let want_listing: Listing = expected.iter().filter(|e| e.1 != "dir").cloned().collect();
            if want != want_listing {
                vkit::machinery!("git archive extraction [{}] differs from the tree listing [{}]", brief(&want), brief(&want_listing));
            }
            if c.extra == "dir" && !ours_dir.join("extra-dir").is_dir() {
                return bad("tar-content", "additional directory entry is missing after extraction");
            }

            // (3) zip
            let zip_path = scratch.join("ours.zip");
            let mut stream = new_stream(&odb, tree_id, &c.extra);
            {
                let file = std::fs::File::create(&zip_path).unwrap_or_else(|e| vkit::machinery!("create zip: {e}"));
                if let Err(e) = gix_archive::write_stream_seek(
                    &mut stream,
                    gix_worktree_stream::Stream::next_entry,
                    file,
                    gix_archive::Options {
                        format: gix_archive::Format::Zip { compression_level: Some(1) },
                        tree_prefix: None,
                        modification_time: 1112911993,
                    },
                ) {
                    return bad("zip-error", e);
                }
            }
            let zip_dir = scratch.join("zip");
            std::fs::create_dir_all(&zip_dir).unwrap_or_else(|e| vkit::machinery!("mkdir: {e}"));
            let mut cmd = std::process::Command::new("python3");
            cmd.arg("-c").arg(ZIP_LIST).arg(&zip_path).arg(&zip_dir);
            let o = git::run_cmd(cmd, None);
            if !o.ok {
                return bad("zip-unreadable", format!("python zipfile rejects the archive: {}", o.err_text()));
            }
            let listing: Vec<(String, u32, u64)> =
                serde_json::from_slice(&o.stdout).unwrap_or_else(|e| vkit::machinery!("zip listing: {e}"));
            let mut got: Listing = Vec::new();
            let mut got_dirs = Vec::new();
            for (name, mode, _size) in &listing {
                if let Some(d) = name.strip_suffix('/') {
                    got_dirs.push(d.to_string());
                    continue;
                }
                let kind = if mode & 0o170000 == 0o120000 {
                    "link"
                } else if mode & 0o100 != 0 {
                    "exe"
                } else {
                    "file"
                };
                let bytes = std::fs::read(zip_dir.join(name)).unwrap_or_else(|e| vkit::machinery!("read extracted {name}: {e}"));
                got.push((name.clone(), kind, bytes));
            }
            got.sort();
            if got != want_listing {
                return bad("zip-content", format!("zip holds [{}], expected [{}]", brief(&got), brief(&want_listing)));
            }
            if c.extra == "dir" && !got_dirs.iter().any(|d| d == "extra-dir") {
                return bad("zip-content", "additional directory entry is missing in the zip");
            }

            if expected.iter().any(|e| e.2.len() >= 65534) {
                big_streamed.fetch_add(1, Ordering::Relaxed);
            }
            let has_sub = c.tree.values().any(|k| k == "sub");
            if has_sub {
                with_sub.fetch_add(1, Ordering::Relaxed);
            }
            let streamed = expected.len() - usize::from(extra.is_some());
            if streamed == 0 {
                return ok_trivial(if c.extra == "none" { "nothing-to-stream" } else { "only-extra" });
            }
            let nested = c.tree.keys().any(|p| p.contains('/'));
            ok(format!(
                "{}-entries{}{}{}",
                streamed,
                if nested { "/nested" } else { "" },
                if has_sub { "/gitlink-skipped" } else { "" },
                if c.extra != "none" { "/+extra" } else { "" }
            ))
        },
    );
    run.cov("cases_with_file_at_buffer_size", big_streamed.load(Ordering::Relaxed));
    run.cov("cases_with_gitlink", with_sub.load(Ordering::Relaxed));
    run.require("files at/over the stream buffer size were streamed", big_streamed.load(Ordering::Relaxed) > 0);
    run.require("trees with a gitlink were streamed", with_sub.load(Ordering::Relaxed) > 0);
}
