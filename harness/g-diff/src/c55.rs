//! C55 — worktree streams and tar/zip archives contain exactly the tree's files (E1: all small trees over fixed path
//! slots x entry kinds x one optional additional entry; tree listing and `git archive` as oracles).
use crate::c44::{build_trees, Map};
use gix_hash::ObjectId;
use gix_object::tree::EntryKind;
use serde::{Deserialize, Serialize};
use std::collections::HashMap;
use std::io::Read;
use std::path::Path;
use std::sync::atomic::{AtomicU64, Ordering};
use vkit::{bad, git, ok, ok_trivial, Opts, Run, Verdict};

const SLOTS: [&str; 4] = ["a", "d/b", "d/e/c", "z"];

/// kind -> (mktree mode+type, content); sizes sit around the stream reader's buffer (u16::MAX = 65535 bytes)
fn kind_table(quick: bool) -> Vec<(&'static str, &'static str, Vec<u8>)> {
    let big = |n: usize| vkit::enumerate::lcg_bytes(n, n as u64);
    let mut v = vec![
        ("empty", "100644 blob", Vec::new()),
        ("one", "100644 blob", b"x".to_vec()),
        ("buf", "100644 blob", big(65535)),
        ("buf+1", "100644 blob", big(65536)),
        ("exe", "100755 blob", b"#!/bin/sh\n".to_vec()),
        ("link", "120000 blob", b"a".to_vec()),
        ("sub", "160000 commit", Vec::new()),
    ];
    if !quick {
        v.push(("buf-1", "100644 blob", big(65534)));
        v.push(("2buf+1", "100644 blob", big(131071)));
    }
    v
}


// ---------------- filtered entries (long-running filter process => stream entries of unknown length) ----------------

/// The filter process (`g-diff --filter-process`), speaking git's long-running filter protocol through gix-filter's server.
/// smudge: input `C <n1> <n2> ...\n<payload>` -> the payload, written as packets of n1, n2, ... bytes (the rest in one write);
/// any other input -> `F:` + input in a single write (split by the packet writer into packets of at most 65516 bytes).
pub fn filter_process() -> Result<(), Box<dyn std::error::Error>> {
    use gix_filter::driver::process;
    use std::io::Write;
    let mut srv = process::Server::handshake(
        std::io::stdin(),
        std::io::stdout(),
        "git-filter",
        &mut |versions| versions.contains(&2).then_some(2),
        &["clean", "smudge"],
    )?;
    while let Some(mut request) = srv.next_request()? {
        let mut buf = Vec::new();
        request.as_read().read_to_end(&mut buf)?;
        match request.command.as_str() {
            "smudge" => {
                request.write_status(process::Status::success())?;
                {
                    let mut out = request.as_write();
                    for chunk in smudge_chunks(&buf) {
                        out.write_all(&chunk)?;
                    }
                }
                request.write_status(process::Status::Previous)?;
            }
            _ => {
                request.write_status(process::Status::success())?;
                request.as_write().write_all(&buf)?;
                request.write_status(process::Status::Previous)?;
            }
        }
    }
    Ok(())
}

/// what the filter writes for a blob, write by write
fn smudge_chunks(blob: &[u8]) -> Vec<Vec<u8>> {
    if let Some(rest) = blob.strip_prefix(b"C ") {
        if let Some(nl) = rest.iter().position(|&b| b == b'\n') {
            let sizes: Vec<usize> = String::from_utf8_lossy(&rest[..nl]).split(' ').filter_map(|t| t.parse().ok()).collect();
            let mut payload = &rest[nl + 1..];
            let mut v = Vec::new();
            for n in sizes {
                let n = n.min(payload.len());
                if n > 0 {
                    v.push(payload[..n].to_vec());
                    payload = &payload[n..];
                }
            }
            if !payload.is_empty() {
                v.push(payload.to_vec());
            }
            return v;
        }
    }
    let mut out = b"F:".to_vec();
    out.extend_from_slice(blob);
    vec![out]
}

#[derive(Serialize, Deserialize, Hash, Clone, Debug)]
struct FilterCase {
    /// entries in tree order: (name, spec); names starting with `f` carry `filter=vf`.
    /// spec: `out=<n>` blob whose filtered form has n bytes | `chunks=<n1>,<n2>,..` payload written in these packet sizes | `plain=<n>`
    entries: Vec<(String, String)>,
}

/// (blob content, expected content in the stream)
fn filter_entry(_name: &str, spec: &str) -> (Vec<u8>, Vec<u8>) {
    let (kind, arg) = spec.split_once('=').unwrap_or((spec, ""));
    match kind {
        "out" => {
            let n: usize = arg.parse().unwrap_or(2);
            let blob = vkit::enumerate::lcg_bytes(n.saturating_sub(2), n as u64)
                .into_iter()
                .map(|b| b'a' + b % 26)
                .collect::<Vec<u8>>();
            let expected = smudge_chunks(&blob).concat();
            (blob, expected)
        }
        "chunks" => {
            let sizes: Vec<usize> = arg.split(',').filter_map(|t| t.parse().ok()).collect();
            let total: usize = sizes.iter().sum();
            let payload: Vec<u8> = (0..total).map(|i| b'0' + (i % 10) as u8).collect();
            let mut blob = format!("C {}\n", sizes.iter().map(|n| n.to_string()).collect::<Vec<_>>().join(" ")).into_bytes();
            blob.extend_from_slice(&payload);
            (blob, payload)
        }
        _ => {
            let n: usize = arg.parse().unwrap_or(0);
            let blob: Vec<u8> = (0..n).map(|i| b'A' + (i % 26) as u8).collect();
            (blob.clone(), blob)
        }
    }
}

#[derive(Serialize, Deserialize, Hash, Clone, Debug)]
struct Case {
    tree: Map,
    /// additional entry added by the caller: none | file | exe | link | dir | gitlink
    extra: String,
}

/// (path, kind of entry, content) — what a consumer must see
type Listing = Vec<(String, &'static str, Vec<u8>)>;

fn extra_entry(extra: &str) -> Option<(gix_worktree_stream::AdditionalEntry, (String, &'static str, Vec<u8>))> {
    use gix_worktree_stream::{entry::Source, AdditionalEntry};
    let (mode, path, kind, content): (EntryKind, &str, &'static str, &[u8]) = match extra {
        "file" => (EntryKind::Blob, "extra/file", "file", b"extra content\n"),
        "exe" => (EntryKind::BlobExecutable, "extra-exe", "exe", b"#!/bin/true\n"),
        "link" => (EntryKind::Link, "extra/link", "link", b"../a"),
        "dir" => (EntryKind::Tree, "extra-dir", "dir", b""),
        "gitlink" => (EntryKind::Commit, "extra-dir", "sub", b""),
        _ => return None,
    };
    Some((
        AdditionalEntry {
            id: ObjectId::null(gix_hash::Kind::Sha1),
            mode: mode.into(),
            relative_path: path.into(),
            source: if kind == "dir" || kind == "sub" { Source::Null } else { Source::Memory(content.to_vec()) },
        },
        (path.to_string(), kind, content.to_vec()),
    ))
}

fn new_stream(odb: &gix_odb::HandleArc, tree: ObjectId, extra: &str) -> gix_worktree_stream::Stream {
    let mut stream = gix_worktree_stream::from_tree(
        tree,
        odb.clone(),
        gix_filter::Pipeline::new(Default::default(), Default::default()),
        |_, _, _| Ok::<_, std::convert::Infallible>(()),
    );
    if let Some((e, _)) = extra_entry(extra) {
        stream.add_entry(e);
    }
    stream
}

/// files and symlinks below `root` (directories are not compared: git archive creates one per gitlink)
fn snapshot_files(root: &Path) -> Listing {
    let mut v: Listing = Vec::new();
    for (p, (kind, mode, bytes)) in vkit::scratch::snapshot(root) {
        match kind {
            'l' => v.push((p, "link", bytes)),
            'f' => v.push((p, if mode & 0o100 != 0 { "exe" } else { "file" }, bytes)),
            _ => {}
        }
    }
    v.sort();
    v
}

/// Minimal independent tar reader (ustar / GNU headers as written by git and the `tar` crate for short names):
/// returns files + symlinks and the directory names. Header checksums are verified.
fn parse_tar(bytes: &[u8]) -> Result<(Listing, Vec<String>), String> {
    fn cstr(b: &[u8]) -> String {
        String::from_utf8_lossy(&b[..b.iter().position(|&c| c == 0).unwrap_or(b.len())]).to_string()
    }
    fn octal(b: &[u8]) -> Result<u64, String> {
        let t = cstr(b);
        let t = t.trim_matches(|c| c == ' ');
        if t.is_empty() {
            return Ok(0);
        }
        u64::from_str_radix(t, 8).map_err(|e| format!("bad octal field {t:?}: {e}"))
    }
    let (mut files, mut dirs): (Listing, Vec<String>) = (Vec::new(), Vec::new());
    let mut pos = 0;
    let mut terminated = false;
    while pos + 512 <= bytes.len() {
        let h = &bytes[pos..pos + 512];
        if h.iter().all(|&b| b == 0) {
            terminated = true;
            break;
        }
        let want_sum = octal(&h[148..156])?;
        let sum: u64 = h.iter().enumerate().map(|(i, &b)| if (148..156).contains(&i) { 32u64 } else { u64::from(b) }).sum();
        if sum != want_sum {
            return Err(format!("header checksum {want_sum} != computed {sum} at offset {pos}"));
        }
        let mut name = cstr(&h[0..100]);
        if &h[257..263] == b"ustar\0" {
            let prefix = cstr(&h[345..500]);
            if !prefix.is_empty() {
                name = format!("{prefix}/{name}");
            }
        }
        let mode = octal(&h[100..108])?;
        let size = octal(&h[124..136])? as usize;
        let data_start = pos + 512;
        if data_start + size > bytes.len() {
            return Err(format!("entry {name} announces {size} bytes but the archive ends"));
        }
        let data = &bytes[data_start..data_start + size];
        match h[156] {
            b'0' | 0 => files.push((name, if mode & 0o100 != 0 { "exe" } else { "file" }, data.to_vec())),
            b'2' => {
                if size != 0 {
                    return Err(format!("symlink {name} with {size} bytes of data"));
                }
                files.push((name, "link", cstr(&h[157..257]).into_bytes()))
            }
            b'5' => {
                if size != 0 {
                    return Err(format!("directory {name} with {size} bytes of data"));
                }
                dirs.push(name.trim_end_matches('/').to_string())
            }
            b'g' | b'x' => {}
            other => return Err(format!("unexpected entry type {:?} for {name}", other as char)),
        }
        pos = data_start + size.div_ceil(512) * 512;
    }
    if !terminated {
        return Err("no end-of-archive block".into());
    }
    files.sort();
    Ok((files, dirs))
}

/// Minimal independent zip reader: end-of-central-directory -> central directory -> local headers; stored or deflated
/// data, CRC-32 verified. Returns files + symlinks (by unix mode in the external attributes) and directory names.
fn parse_zip(z: &[u8]) -> Result<(Listing, Vec<String>), String> {
    let u16_at = |p: usize| -> Result<usize, String> { z.get(p..p + 2).map(|b| u16::from_le_bytes([b[0], b[1]]) as usize).ok_or_else(|| "truncated".to_string()) };
    let u32_at = |p: usize| -> Result<usize, String> {
        z.get(p..p + 4).map(|b| u32::from_le_bytes([b[0], b[1], b[2], b[3]]) as usize).ok_or_else(|| "truncated".to_string())
    };
    if z.len() < 22 {
        return Err("shorter than an end-of-central-directory record".into());
    }
    let eocd = (0..=z.len() - 22).rev().find(|&p| &z[p..p + 4] == b"PK\x05\x06").ok_or("no end-of-central-directory record")?;
    let count = u16_at(eocd + 10)?;
    let mut p = u32_at(eocd + 16)?;
    let (mut files, mut dirs): (Listing, Vec<String>) = (Vec::new(), Vec::new());
    for _ in 0..count {
        if z.get(p..p + 4) != Some(b"PK\x01\x02") {
            return Err(format!("no central directory header at {p}"));
        }
        let method = u16_at(p + 10)?;
        let crc = u32_at(p + 16)? as u32;
        let (csize, usize_) = (u32_at(p + 20)?, u32_at(p + 24)?);
        let (nlen, xlen, clen) = (u16_at(p + 28)?, u16_at(p + 30)?, u16_at(p + 32)?);
        let mode = (u32_at(p + 38)? >> 16) as u32;
        let local = u32_at(p + 42)?;
        let name = String::from_utf8_lossy(z.get(p + 46..p + 46 + nlen).ok_or("truncated name")?).to_string();
        p += 46 + nlen + xlen + clen;
        if z.get(local..local + 4) != Some(b"PK\x03\x04") {
            return Err(format!("no local header for {name}"));
        }
        let (lnlen, lxlen) = (u16_at(local + 26)?, u16_at(local + 28)?);
        if z.get(local + 30..local + 30 + lnlen) != Some(name.as_bytes()) {
            return Err(format!("local header name differs for {name}"));
        }
        let start = local + 30 + lnlen + lxlen;
        let raw = z.get(start..start + csize).ok_or_else(|| format!("data of {name} is truncated"))?;
        let data = match method {
            0 => raw.to_vec(),
            8 => {
                let mut out = Vec::with_capacity(usize_);
                flate2::read::DeflateDecoder::new(raw).read_to_end(&mut out).map_err(|e| format!("inflate {name}: {e}"))?;
                out
            }
            m => return Err(format!("unsupported compression method {m} for {name}")),
        };
        if data.len() != usize_ {
            return Err(format!("{name}: {} bytes, directory says {usize_}", data.len()));
        }
        let mut c = flate2::Crc::new();
        c.update(&data);
        if c.sum() != crc {
            return Err(format!("{name}: CRC mismatch"));
        }
        if let Some(d) = name.strip_suffix('/') {
            dirs.push(d.to_string());
        } else if mode & 0o170000 == 0o120000 {
            files.push((name, "link", data));
        } else {
            files.push((name, if mode & 0o100 != 0 { "exe" } else { "file" }, data));
        }
    }
    files.sort();
    Ok((files, dirs))
}

fn brief(l: &Listing) -> String {
    l.iter().map(|(p, k, c)| format!("{p}:{k}:{}B", c.len())).collect::<Vec<_>>().join(", ")
}

pub fn run(run: &'static Run) {
    let quick = run.quick();
    let kinds = kind_table(quick);
    let kind_names: Vec<&str> = kinds.iter().map(|k| k.0).collect();
    run.rule(format!(
        "trees = every assignment of (absent | one of kinds {kind_names:?}) to the path slots {SLOTS:?} with fewer than {} entries, \
         plus all trees with exactly that many entries over the kinds empty/buf+1/exe/link/sub; \
         file sizes around the stream buffer (65535 bytes); x additional entry in {{none, file, exe, link, dir, gitlink}} for trees with <=1 entry, {{none, file}} otherwise \
         (quick: 2-entry trees only on the slot pairs (a, d/e/c) and (d/b, d/e/c); extras {{none, file, link}} for 1-entry trees + {{dir, gitlink}} after a 1-byte file, a 65536-byte file and a symlink, {{file}} for 2-entry trees). Per case: (1) stream entries \
         (path, mode, id, content) == blobs/executables/symlinks of the tree + the additional entry, each once; (2) tar written by gix-archive == `git archive --format=tar` + the additional entry, both read by an independent header reader \
         (checksums verified), and additionally extracted with tar(1) for trees with <=1 entry (quick: the empty tree with every extra + each kind once at d/e/c); (3) zip written by gix-archive, read by an independent \
         central-directory reader (inflate + CRC) and, for the same trees, extracted with unzip(1): names, unix modes (symlink / executable bit), contents == the same listing. non-trivial = the tree has at least one streamed entry. \
         sub `filtered`: trees with 1-2 blobs converted by a long-running filter process (this binary, `--filter-process`, gix-filter's process server; \
         attribute filter=vf) whose output has 2|3|65515|65516|65517|65534|65535|65536|131032|131033 bytes (quick: 3|65516|65517|65536|131033; one packet = 65516, \
         stream buffer = 65535), optionally followed by a plain blob; plus every composition of a 1..=7 (quick 1..=5) byte payload into packets, followed by a \
         filtered and a plain blob. Oracle: stream entries and tar contents == the filter's full output per entry, every entry present once, no error.",
        if quick { 2 } else { 3 }
    ));
    run.assume("git archive, GNU tar and Info-ZIP unzip are trusted; only files and symlinks are compared (git archive adds an empty directory per gitlink, gitoxide documents that it streams none); permissions are compared by the executable bit only (git applies tar.umask)");
    run.assume("no worktree filters / export-ignore attributes are configured (identity pipeline); tree_prefix is not varied");
    run.budget_secs(run.pick(35.0, 560.0));

    // ---- fixture: one repository with every blob and every tree ----
    let dir = vkit::scratch::Dir::new("c55").keep();
    git::init(&dir);
    let empty_tree = git::git_text(&dir, &["mktree"]);
    let commit = git::git_text(&dir, &["commit-tree", "-m", "sub", &empty_tree]);
    let mut table: HashMap<String, (String, String)> = HashMap::new();
    let mut content: HashMap<String, (&'static str, Vec<u8>)> = HashMap::new();
    // all blobs with one `hash-object --stdin-paths` call
    let blob_dir = vkit::scratch::Dir::new("c55blobs");
    let mut paths = String::new();
    for (i, (name, _, bytes)) in kinds.iter().enumerate() {
        if *name != "sub" {
            let p = blob_dir.join(format!("{i}"));
            std::fs::write(&p, bytes).unwrap_or_else(|e| vkit::machinery!("write blob: {e}"));
            paths.push_str(&format!("{}\n", p.display()));
        }
    }
    let out = git::git_in(&dir, &["hash-object", "-w", "--stdin-paths"], paths.as_bytes());
    let mut blob_ids = String::from_utf8_lossy(&out).lines().map(str::to_string).collect::<Vec<_>>().into_iter();
    for (name, mt, bytes) in &kinds {
        let oid = if *name == "sub" {
            commit.clone()
        } else {
            blob_ids.next().unwrap_or_else(|| vkit::machinery!("hash-object returned too few ids"))
        };
        table.insert(name.to_string(), (mt.to_string(), oid));
        let k = match *mt {
            "100755 blob" => "exe",
            "120000 blob" => "link",
            "160000 commit" => "sub",
            _ => "file",
        };
        content.insert(name.to_string(), (k, bytes.clone()));
    }
    // kinds allowed per tree size: everything for small trees, a core set for the largest size of the tier
    let core: Vec<&str> = vec!["empty", "buf+1", "exe", "link", "sub"];
    let max_entries = if quick { 2 } else { 3 };
    let mut maps: Vec<Map> = Vec::new();
    let mut alpha: Vec<Option<&str>> = vec![None];
    alpha.extend(kind_names.iter().map(|k| Some(*k)));
    vkit::enumerate::seqs(&alpha, SLOTS.len(), SLOTS.len(), |assign| {
        let m: Map = SLOTS.iter().zip(assign).filter_map(|(p, k)| k.map(|k| (p.to_string(), k.to_string()))).collect();
        let slots_ok = !quick || m.len() < 2 || (m.contains_key("d/e/c") && (m.contains_key("a") || m.contains_key("d/b")));
        if m.len() < max_entries || (m.len() == max_entries && slots_ok && m.values().all(|k| core.contains(&k.as_str()))) {
            maps.push(m);
        }
    });
    maps.sort_by_key(|m| m.len());
    let trees = build_trees(&dir, &table, &maps);
    run.cov("trees", maps.len());
    let store = std::sync::Arc::new(
        gix_odb::Store::at_opts(dir.join(".git/objects"), &mut None.into_iter(), gix_odb::store::init::Options::default())
            .unwrap_or_else(|e| vkit::machinery!("gix-odb cannot open fixture: {e}")),
    );

    let stage_us: [AtomicU64; 6] = Default::default(); // stream, tar write+extract, git archive+extract, snapshots, zip write, unzip+snapshot
    let lap = |slot: usize, t: &mut std::time::Instant| {
        stage_us[slot].fetch_add(t.elapsed().as_micros() as u64, Ordering::Relaxed);
        *t = std::time::Instant::now();
    };
    // the real tools tar(1)/unzip(1) are run on: thorough = every tree with <= 1 entry; quick = the empty tree with every
    // extra and each kind once at the deepest slot
    let real_tools = move |c: &Case| -> bool {
        if quick {
            c.tree.is_empty() || (c.tree.len() == 1 && ((c.tree.contains_key("d/e/c") && c.extra == "none") || c.extra == "dir" || c.extra == "gitlink"))
        } else {
            c.tree.len() <= 1
        }
    };
    let git_listings: std::sync::Mutex<HashMap<ObjectId, Listing>> = Default::default();
    let big_streamed = AtomicU64::new(0);
    let with_sub = AtomicU64::new(0);
    run.sub_with(
        "archive",
        Opts::default().chunk(64).watchdog(600.0),
        |emit| {
            for m in &maps {
                // the additional entries are independent of the tree: all of them for trees with <=1 entry, none|file otherwise (quick: file only)
                let extras: &[&str] = match (m.len(), quick) {
                    (0, _) | (1, false) => &["none", "file", "exe", "link", "dir"],
                    (1, true) => &["none", "file", "link"],
                    (_, true) => &["file"],
                    (_, false) => &["none", "file"],
                };
                let mut extras: Vec<&str> = extras.to_vec();
                if m.len() == 1 && (!quick || m.values().any(|k| ["one", "buf+1", "link"].contains(&k.as_str()))) {
                    // entries without content right after an entry WITH content (stale-buffer bugs); thorough: after every kind
                    for e in ["dir", "gitlink"] {
                        if !extras.contains(&e) {
                            extras.push(e);
                        }
                    }
                }
                if m.is_empty() {
                    extras.push("gitlink");
                }
                for e in extras {
                    emit(Case { tree: m.clone(), extra: e.to_string() });
                }
            }
        },
        |c: &Case| -> Verdict {
            let Some(&tree_id) = trees.get(&c.tree) else { vkit::machinery!("case refers to a tree outside the fixture") };
            let odb: gix_odb::HandleArc = store.to_cache_arc();
            // what must come out: every blob/exe/link of the tree, plus the additional entry
            let mut expected: Listing = c
                .tree
                .iter()
                .filter_map(|(p, k)| {
                    let (kind, bytes) = &content[k];
                    (*kind != "sub").then(|| (p.clone(), *kind, bytes.clone()))
                })
                .collect();
            let extra = extra_entry(&c.extra).map(|(_, l)| l);
            expected.extend(extra.clone());
            expected.sort();

            // (1) the stream itself
            let mut t0 = std::time::Instant::now();
            let mut stream = new_stream(&odb, tree_id, &c.extra);
            let mut seen: Listing = Vec::new();
            loop {
                let mut entry = match stream.next_entry() {
                    Ok(Some(e)) => e,
                    Ok(None) => break,
                    Err(e) => return bad("stream-error", e),
                };
                let kind = match entry.mode.kind() {
                    EntryKind::Blob => "file",
                    EntryKind::BlobExecutable => "exe",
                    EntryKind::Link => "link",
                    EntryKind::Tree => "dir",
                    EntryKind::Commit => "sub",
                };
                let path = entry.relative_path().to_string();
                let announced = entry.bytes_remaining();
                let mut buf = Vec::new();
                if let Err(e) = entry.read_to_end(&mut buf) {
                    return bad("stream-read-error", format!("{path}: {e}"));
                }
                if let Some(n) = announced {
                    if n != buf.len() {
                        return bad("stream-length", format!("{path}: announced {n} bytes, delivered {}", buf.len()));
                    }
                }
                if let Some(k) = c.tree.get(&path) {
                    if entry.id.to_string() != table[k].1 {
                        return bad("stream-id", format!("{path}: id {} but the tree has {}", entry.id, table[k].1));
                    }
                }
                seen.push((path, kind, buf));
            }
            seen.sort();
            if seen != expected {
                return bad("stream-entries", format!("stream yielded [{}], expected [{}]", brief(&seen), brief(&expected)));
            }

            lap(0, &mut t0);
            // (2) tar vs git archive
            let scratch = vkit::scratch::Dir::new("c55case");
            let mut tar = Vec::new();
            let mut stream = new_stream(&odb, tree_id, &c.extra);
            if let Err(e) = gix_archive::write_stream(
                &mut stream,
                gix_worktree_stream::Stream::next_entry,
                &mut tar,
                gix_archive::Options { format: gix_archive::Format::Tar, tree_prefix: None, modification_time: 1112911993 },
            ) {
                return bad("tar-error", e);
            }
            // both archives are read by the same independent ustar/GNU header reader (checksums verified) ...
            let (got, got_dirs) = match parse_tar(&tar) {
                Ok(l) => l,
                Err(e) => return bad("tar-unreadable", format!("tar archive does not parse: {e}")),
            };
            // ... and tar(1) itself must accept ours and produce the same files (trees with <= 1 entry, every extra)
            if real_tools(c) {
                let ours_dir = scratch.join("ours");
                std::fs::create_dir_all(&ours_dir).unwrap_or_else(|e| vkit::machinery!("mkdir: {e}"));
                let mut cmd = std::process::Command::new("tar");
                cmd.arg("-xf").arg("-").arg("-C").arg(&ours_dir);
                let o = git::run_cmd(cmd, Some(&tar));
                if !o.ok {
                    return bad("tar-unreadable", format!("tar(1) rejects the archive: {}", o.err_text()));
                }
                let extracted = snapshot_files(&ours_dir);
                if extracted != got {
                    return bad("tar-content", format!("tar(1) extracted [{}], the headers describe [{}]", brief(&extracted), brief(&got)));
                }
                if (c.extra == "dir" || c.extra == "gitlink") && !ours_dir.join("extra-dir").is_dir() {
                    return bad("tar-content", "additional directory entry is missing after extraction");
                }
            }
            lap(1, &mut t0);
            // git archive's answer depends on the tree only: computed once per tree
            let cached = git_listings.lock().unwrap().get(&tree_id).cloned();
            let git_listing = match cached {
                Some(l) => l,
                None => {
                    let git_tar = git::git(&dir, &["archive", "--format=tar", &tree_id.to_string()]);
                    let l = parse_tar(&git_tar).unwrap_or_else(|e| vkit::machinery!("cannot parse git archive output: {e}")).0;
                    git_listings.lock().unwrap().insert(tree_id, l.clone());
                    l
                }
            };
            lap(2, &mut t0);
            let mut want = git_listing;
            want.extend(extra.clone().filter(|e| e.1 != "dir" && e.1 != "sub"));
            want.sort();
            if got != want {
                return bad("tar-content", format!("tar holds [{}], git archive (+extra) gives [{}]", brief(&got), brief(&want)));
            }
            let want_listing: Listing = expected.iter().filter(|e| e.1 != "dir" && e.1 != "sub").cloned().collect();
            if want != want_listing {
                vkit::machinery!("git archive [{}] differs from the tree listing [{}]", brief(&want), brief(&want_listing));
            }
            if (c.extra == "dir" || c.extra == "gitlink") && !got_dirs.iter().any(|d| d == "extra-dir") {
                return bad("tar-content", "additional directory entry is missing in the tar");
            }

            lap(3, &mut t0);
            // (3) zip: written into memory, read by an independent central-directory reader (inflate + CRC check) ...
            let mut zip = std::io::Cursor::new(Vec::new());
            let mut stream = new_stream(&odb, tree_id, &c.extra);
            if let Err(e) = gix_archive::write_stream_seek(
                &mut stream,
                gix_worktree_stream::Stream::next_entry,
                &mut zip,
                gix_archive::Options {
                    format: gix_archive::Format::Zip { compression_level: Some(1) },
                    tree_prefix: None,
                    modification_time: 1112911993,
                },
            ) {
                return bad("zip-error", e);
            }
            let zip = zip.into_inner();
            lap(4, &mut t0);
            let (got, got_dirs) = match parse_zip(&zip) {
                Ok(l) => l,
                Err(e) => return bad("zip-unreadable", format!("zip archive does not parse: {e}")),
            };
            if got != want_listing {
                return bad("zip-content", format!("zip holds [{}], expected [{}]", brief(&got), brief(&want_listing)));
            }
            if (c.extra == "dir" || c.extra == "gitlink") && !got_dirs.iter().any(|d| d == "extra-dir") {
                return bad("zip-content", "additional directory entry is missing in the zip");
            }
            // ... and unzip(1) itself must accept it and produce the same files (trees with <= 1 entry, every extra)
            if real_tools(c) && !expected.is_empty() {
                let zip_path = scratch.join("ours.zip");
                std::fs::write(&zip_path, &zip).unwrap_or_else(|e| vkit::machinery!("write zip: {e}"));
                let zip_dir = scratch.join("zip");
                std::fs::create_dir_all(&zip_dir).unwrap_or_else(|e| vkit::machinery!("mkdir: {e}"));
                let mut cmd = std::process::Command::new("unzip");
                cmd.arg("-q").arg(&zip_path).arg("-d").arg(&zip_dir);
                let o = git::run_cmd(cmd, None);
                if !o.ok {
                    return bad("zip-unreadable", format!("unzip rejects the archive (code {:?}): {} {}", o.code, o.text(), o.err_text()));
                }
                let extracted = snapshot_files(&zip_dir);
                if extracted != got {
                    return bad("zip-content", format!("unzip extracted [{}], the directory describes [{}]", brief(&extracted), brief(&got)));
                }
                if (c.extra == "dir" || c.extra == "gitlink") && !zip_dir.join("extra-dir").is_dir() {
                    return bad("zip-content", "additional directory entry is missing after unzip");
                }
            }

            lap(5, &mut t0);
            if expected.iter().any(|e| e.2.len() >= 65534) {
                big_streamed.fetch_add(1, Ordering::Relaxed);
            }
            let has_sub = c.tree.values().any(|k| k == "sub");
            if has_sub {
                with_sub.fetch_add(1, Ordering::Relaxed);
            }
            let streamed = expected.len() - usize::from(extra.is_some());
            if streamed == 0 {
                return ok_trivial(if c.extra == "none" { "nothing-to-stream" } else { "only-extra" });
            }
            let nested = c.tree.keys().any(|p| p.contains('/'));
            ok(format!(
                "{}-entries{}{}{}",
                streamed,
                if nested { "/nested" } else { "" },
                if has_sub { "/gitlink-skipped" } else { "" },
                if c.extra != "none" { "/+extra" } else { "" }
            ))
        },
    );

    // ---- sub: entries converted by a long-running filter process (chunked "unknown length" stream encoding) ----
    let exe = std::env::current_exe().unwrap_or_else(|e| vkit::machinery!("current_exe: {e}"));
    let filtered_big = AtomicU64::new(0);
    let chunked = AtomicU64::new(0);
    // all cases first: the fixture (one repository with every blob and tree) is built from them; a replay rebuilds it for its case only
    let filter_cases: Vec<FilterCase> = if let Some(c) = run.replay_case::<FilterCase>("filtered") {
        vec![c]
    } else if run.is_replay() {
        Vec::new()
    } else {
        let mut all = Vec::new();
        {
            let mut emit = |c: FilterCase| all.push(c);

            // (a) filtered output sizes around one packet (65516), the stream buffer (65535) and two packets, in 1-2 filtered
            //     entries followed by an optional plain entry
            let sizes: &[usize] = if quick { &[3, 65516, 65517, 65536, 131033] } else { &[2, 3, 65515, 65516, 65517, 65534, 65535, 65536, 131032, 131033] };
            let mut opt: Vec<Option<usize>> = vec![None];
            opt.extend(sizes.iter().map(|n| Some(*n)));
            for f1 in &opt {
                for f2 in &opt {
                    for plain in [false, true] {
                        let mut entries = Vec::new();
                        if let Some(n) = f1 {
                            entries.push(("f1".to_string(), format!("out={n}")));
                        }
                        if let Some(n) = f2 {
                            entries.push(("f2".to_string(), format!("out={n}")));
                        }
                        if plain {
                            entries.push(("z".to_string(), "plain=5".to_string()));
                        }
                        if entries.iter().any(|e| e.0.starts_with('f')) {
                            emit(FilterCase { entries });
                        }
                    }
                }
            }
            // (b) every chunking (composition) of a small payload into packets, followed by a filtered and a plain entry
            for total in 1..=run.pick(5usize, 7) {
                for mask in 0u32..(1 << (total - 1)) {
                    let mut parts = Vec::new();
                    let mut cur = 1;
                    for bit in 0..total - 1 {
                        if mask & (1 << bit) != 0 {
                            parts.push(cur);
                            cur = 1;
                        } else {
                            cur += 1;
                        }
                    }
                    parts.push(cur);
                    let spec = format!("chunks={}", parts.iter().map(|n: &usize| n.to_string()).collect::<Vec<_>>().join(","));
                    emit(FilterCase {
                        entries: vec![("f1".to_string(), spec), ("f2".to_string(), "out=3".to_string()), ("z".to_string(), "plain=5".to_string())],
                    });
                }
            }
        }
        all
    };
    let frepo = vkit::scratch::Dir::new("c55filtered").keep();
    git::init(&frepo);
    let mut blob_of: HashMap<String, String> = HashMap::new(); // spec -> blob id
    let mut tree_of: HashMap<Vec<(String, String)>, ObjectId> = HashMap::new();
    if !filter_cases.is_empty() {
        let blob_dir = vkit::scratch::Dir::new("c55fblobs");
        let mut specs: Vec<&String> = filter_cases.iter().flat_map(|c| c.entries.iter().map(|e| &e.1)).collect();
        specs.sort();
        specs.dedup();
        let mut paths = String::new();
        for (i, spec) in specs.iter().enumerate() {
            let p = blob_dir.join(format!("{i}"));
            std::fs::write(&p, filter_entry("f", spec).0).unwrap_or_else(|e| vkit::machinery!("write blob: {e}"));
            paths.push_str(&format!("{}\n", p.display()));
        }
        let out = git::git_in(&frepo, &["hash-object", "-w", "--no-filters", "--stdin-paths"], paths.as_bytes());
        let ids: Vec<String> = String::from_utf8_lossy(&out).lines().map(str::to_string).collect();
        if ids.len() != specs.len() {
            vkit::machinery!("hash-object returned {} ids for {} blobs", ids.len(), specs.len());
        }
        for (spec, id) in specs.iter().zip(ids) {
            blob_of.insert((*spec).clone(), id);
        }
        let input = filter_cases
            .iter()
            .map(|c| c.entries.iter().map(|(name, spec)| format!("100644 blob {}\t{name}\n", blob_of[spec])).collect::<String>())
            .collect::<Vec<_>>()
            .join("\n");
        let out = git::git_in(&frepo, &["mktree", "--batch"], input.as_bytes());
        let ids: Vec<String> = String::from_utf8_lossy(&out).lines().map(str::to_string).collect();
        if ids.len() != filter_cases.len() {
            vkit::machinery!("mktree --batch returned {} ids for {} trees", ids.len(), filter_cases.len());
        }
        for (c, id) in filter_cases.iter().zip(ids) {
            tree_of.insert(c.entries.clone(), ObjectId::from_hex(id.as_bytes()).unwrap_or_else(|e| vkit::machinery!("mktree id: {e}")));
        }
    }
    let fstore = std::sync::Arc::new(
        gix_odb::Store::at_opts(frepo.join(".git/objects"), &mut None.into_iter(), gix_odb::store::init::Options::default())
            .unwrap_or_else(|e| vkit::machinery!("gix-odb cannot open fixture: {e}")),
    );
    run.sub_with(
        "filtered",
        // a truncated filter response leaves the filter protocol out of sync, which can block both sides for good
        Opts::default().chunk(8).watchdog(120.0),
        |emit| {
            // simplest first: a single filtered entry, then two, ...
            let mut ordered: Vec<&FilterCase> = filter_cases.iter().collect();
            ordered.sort_by_key(|c| c.entries.len());
            for c in ordered {
                emit(c.clone());
            }
        },
        |c: &FilterCase| -> Verdict {
            let Some(&tree_id) = tree_of.get(&c.entries) else { vkit::machinery!("case refers to a tree outside the fixture") };
            let mut expected: Listing = c.entries.iter().map(|(name, s)| (name.clone(), "file", filter_entry(name, s).1)).collect();
            let odb: gix_odb::HandleArc = fstore.to_cache_arc();
            expected.sort();
            let make_stream = || {
                let mut collection = gix_attributes::search::MetadataCollection::default();
                let mut search = gix_attributes::Search::default();
                search.add_patterns_buffer(b"f* filter=vf\n", "<check>".into(), None, &mut collection, true);
                let pipeline = gix_filter::Pipeline::new(
                    Default::default(),
                    gix_filter::pipeline::Options {
                        drivers: vec![gix_filter::Driver {
                            name: "vf".into(),
                            clean: None,
                            smudge: None,
                            process: Some(format!("{} --filter-process", exe.display()).into()),
                            required: true,
                        }],
                        ..Default::default()
                    },
                );
                gix_worktree_stream::from_tree(tree_id, odb.clone(), pipeline, move |path, mode, out| {
                    out.initialize(&collection);
                    search.pattern_matching_relative_path(path, gix_attributes::glob::pattern::Case::Sensitive, Some(mode.is_tree()), out);
                    Ok::<_, std::convert::Infallible>(())
                })
            };
            // (1) the stream
            let mut stream = make_stream();
            let mut seen: Listing = Vec::new();
            let mut unknown_len = 0;
            loop {
                let mut entry = match stream.next_entry() {
                    Ok(Some(e)) => e,
                    Ok(None) => break,
                    Err(e) => return bad("filtered-stream-error", format!("after [{}]: {e}", brief(&seen))),
                };
                let path = entry.relative_path().to_string();
                if entry.bytes_remaining().is_none() {
                    unknown_len += 1;
                }
                let mut buf = Vec::new();
                if let Err(e) = entry.read_to_end(&mut buf) {
                    return bad("filtered-read-error", format!("{path}: {e}"));
                }
                seen.push((path, "file", buf));
            }
            seen.sort();
            if seen != expected {
                let class = if seen.len() == expected.len() && seen.iter().zip(&expected).all(|(a, b)| a.0 == b.0 && b.2.starts_with(&a.2)) {
                    "filtered-truncated"
                } else {
                    "filtered-entries"
                };
                return bad(class, format!("stream yielded [{}], expected [{}]", brief(&seen), brief(&expected)));
            }
            // (2) the same through the tar writer
            let mut tar = Vec::new();
            let mut stream = make_stream();
            if let Err(e) = gix_archive::write_stream(
                &mut stream,
                gix_worktree_stream::Stream::next_entry,
                &mut tar,
                gix_archive::Options { format: gix_archive::Format::Tar, tree_prefix: None, modification_time: 1112911993 },
            ) {
                return bad("filtered-tar-error", e);
            }
            match parse_tar(&tar) {
                Ok((got, _)) if got == expected => {}
                Ok((got, _)) => return bad("filtered-tar-content", format!("tar holds [{}], expected [{}]", brief(&got), brief(&expected))),
                Err(e) => return bad("tar-unreadable", e),
            }
            let filtered = c.entries.iter().filter(|e| e.0.starts_with('f')).count();
            if unknown_len != filtered {
                // not a property violation, but the sub-check would not exercise what it claims to
                vkit::machinery!("{unknown_len} entries of unknown length for {filtered} filtered entries");
            }
            let big = expected.iter().filter(|e| e.0.starts_with('f') && e.2.len() > 65516).count();
            if big > 0 {
                filtered_big.fetch_add(1, Ordering::Relaxed);
            }
            if c.entries.iter().any(|e| e.1.starts_with("chunks=") && e.1.contains(',')) {
                chunked.fetch_add(1, Ordering::Relaxed);
                return ok("filtered/multi-packet-small");
            }
            ok(match big {
                0 => "filtered/single-packet",
                1 => "filtered/one-entry-over-a-packet",
                _ => "filtered/two-entries-over-a-packet",
            })
        },
    );
    run.cov("filtered_cases_with_output_over_one_packet", filtered_big.load(Ordering::Relaxed));
    run.cov("filtered_cases_with_small_multi_packet_output", chunked.load(Ordering::Relaxed));
    run.require("a filtered entry larger than one packet was streamed", filtered_big.load(Ordering::Relaxed) > 0);
    run.require("a small payload delivered in several packets was streamed", chunked.load(Ordering::Relaxed) > 0);
    run.cov(
        "stage_thread_ms[stream,tar,git-archive,compare,zip-write,zip-read]",
        stage_us.iter().map(|a| a.load(Ordering::Relaxed) / 1000).collect::<Vec<_>>(),
    );
    run.cov("cases_with_file_at_buffer_size", big_streamed.load(Ordering::Relaxed));
    run.cov("cases_with_gitlink", with_sub.load(Ordering::Relaxed));
    run.require("files at/over the stream buffer size were streamed", big_streamed.load(Ordering::Relaxed) > 0);
    run.require("trees with a gitlink were streamed", with_sub.load(Ordering::Relaxed) > 0);
}
