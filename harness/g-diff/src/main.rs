mod c44;
mod c45;
mod c55;
use vkit::{Check, Level};
fn main() {
    vkit::main(&[
        Check { id: "C44", level: Level::Exploration, run: c44::run },
        Check { id: "C45", level: Level::Exploration, run: c45::run },
        Check { id: "C55", level: Level::Exploration, run: c55::run },
    ]);
}
