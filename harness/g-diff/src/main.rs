mod c45;
use vkit::{Check, Level};
fn main() {
    vkit::main(&[Check { id: "C45", level: Level::Exploration, run: c45::run }]);
}
