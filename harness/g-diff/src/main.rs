mod c44;
mod c45;
mod c55;
use vkit::{Check, Level};
fn main() {
    // `g-diff --filter-process`: this binary doubles as the long-running filter process used by C55
    if std::env::args().nth(1).as_deref() == Some("--filter-process") {
        if let Err(e) = c55::filter_process() {
            eprintln!("filter process failed: {e}");
            std::process::exit(1);
        }
        return;
    }
    vkit::main(&[
        Check { id: "C44", level: Level::Exploration, run: c44::run },
        Check { id: "C45", level: Level::Exploration, run: c45::run },
        Check { id: "C55", level: Level::Exploration, run: c55::run },
    ]);
}
