//! C44 — tree diffs agree with `git diff-tree -r -t --no-renames` and transform the first tree into the second
//! (E1: all ordered pairs of trees from a bounded family of path maps; git as oracle in `--stdin` batch mode).
use gix_hash::ObjectId;
use gix_object::FindExt;
use serde::{Deserialize, Serialize};
use std::collections::{BTreeMap, BTreeSet, HashMap};
use std::path::{Path, PathBuf};
use std::sync::atomic::{AtomicU64, Ordering};
use vkit::{bad, git, ok, ok_trivial, Opts, Run, Verdict};

/// path -> kind; kinds: f1 f2 (blobs with different content), x1 (executable, content 1), l1 (symlink, content 1), k1 (gitlink)
pub(crate) type Map = BTreeMap<String, String>;

const PATHS: [&str; 7] = ["a", "a/b", "a/b/c", "a/c", "a-b", "a.b", "a0"];
const KINDS_FULL: [&str; 5] = ["f1", "f2", "x1", "l1", "k1"];
const KINDS_SMALL: [&str; 3] = ["f1", "f2", "x1"];
const KINDS_MID: [&str; 4] = ["f1", "f2", "x1", "k1"];

fn compatible(paths: &[&str]) -> bool {
    for a in paths {
        for b in paths {
            if a != b && b.starts_with(&format!("{a}/")) {
                return false;
            }
        }
    }
    true
}

/// every map with `n` entries over PATHS x kinds
fn maps_of_size(n: usize, kinds: &[&str], out: &mut Vec<Map>) {
    vkit::enumerate::subsets(&PATHS, n, n, |ps| {
        if !compatible(ps) {
            return;
        }
        if n == 0 {
            out.push(Map::new());
            return;
        }
        vkit::enumerate::seqs(kinds, n, n, |ks| {
            out.push(ps.iter().zip(ks).map(|(p, k)| (p.to_string(), k.to_string())).collect());
        });
    });
}

struct Fixture {
    dir: PathBuf,
    /// mode/oid per kind
    kinds: HashMap<String, (String, String)>,
    trees: HashMap<Map, ObjectId>,
    store: std::sync::Arc<gix_odb::Store>,
}

/// one directory level: name -> leaf (mode, type, oid) | subdirectory
enum Node {
    Leaf(String),
    Dir(BTreeMap<String, Node>),
}

fn insert(dir: &mut BTreeMap<String, Node>, path: &str, kind: &str) {
    match path.split_once('/') {
        None => {
            dir.insert(path.to_string(), Node::Leaf(kind.to_string()));
        }
        Some((head, rest)) => {
            let e = dir.entry(head.to_string()).or_insert_with(|| Node::Dir(BTreeMap::new()));
            if let Node::Dir(d) = e {
                insert(d, rest, kind);
            } else {
                vkit::machinery!("path map has a file and a directory at {head}");
            }
        }
    }
}

/// Build every path map as a tree, bottom-up with `git mktree --batch` (one call per directory depth).
/// `kinds`: kind name -> ("<mode> <type>", oid).
pub(crate) fn build_trees(dir: &Path, kinds: &HashMap<String, (String, String)>, maps: &[Map]) -> HashMap<Map, ObjectId> {
    let empty = git::git_text(dir, &["mktree"]);
        // spec of a directory = its mktree input, with subdirectories referenced by their own spec (resolved per round)
        let mut cache: HashMap<String, String> = HashMap::new(); // spec -> tree id
        cache.insert(String::new(), empty);
        fn spec(d: &BTreeMap<String, Node>, kinds: &HashMap<String, (String, String)>, cache: &HashMap<String, String>, missing: &mut BTreeSet<String>) -> Option<String> {
            let mut s = String::new();
            let mut complete = true;
            for (name, n) in d {
                match n {
                    Node::Leaf(k) => {
                        let (mt, oid) = &kinds[k];
                        s.push_str(&format!("{mt} {oid}\t{name}\n"));
                    }
                    Node::Dir(sub) => match spec(sub, kinds, cache, missing) {
                        Some(subspec) => match cache.get(&subspec) {
                            Some(id) => s.push_str(&format!("040000 tree {id}\t{name}\n")),
                            None => {
                                missing.insert(subspec);
                                complete = false;
                            }
                        },
                        None => complete = false,
                    },
                }
            }
            complete.then_some(s)
        }
        let roots: Vec<BTreeMap<String, Node>> = maps
            .iter()
            .map(|m| {
                let mut root = BTreeMap::new();
                for (p, k) in m {
                    insert(&mut root, p, k);
                }
                root
            })
            .collect();
        let mut trees = HashMap::new();
        for _round in 0..5 {
            let mut missing = BTreeSet::new();
            let mut pending_roots = Vec::new();
            for (m, root) in maps.iter().zip(&roots) {
                if trees.contains_key(m) {
                    continue;
                }
                if let Some(s) = spec(root, kinds, &cache, &mut missing) {
                    match cache.get(&s) {
                        Some(id) => {
                            trees.insert(m.clone(), ObjectId::from_hex(id.as_bytes()).unwrap_or_else(|e| vkit::machinery!("mktree id: {e}")));
                        }
                        None => {
                            missing.insert(s);
                            pending_roots.push(m);
                        }
                    }
                }
            }
            if missing.is_empty() {
                break;
            }
            let specs: Vec<&String> = missing.iter().collect();
            let input = specs.iter().map(|s| s.as_str()).collect::<Vec<_>>().join("\n");
            let out = git::git_in(dir, &["mktree", "--batch"], input.as_bytes());
            let ids: Vec<String> = String::from_utf8_lossy(&out).lines().map(str::to_string).collect();
            if ids.len() != specs.len() {
                vkit::machinery!("mktree --batch returned {} ids for {} trees", ids.len(), specs.len());
            }
            for (s, id) in specs.into_iter().zip(ids) {
                cache.insert(s.clone(), id);
            }
        }
        if trees.len() != maps.len() {
            vkit::machinery!("built {} trees for {} maps", trees.len(), maps.len());
        }
    trees
}

impl Fixture {
    /// Build every tree bottom-up with `git mktree --batch` (one call per directory depth), then pack the objects.
    fn build(maps: &[Map]) -> Fixture {
        let dir = vkit::scratch::Dir::new("c44").keep();
        git::init(&dir);
        let blob = |content: &[u8]| String::from_utf8_lossy(&git::git_in(&dir, &["hash-object", "-w", "--stdin"], content)).trim().to_string();
        let (o1, o2) = (blob(b"c1\n"), blob(b"c2\n"));
        let empty = git::git_text(&dir, &["mktree"]);
        let k1 = git::git_text(&dir, &["commit-tree", "-m", "k1", &empty]);
        let mut kinds = HashMap::new();
        kinds.insert("f1".to_string(), ("100644 blob".to_string(), o1.clone()));
        kinds.insert("f2".to_string(), ("100644 blob".to_string(), o2));
        kinds.insert("x1".to_string(), ("100755 blob".to_string(), o1.clone()));
        kinds.insert("l1".to_string(), ("120000 blob".to_string(), o1));
        kinds.insert("k1".to_string(), ("160000 commit".to_string(), k1));

        let trees = build_trees(&dir, &kinds, maps);
        // pack everything: loose objects cost git an open+mmap+munmap per tree and pair
        let all = git::git(&dir, &["cat-file", "--batch-all-objects", "--batch-check=%(objectname)"]);
        git::git_in(&dir, &["pack-objects", "-q", ".git/objects/pack/pack"], &all);
        git::git(&dir, &["prune-packed", "-q"]);
        let store = gix_odb::Store::at_opts(dir.join(".git/objects"), &mut None.into_iter(), gix_odb::store::init::Options::default())
            .unwrap_or_else(|e| vkit::machinery!("gix-odb cannot open fixture: {e}"));
        Fixture { dir, kinds, trees, store: std::sync::Arc::new(store) }
    }
}

/// one change in git's raw vocabulary; T (type change) is folded into M
#[derive(Clone, PartialEq, Eq, PartialOrd, Ord, Hash, Debug)]
struct Rec {
    status: char,
    old_mode: String,
    new_mode: String,
    old_oid: String,
    new_oid: String,
    path: String,
}
impl Rec {
    fn show(&self) -> String {
        format!("{} {} {} {:.7} {:.7} {}", self.status, self.old_mode, self.new_mode, self.old_oid, self.new_oid, self.path)
    }
}
fn show(v: &[Rec]) -> String {
    v.iter().map(Rec::show).collect::<Vec<_>>().join(" | ")
}

/// Parse the output of `git diff-tree --stdin -r -t --no-renames --raw -z` for `n` pairs: header `A B\n`, then records.
fn parse_batch(out: &[u8], n: usize) -> Vec<Vec<Rec>> {
    let mut res: Vec<Vec<Rec>> = Vec::with_capacity(n);
    let mut p = 0;
    while p < out.len() {
        if out[p] == b':' {
            let meta_end = p + out[p..].iter().position(|&b| b == 0).unwrap_or_else(|| vkit::machinery!("diff-tree: unterminated record"));
            let path_end = meta_end + 1 + out[meta_end + 1..].iter().position(|&b| b == 0).unwrap_or_else(|| vkit::machinery!("diff-tree: unterminated path"));
            let meta = String::from_utf8_lossy(&out[p + 1..meta_end]).to_string();
            let f: Vec<&str> = meta.split(' ').collect();
            if f.len() != 5 {
                vkit::machinery!("diff-tree: unexpected record {meta:?}");
            }
            let status = match f[4].chars().next() {
                Some('T') => 'M',
                Some(c @ ('A' | 'D' | 'M')) => c,
                _ => vkit::machinery!("diff-tree: unexpected status in {meta:?}"),
            };
            let rec = Rec {
                status,
                old_mode: f[0].into(),
                new_mode: f[1].into(),
                old_oid: f[2].into(),
                new_oid: f[3].into(),
                path: String::from_utf8_lossy(&out[meta_end + 1..path_end]).to_string(),
            };
            match res.last_mut() {
                Some(l) => l.push(rec),
                None => vkit::machinery!("diff-tree: record before header"),
            }
            p = path_end + 1;
        } else {
            // header "<40 hex> <40 hex>\n"
            if out.len() < p + 82 || out[p + 81] != b'\n' {
                vkit::machinery!("diff-tree: unexpected header at {p}: {:?}", String::from_utf8_lossy(&out[p..out.len().min(p + 90)]));
            }
            res.push(Vec::new());
            p += 82;
        }
    }
    if res.len() != n {
        vkit::machinery!("diff-tree: {} answers for {} pairs", res.len(), n);
    }
    for l in &mut res {
        l.sort();
    }
    res
}

fn git_oracle(dir: &Path, pairs: &[(ObjectId, ObjectId)]) -> Vec<Vec<Rec>> {
    let mut input = String::with_capacity(pairs.len() * 82);
    for (a, b) in pairs {
        input.push_str(&format!("{a} {b}\n"));
    }
    let out = git::git_in(dir, &["diff-tree", "--stdin", "-r", "-t", "--no-renames", "--raw", "-z", "--no-abbrev"], input.as_bytes());
    parse_batch(&out, pairs.len())
}

fn mode_str(m: gix_object::tree::EntryMode) -> String {
    format!("{:06o}", m.0)
}

fn gix_changes(odb: &gix_odb::store::Handle<std::sync::Arc<gix_odb::Store>>, a: ObjectId, b: ObjectId) -> Result<Vec<gix_diff::tree::recorder::Change>, String> {
    let (mut b1, mut b2) = (Vec::new(), Vec::new());
    let lhs = odb.find_tree_iter(&a, &mut b1).map_err(|e| format!("find lhs: {e}"))?;
    let rhs = odb.find_tree_iter(&b, &mut b2).map_err(|e| format!("find rhs: {e}"))?;
    let mut rec = gix_diff::tree::Recorder::default();
    gix_diff::tree(lhs, rhs, gix_diff::tree::State::default(), odb, &mut rec).map_err(|e| format!("diff: {e}"))?;
    Ok(rec.records)
}

fn to_recs(changes: &[gix_diff::tree::recorder::Change]) -> Vec<Rec> {
    use gix_diff::tree::recorder::Change::*;
    let null = "0".repeat(40);
    let mut v: Vec<Rec> = changes
        .iter()
        .map(|c| match c {
            Addition { entry_mode, oid, path, .. } => {
                Rec { status: 'A', old_mode: "000000".into(), new_mode: mode_str(*entry_mode), old_oid: null.clone(), new_oid: oid.to_string(), path: path.to_string() }
            }
            Deletion { entry_mode, oid, path, .. } => {
                Rec { status: 'D', old_mode: mode_str(*entry_mode), new_mode: "000000".into(), old_oid: oid.to_string(), new_oid: null.clone(), path: path.to_string() }
            }
            Modification { previous_entry_mode, previous_oid, entry_mode, oid, path } => Rec {
                status: 'M',
                old_mode: mode_str(*previous_entry_mode),
                new_mode: mode_str(*entry_mode),
                old_oid: previous_oid.to_string(),
                new_oid: oid.to_string(),
                path: path.to_string(),
            },
        })
        .collect();
    v.sort();
    v
}


// ---------------- state re-use (histories of diffs on ONE `gix_diff::tree::State`) ----------------

/// In-memory tree store with an optional hidden object (simulates a missing sub-tree -> Error::Find).
struct Mem<'a> {
    objects: &'a HashMap<ObjectId, Vec<u8>>,
    hidden: Option<ObjectId>,
}
impl gix_object::Find for Mem<'_> {
    fn try_find<'b>(&self, id: &gix_hash::oid, buffer: &'b mut Vec<u8>) -> Result<Option<gix_object::Data<'b>>, gix_object::find::Error> {
        if self.hidden.as_deref() == Some(id) {
            return Ok(None);
        }
        Ok(self.objects.get(id).map(|d| {
            buffer.clear();
            buffer.extend_from_slice(d);
            gix_object::Data { kind: gix_object::Kind::Tree, data: buffer }
        }))
    }
}

/// how a diff of a history ends: runs to completion, the delegate cancels at the k-th change (1-based),
/// or the j-th (0-based, sorted by id) sub-tree of the two trees is missing from the object database
#[derive(Serialize, Deserialize, Hash, Clone, Debug, PartialEq, Eq)]
enum Stop {
    Complete,
    CancelAt(usize),
    Missing(usize),
}

#[derive(Serialize, Deserialize, Hash, Clone, Debug)]
struct Step {
    /// path maps written as "path=kind,path=kind"
    a: String,
    b: String,
    stop: Stop,
}

#[derive(Serialize, Deserialize, Hash, Clone, Debug)]
struct History {
    steps: Vec<Step>,
}

fn map_key(m: &Map) -> String {
    m.iter().map(|(p, k)| format!("{p}={k}")).collect::<Vec<_>>().join(",")
}

struct Cancelling {
    inner: gix_diff::tree::Recorder,
    cancel_at: Option<usize>,
    seen: usize,
}
impl gix_diff::tree::Visit for Cancelling {
    fn pop_front_tracked_path_and_set_current(&mut self) {
        self.inner.pop_front_tracked_path_and_set_current()
    }
    fn push_back_tracked_path_component(&mut self, component: &bstr::BStr) {
        self.inner.push_back_tracked_path_component(component)
    }
    fn push_path_component(&mut self, component: &bstr::BStr) {
        self.inner.push_path_component(component)
    }
    fn pop_path_component(&mut self) {
        self.inner.pop_path_component()
    }
    fn visit(&mut self, change: gix_diff::tree::visit::Change) -> gix_diff::tree::visit::Action {
        self.inner.visit(change);
        self.seen += 1;
        if Some(self.seen) == self.cancel_at {
            gix_diff::tree::visit::Action::Cancel
        } else {
            gix_diff::tree::visit::Action::Continue
        }
    }
}

/// all sub-tree ids below the two roots (sorted, distinct)
fn subtrees(objects: &HashMap<ObjectId, Vec<u8>>, roots: [ObjectId; 2]) -> Vec<ObjectId> {
    let mut out = BTreeSet::new();
    let mut todo = roots.to_vec();
    while let Some(id) = todo.pop() {
        let Some(data) = objects.get(&id) else { continue };
        for e in gix_object::TreeRefIter::from_bytes(data).flatten() {
            if e.mode.is_tree() && out.insert(e.oid.to_owned()) {
                todo.push(e.oid.to_owned());
            }
        }
    }
    out.into_iter().collect()
}

/// one diff on `state`: (ordered records, how it ended)
fn run_step(
    objects: &HashMap<ObjectId, Vec<u8>>,
    state: &mut gix_diff::tree::State,
    a: ObjectId,
    b: ObjectId,
    stop: &Stop,
) -> (Vec<Rec>, String) {
    let hidden = match stop {
        Stop::Missing(j) => subtrees(objects, [a, b]).get(*j).copied(),
        _ => None,
    };
    let db = Mem { objects, hidden };
    let (mut b1, mut b2) = (Vec::new(), Vec::new());
    let (Ok(lhs), Ok(rhs)) = (db.find_tree_iter(&a, &mut b1), db.find_tree_iter(&b, &mut b2)) else {
        vkit::machinery!("root tree missing from the in-memory store");
    };
    let mut delegate = Cancelling {
        inner: gix_diff::tree::Recorder::default(),
        cancel_at: match stop {
            Stop::CancelAt(k) => Some(*k),
            _ => None,
        },
        seen: 0,
    };
    let res = gix_diff::tree(lhs, rhs, state, &db, &mut delegate);
    let end = match res {
        Ok(()) => "complete".to_string(),
        Err(gix_diff::tree::Error::Cancelled) => "cancelled".to_string(),
        Err(gix_diff::tree::Error::Find(_)) => "find-error".to_string(),
        Err(e) => format!("error: {e}"),
    };
    // ordered, not sorted: a re-used state must not even change the order
    let recs = delegate.inner.records.iter().map(|c| to_recs(std::slice::from_ref(c)).remove(0)).collect();
    (recs, end)
}

#[derive(Serialize, Deserialize, Hash, Clone, Debug)]
struct Pair {
    a: Map,
    b: Map,
}

pub fn run(run: &'static Run) {
    let quick = run.quick();
    run.rule(format!(
        "trees = path maps over paths {PATHS:?} (no path a directory-prefix of another) with kinds f1/f2 (blobs, two contents), x1 (executable, \
         content 1 = same oid as f1), l1 (symlink, same oid as f1), k1 (gitlink); {}; \
         every ORDERED pair (A,B) of these maps incl. A==B. Oracle per pair: multiset of raw records of `git diff-tree -r -t --no-renames` \
         (T folded into M) == gix-diff Recorder records, and applying gitoxide's non-tree changes to A's path map gives B's. \
         non-trivial = A != B. \
         sub `state-reuse`: histories of 2 or 3 diffs on ONE gix_diff::tree::State; every diff may run to completion, be cancelled by the delegate at \
         every change index, or hit every possible missing sub-tree (Error::Find); trees: family S = maps with <=2 entries over paths a, a/b, a/b/c, a/c, a0 \
         and kinds f1/f2, Q = its maps with <=1 entry, R = 5 of those; length 2: first over SxS with every ending, second complete over QxQ (thorough: all pairs of S with at least one side in Q); \
         length 3: two diffs with every ending + a complete one over RxR (thorough: Q without a0 and a/c). Oracle: each diff's ordered records and outcome == the same diff on a fresh State.",
        if quick {
            "all maps with <=1 entry over all five kinds + all maps with 2 entries over f1/f2/x1"
        } else {
            "all maps with <=2 entries over all five kinds + all maps with 3 entries over f1/f2/x1/k1"
        }
    ));
    run.assume("git 2.39+ `diff-tree --stdin` as oracle; trees built by `git mktree --batch`, objects packed, gitoxide reads them through gix-odb");
    run.assume("order of changes is not compared (git: depth-first path order, gitoxide: breadth-first); tree_with_rewrites is not driven (needs a blob platform), it forwards to the same walk when rewrites are off");
    run.budget_secs(run.pick(35.0, 560.0));

    let mut maps = Vec::new();
    maps_of_size(0, &KINDS_FULL, &mut maps);
    maps_of_size(1, &KINDS_FULL, &mut maps);
    if quick {
        maps_of_size(2, &KINDS_SMALL, &mut maps);
    } else {
        maps_of_size(2, &KINDS_FULL, &mut maps);
        maps_of_size(3, &KINDS_MID, &mut maps);
    }
    run.cov("trees", maps.len());
    let fx = Fixture::build(&maps);

    // ---- oracle table: one `git diff-tree --stdin` process per left-hand tree, 8 in parallel ----
    let n = maps.len();
    let ids: Vec<ObjectId> = maps.iter().map(|m| fx.trees[m]).collect();
    let index: HashMap<&Map, usize> = maps.iter().enumerate().map(|(i, m)| (m, i)).collect();
    let mut table: Vec<u64> = Vec::new();
    if !run.is_replay() {
        table = vec![0u64; n * n];
        let next = std::sync::atomic::AtomicUsize::new(0);
        let rows: Vec<std::sync::Mutex<&mut [u64]>> = table.chunks_mut(n).map(std::sync::Mutex::new).collect();
        std::thread::scope(|s| {
            for _ in 0..run.threads.min(12) {
                s.spawn(|| loop {
                    let i = next.fetch_add(1, Ordering::Relaxed);
                    if i >= n {
                        break;
                    }
                    let pairs: Vec<(ObjectId, ObjectId)> = ids.iter().map(|b| (ids[i], *b)).collect();
                    let answers = match vkit::catch(|| git_oracle(&fx.dir, &pairs)) {
                        Ok(a) => a,
                        Err(m) => {
                            run.machinery_error(format!("oracle batch failed: {m}"));
                            break;
                        }
                    };
                    let mut row = rows[i].lock().unwrap();
                    for (j, a) in answers.iter().enumerate() {
                        row[j] = vkit::hash_of(a);
                    }
                });
            }
        });
    }

    let mode_only = AtomicU64::new(0);
    let type_swaps = AtomicU64::new(0);
    let compared = AtomicU64::new(0);
    run.sub_with(
        "pairs",
        Opts::default().chunk(1 << 14),
        |emit| {
            // simplest first: by total number of entries
            let mut order: Vec<(usize, usize, usize)> = Vec::with_capacity(n * n);
            for (i, a) in maps.iter().enumerate() {
                for (j, b) in maps.iter().enumerate() {
                    order.push((a.len() + b.len(), i, j));
                }
            }
            order.sort();
            for (_, i, j) in order {
                emit(Pair { a: maps[i].clone(), b: maps[j].clone() });
            }
        },
        |c: &Pair| -> Verdict {
            let (Some(&a_id), Some(&b_id)) = (fx.trees.get(&c.a), fx.trees.get(&c.b)) else {
                vkit::machinery!("case refers to a tree outside the fixture");
            };
            // one gix-odb handle per worker thread (a fresh handle per case would re-map the pack index every time)
            thread_local! {
                static ODB: std::cell::RefCell<Option<(usize, gix_odb::store::Handle<std::sync::Arc<gix_odb::Store>>)>> = const { std::cell::RefCell::new(None) };
            }
            let key = std::sync::Arc::as_ptr(&fx.store) as usize;
            let changes = ODB.with(|slot| {
                let mut slot = slot.borrow_mut();
                if slot.as_ref().map(|(k, _)| *k) != Some(key) {
                    *slot = Some((key, fx.store.to_handle_arc()));
                }
                gix_changes(&slot.as_ref().expect("just set").1, a_id, b_id)
            });
            let changes = match changes {
                Ok(c) => c,
                Err(e) => return bad("gix-error", e),
            };
            let ours = to_recs(&changes);
            // (1) same records as git
            let expected_hash = if table.is_empty() { None } else { Some(table[index[&c.a] * n + index[&c.b]]) };
            if expected_hash != Some(vkit::hash_of(&ours)) {
                let theirs = git_oracle(&fx.dir, &[(a_id, b_id)]).pop().unwrap_or_default();
                if theirs != ours {
                    let missing: Vec<Rec> = theirs.iter().filter(|r| !ours.contains(r)).cloned().collect();
                    let extra: Vec<Rec> = ours.iter().filter(|r| !theirs.contains(r)).cloned().collect();
                    let class = if !missing.is_empty() && extra.is_empty() {
                        "change-missing"
                    } else if missing.is_empty() {
                        "change-extra"
                    } else {
                        "change-differs"
                    };
                    return bad(class, format!("git only: [{}]  gitoxide only: [{}]  (git: [{}])", show(&missing), show(&extra), show(&theirs)));
                } else if expected_hash.is_some() {
                    vkit::machinery!("oracle table and single-pair oracle disagree for {:?}", c);
                }
            }
            compared.fetch_add(1, Ordering::Relaxed);
            // (2) applying the non-tree changes to A's leaves yields B's leaves
            let leaf = |m: &Map| -> BTreeMap<String, (String, String)> {
                m.iter()
                    .map(|(p, k)| {
                        let (mt, oid) = &fx.kinds[k];
                        (p.clone(), (mt[..6].to_string(), oid.clone()))
                    })
                    .collect()
            };
            let mut state = leaf(&c.a);
            let target = leaf(&c.b);
            let is_tree = |m: &str| m == "040000";
            for r in ours.iter().filter(|r| r.status == 'D' && !is_tree(&r.old_mode)) {
                if state.remove(&r.path) != Some((r.old_mode.clone(), r.old_oid.clone())) {
                    return bad("apply-delete", format!("deletion {} does not match an entry of the first tree", r.show()));
                }
            }
            for r in ours.iter().filter(|r| r.status == 'M' && !is_tree(&r.old_mode)) {
                if state.get(&r.path) != Some(&(r.old_mode.clone(), r.old_oid.clone())) {
                    return bad("apply-modify", format!("modification {} does not match an entry of the first tree", r.show()));
                }
                state.insert(r.path.clone(), (r.new_mode.clone(), r.new_oid.clone()));
            }
            for r in ours.iter().filter(|r| r.status == 'A' && !is_tree(&r.new_mode)) {
                if state.insert(r.path.clone(), (r.new_mode.clone(), r.new_oid.clone())).is_some() {
                    return bad("apply-add", format!("addition {} hits an existing entry", r.show()));
                }
            }
            if state != target {
                return bad("apply-result", format!("applying [{}] to the first tree gives {:?}, expected {:?}", show(&ours), state, target));
            }
            if c.a == c.b {
                return if ours.is_empty() { ok_trivial("identical") } else { bad("change-extra", format!("changes for identical trees: [{}]", show(&ours))) };
            }
            let has_mode_only = ours.iter().any(|r| r.status == 'M' && r.old_oid == r.new_oid);
            let has_swap = ours.iter().any(|r| r.status == 'D' && ours.iter().any(|s| s.status == 'A' && s.path == r.path));
            if has_mode_only {
                mode_only.fetch_add(1, Ordering::Relaxed);
            }
            if has_swap {
                type_swaps.fetch_add(1, Ordering::Relaxed);
            }
            let (a, d, m) = (
                ours.iter().any(|r| r.status == 'A'),
                ours.iter().any(|r| r.status == 'D'),
                ours.iter().any(|r| r.status == 'M'),
            );
            ok(format!(
                "{}{}{}{}{}",
                if a { "A" } else { "-" },
                if d { "D" } else { "-" },
                if m { "M" } else { "-" },
                if has_swap { "+file<->dir" } else { "" },
                if has_mode_only { "+mode-only" } else { "" }
            ))
        },
    );

    // ---- sub: histories of 2-3 diffs on ONE re-used State; earlier diffs may end early at every possible point ----
    // family S: <=2 entries over paths with nested directories and kinds f1/f2; Q: its maps with <=1 entry; R: five maps
    let reuse_paths = ["a", "a/b", "a/b/c", "a/c", "a0"];
    let in_family = |m: &Map| m.len() <= 2 && m.iter().all(|(p, k)| reuse_paths.contains(&p.as_str()) && (k == "f1" || k == "f2"));
    let fam_s: Vec<&Map> = maps.iter().filter(|m| in_family(m)).collect();
    let fam_q: Vec<&Map> = fam_s.iter().copied().filter(|m| m.len() <= 1).collect();
    let fam_r: Vec<&Map> = fam_q
        .iter()
        .copied()
        .filter(|m| m.is_empty() || m.values().all(|k| k == "f1") || m.contains_key("a/b"))
        .filter(|m| !m.contains_key("a0") && !m.contains_key("a/c"))
        .collect();
    run.cov("state_reuse_families[S,Q,R]", [fam_s.len(), fam_q.len(), fam_r.len()]);
    let by_key: HashMap<String, ObjectId> = fam_s.iter().map(|m| (map_key(m), fx.trees[*m])).collect();
    // all trees of the family in memory (read through gix-odb once)
    let mut objects: HashMap<ObjectId, Vec<u8>> = HashMap::new();
    {
        let odb = fx.store.to_handle_arc();
        let mut todo: Vec<ObjectId> = by_key.values().copied().collect();
        let mut buf = Vec::new();
        while let Some(id) = todo.pop() {
            if objects.contains_key(&id) {
                continue;
            }
            let data = match odb.find_tree_iter(&id, &mut buf) {
                Ok(_) => buf.clone(),
                Err(e) => vkit::machinery!("fixture tree {id} unreadable: {e}"),
            };
            for e in gix_object::TreeRefIter::from_bytes(&data).flatten() {
                if e.mode.is_tree() {
                    todo.push(e.oid.to_owned());
                }
            }
            objects.insert(id, data);
        }
    }
    // every way a diff of (a, b) can end
    let stops_of = |a: &Map, b: &Map| -> Vec<Stop> {
        let (ia, ib) = (fx.trees[a], fx.trees[b]);
        let (recs, _) = run_step(&objects, &mut gix_diff::tree::State::default(), ia, ib, &Stop::Complete);
        let mut v = vec![Stop::Complete];
        v.extend((1..=recs.len()).map(Stop::CancelAt));
        v.extend((0..subtrees(&objects, [ia, ib]).len()).map(Stop::Missing));
        v
    };
    let early_with_queue = AtomicU64::new(0);
    let reuse_diffs = AtomicU64::new(0);
    run.sub_with(
        "state-reuse",
        Opts::default().chunk(1 << 14),
        |emit| {
            let steps_over = |fam: &[&Map]| -> Vec<Step> {
                let mut v = Vec::new();
                for a in fam {
                    for b in fam {
                        for stop in stops_of(a, b) {
                            v.push(Step { a: map_key(a), b: map_key(b), stop });
                        }
                    }
                }
                v
            };
            let complete_over = |fam: &[&Map]| -> Vec<Step> {
                let mut v = Vec::new();
                for a in fam {
                    for b in fam {
                        v.push(Step { a: map_key(a), b: map_key(b), stop: Stop::Complete });
                    }
                }
                v
            };
            // length 2: first over S (every ending), second complete over QxQ (quick) / SxQ + QxS (thorough)
            let first = steps_over(&fam_s);
            let mut second = complete_over(&fam_q);
            if !quick {
                // thorough: all pairs with at least one side in Q
                for a in &fam_s {
                    for b in &fam_s {
                        if (a.len() <= 1) != (b.len() <= 1) {
                            second.push(Step { a: map_key(a), b: map_key(b), stop: Stop::Complete });
                        }
                    }
                }
            }
            for f in &first {
                for s in &second {
                    emit(History { steps: vec![f.clone(), s.clone()] });
                }
            }
            // length 3: first and second with every ending, third complete; over R (quick) / Q' = Q without a0 and a/c (thorough)
            let fam3: Vec<&Map> = if quick { fam_r.clone() } else { fam_q.iter().copied().filter(|m| !m.contains_key("a0") && !m.contains_key("a/c")).collect() };
            let early = steps_over(&fam3);
            let last = complete_over(&fam3);
            for f in &early {
                for s in &early {
                    for l in &last {
                        emit(History { steps: vec![f.clone(), s.clone(), l.clone()] });
                    }
                }
            }
        },
        |h: &History| -> Verdict {
            let mut state = gix_diff::tree::State::default();
            let mut nontrivial = false;
            let mut class = String::new();
            for (i, step) in h.steps.iter().enumerate() {
                let (Some(&a), Some(&b)) = (by_key.get(&step.a), by_key.get(&step.b)) else {
                    vkit::machinery!("history refers to a tree outside the fixture");
                };
                let reused = run_step(&objects, &mut state, a, b, &step.stop);
                let fresh = run_step(&objects, &mut gix_diff::tree::State::default(), a, b, &step.stop);
                reuse_diffs.fetch_add(1, Ordering::Relaxed);
                if reused != fresh {
                    return bad(
                        "state-reuse",
                        format!(
                            "diff #{} ({} -> {}, {:?}) on the re-used State: [{}] ends {}; on a fresh State: [{}] ends {}",
                            i + 1,
                            step.a,
                            step.b,
                            step.stop,
                            show(&reused.0),
                            reused.1,
                            show(&fresh.0),
                            fresh.1
                        ),
                    );
                }
                if i + 1 < h.steps.len() && fresh.1 != "complete" {
                    // did it end while sub-trees were still scheduled? (a later change exists in the complete run)
                    let full = run_step(&objects, &mut gix_diff::tree::State::default(), a, b, &Stop::Complete).0;
                    if full.len() > fresh.0.len() && full.iter().any(|r| r.path.contains('/')) {
                        nontrivial = true;
                    }
                }
                class.push_str(match fresh.1.as_str() {
                    "complete" => "C",
                    "cancelled" => "X",
                    "find-error" => "F",
                    _ => "E",
                });
            }
            if nontrivial {
                early_with_queue.fetch_add(1, Ordering::Relaxed);
                ok(format!("reuse/{class}"))
            } else {
                ok_trivial(format!("reuse/{class}/no-pending-subtree"))
            }
        },
    );
    run.cov("state_reuse_diffs_compared_with_fresh_state", reuse_diffs.load(Ordering::Relaxed));
    run.cov("histories_with_early_end_while_subtrees_pending", early_with_queue.load(Ordering::Relaxed));
    run.require("a history ended a diff early while sub-trees were pending", early_with_queue.load(Ordering::Relaxed) > 0);
    run.cov("pairs_compared_with_git", compared.load(Ordering::Relaxed));
    run.cov("pairs_with_mode_only_change", mode_only.load(Ordering::Relaxed));
    run.cov("pairs_with_file_dir_swap", type_swaps.load(Ordering::Relaxed));
    run.require("a mode-only change (same oid, different mode) was compared", mode_only.load(Ordering::Relaxed) > 0);
    run.require("a file<->directory swap at one path was compared", type_swaps.load(Ordering::Relaxed) > 0);
}
