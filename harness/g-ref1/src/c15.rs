//! C15 — reference names are validated like `git check-ref-format`; sanitizing always yields a valid name.
//! E1: every concatenation of <= N tokens over a 16-token alphabet, plus every byte value in five contexts.
//!
//! Oracle layers:
//!  * `model`: git 2.39 `refs.c:check_or_sanitize_refname` + `check_refname_component` transcribed (used for every string);
//!  * the git binary (`git check-ref-format [--allow-onelevel]`, `git update-ref --stdin -z` for the one-level rule and for names
//!    starting with '-', which the check-ref-format command line cannot take) on every string of a smaller bound; there gitoxide is
//!    compared with git directly and the transcription is compared with git too (a difference is a machinery error, not a verdict).
use bstr::{BString, ByteSlice};
use serde::{Deserialize, Serialize};
use std::ffi::OsStr;
use std::os::unix::ffi::OsStrExt;
use std::path::Path;
use vkit::{bad, enumerate, ok, ok_trivial, Run, Verdict, B};

#[derive(Debug, Clone, Copy, PartialEq, Eq)]
pub enum Why {
    Empty,
    At,
    BadChar,
    DotDot,
    AtBrace,
    Star,
    EmptyComponent,
    StartsDot,
    Lock,
    EndsDot,
    OneLevel,
}
impl Why {
    fn name(self) -> &'static str {
        match self {
            Why::Empty => "empty",
            Why::At => "lone-at",
            Why::BadChar => "bad-char",
            Why::DotDot => "dotdot",
            Why::AtBrace => "at-brace",
            Why::Star => "star",
            Why::EmptyComponent => "empty-component",
            Why::StartsDot => "component-starts-with-dot",
            Why::Lock => "lock-suffix",
            Why::EndsDot => "ends-with-dot",
            Why::OneLevel => "one-level",
        }
    }
}

/// refs.c: refname_disposition
fn disp(b: u8) -> u8 {
    match b {
        0 | b'/' => 1,
        b'.' => 2,
        b'{' => 3,
        1..=0x20 | b':' | b'?' | b'[' | b'\\' | b'^' | b'~' | 0x7f => 4,
        b'*' => 5,
        _ => 0,
    }
}

/// refs.c: check_refname_component (no REFNAME_REFSPEC_PATTERN, no sanitizing). Ok(len) may be 0.
fn component(s: &[u8], start: usize) -> Result<usize, (Why, usize)> {
    let mut last = 0u8;
    let mut i = start;
    loop {
        let ch = if i < s.len() { s[i] } else { 0 };
        match disp(ch) {
            1 => break,
            2 if last == b'.' => return Err((Why::DotDot, i)),
            3 if last == b'@' => return Err((Why::AtBrace, i)),
            4 => return Err((Why::BadChar, i)),
            5 => return Err((Why::Star, i)),
            _ => {}
        }
        last = ch;
        i += 1;
    }
    let len = i - start;
    if len == 0 {
        return Ok(0);
    }
    if s[start] == b'.' {
        return Err((Why::StartsDot, start));
    }
    if len >= 5 && &s[i - 5..i] == b".lock" {
        return Err((Why::Lock, i - 1));
    }
    Ok(len)
}

/// refs.c: check_refname_format(refname, allow_onelevel ? REFNAME_ALLOW_ONELEVEL : 0) for NUL-free `s`.
/// Err carries the reason and the byte position at which git's loop decides.
pub fn model(s: &[u8], allow_onelevel: bool) -> Result<(), (Why, usize)> {
    if s == b"@" {
        return Err((Why::At, 0));
    }
    let mut pos = 0;
    let mut count = 0;
    let mut len;
    loop {
        len = component(s, pos)?;
        if len == 0 {
            return Err((if s.is_empty() { Why::Empty } else { Why::EmptyComponent }, pos));
        }
        count += 1;
        if pos + len >= s.len() {
            break;
        }
        pos += len + 1;
    }
    if s[pos + len - 1] == b'.' {
        return Err((Why::EndsDot, s.len() - 1));
    }
    if !allow_onelevel && count < 2 {
        return Err((Why::OneLevel, s.len() - 1));
    }
    Ok(())
}

/// refs.c: refname_is_safe for a one-level name = "git's one-level rule" (what update-ref/delete enforce).
fn onelevel_safe(s: &[u8]) -> bool {
    s.iter().all(|b| b.is_ascii_uppercase() || *b == b'_')
}

/// what gitoxide's `reference::name` has to answer according to the model
fn model_full(s: &[u8]) -> bool {
    if s.contains(&b'/') {
        model(s, false).is_ok()
    } else {
        model(s, true).is_ok() && onelevel_safe(s)
    }
}

#[derive(Serialize, Deserialize, Hash, Clone, Debug)]
struct Case {
    s: B,
    /// 0 = transcribed model only, 1 = also ask the git binary
    git: u8,
}

struct GitAnswers {
    partial: bool,
    full_flagless: bool,
    /// for one-level, format-valid names: does git's refname_is_safe accept it
    onelevel_safe: Option<bool>,
}

fn check_ref_format(repo: &Path, s: &[u8], allow_onelevel: bool) -> bool {
    let mut args: Vec<&OsStr> = vec![OsStr::new("check-ref-format")];
    if allow_onelevel {
        args.push(OsStr::new("--allow-onelevel"));
    }
    args.push(OsStr::from_bytes(s));
    let out = vkit::git::try_git(repo, &args);
    match out.code {
        Some(0) => true,
        Some(1) => false,
        c => vkit::machinery!("git check-ref-format {:?}: unexpected exit {:?}: {}", s.as_bstr(), c, out.err_text()),
    }
}

/// (format valid under REFNAME_ALLOW_ONELEVEL, refname_is_safe) from `git update-ref --stdin -z` with `delete <name>`.
fn update_ref_probe(repo: &Path, s: &[u8]) -> (bool, bool) {
    let mut stdin = b"delete ".to_vec();
    stdin.extend_from_slice(s);
    stdin.extend_from_slice(b"\0\0");
    let out = vkit::git::try_git_in(repo, &["update-ref", "--stdin", "-z"], &stdin);
    let err = out.err_text();
    if err.contains("invalid ref format") {
        (false, false)
    } else if err.contains("refusing to update ref with bad name") {
        (true, false)
    } else if out.ok || err.contains("unable to resolve reference") || err.contains("cannot lock ref") {
        (true, true)
    } else {
        vkit::machinery!("git update-ref probe for {:?}: unexpected answer {:?}: {}", s.as_bstr(), out.code, err)
    }
}

fn ask_git(repo: &Path, s: &[u8]) -> GitAnswers {
    let (partial, full_flagless) = if s.first() == Some(&b'-') {
        // `git check-ref-format -x` is a usage error; update-ref's parser runs check_refname_format(ALLOW_ONELEVEL) on it
        let (fmt, _) = update_ref_probe(repo, s);
        (fmt, fmt && s.contains(&b'/'))
    } else {
        (check_ref_format(repo, s, true), check_ref_format(repo, s, false))
    };
    let onelevel_safe = (partial && !s.contains(&b'/')).then(|| update_ref_probe(repo, s).1);
    GitAnswers { partial, full_flagless, onelevel_safe }
}

fn eval(repo: &Path, c: &Case) -> Verdict {
    let s: &[u8] = &c.s;
    let b = s.as_bstr();
    let m_partial = model(s, true);
    let m_flagless = model(s, false).is_ok();
    let mut want_partial = m_partial.is_ok();
    let mut want_full = model_full(s);
    let onelevel = !s.contains(&b'/');

    if c.git != 0 {
        let g = ask_git(repo, s);
        if g.partial != m_partial.is_ok() || g.full_flagless != m_flagless {
            vkit::machinery!(
                "transcribed model disagrees with git for {:?}: git partial={} flagless={}, model partial={} flagless={}",
                b, g.partial, g.full_flagless, m_partial.is_ok(), m_flagless
            );
        }
        if let Some(safe) = g.onelevel_safe {
            if safe != onelevel_safe(s) {
                vkit::machinery!("transcribed one-level rule disagrees with git update-ref for {:?}: git safe={safe}", b);
            }
        }
        // git is the authority for these strings
        want_partial = g.partial;
        want_full = if onelevel { g.partial && g.onelevel_safe == Some(true) } else { g.full_flagless };
    }

    // --- validation ---
    let got_partial = gix_validate::reference::name_partial(b);
    let got_full = gix_validate::reference::name(b);
    if got_partial.is_ok() != want_partial {
        return bad(
            if want_partial {
                "partial-rejected"
            } else if s == b"@" {
                "lone-at-accepted"
            } else {
                "partial-accepted"
            },
            format!("name_partial({:?}) = {:?} but git check-ref-format --allow-onelevel says {}", b, got_partial.map(|_| ()), verdict_text(want_partial, &m_partial)),
        );
    }
    if got_full.is_ok() != want_full {
        return bad(
            if want_full { "full-rejected" } else { "full-accepted" },
            format!(
                "name({:?}) = {:?} but git says {} ({})",
                b,
                got_full.map(|_| ()),
                if want_full { "valid" } else { "invalid" },
                if onelevel { "one-level: format-valid and refname_is_safe" } else { "git check-ref-format" }
            ),
        );
    }
    if let Ok(v) = got_partial {
        if v != b {
            return bad("validate-changed-value", format!("name_partial({:?}) returned {:?}", b, v));
        }
    }
    // the typed wrappers in gix-ref decide the same way and keep the bytes
    let full_typed = gix_ref::FullName::try_from(b);
    let partial_typed = <&gix_ref::PartialNameRef>::try_from(b);
    if full_typed.is_ok() != want_full || partial_typed.is_ok() != want_partial {
        return bad("typed-name-differs", format!("FullName/PartialNameRef::try_from({:?}) = {}/{}", b, full_typed.is_ok(), partial_typed.is_ok()));
    }
    if let Ok(f) = &full_typed {
        if f.as_bstr() != b {
            return bad("typed-name-differs", format!("FullName::try_from({:?}) holds {:?}", b, f.as_bstr()));
        }
    }

    // --- sanitizing: always succeeds, result passes validation (ours, the model's and, for git-tier strings, git's) ---
    let out: BString = gix_validate::reference::name_partial_or_sanitize(b);
    if let Err(e) = gix_validate::reference::name_partial(out.as_bstr()) {
        return bad("sanitized-invalid", format!("name_partial_or_sanitize({:?}) = {:?} which name_partial rejects: {e}", b, out));
    }
    if let Err((why, at)) = model(&out, true) {
        return bad(if out.as_slice() == b"@" { "sanitized-to-lone-at" } else { "sanitized-invalid-for-git" }, format!("name_partial_or_sanitize({:?}) = {:?} which git rejects ({} at byte {at})", b, out, why.name()));
    }
    if c.git != 0 && out.as_slice() != s {
        let g = if out.first() == Some(&b'-') { update_ref_probe(repo, &out).0 } else { check_ref_format(repo, &out, true) };
        if !g {
            return bad("sanitized-invalid-for-git", format!("name_partial_or_sanitize({:?}) = {:?} which git check-ref-format --allow-onelevel rejects", b, out));
        }
    }
    let san = if out.as_slice() == s { "kept" } else { "rewritten" };
    if want_partial && out.as_slice() != s {
        // not demanded by the property, but worth seeing in the outcome table
        return ok(format!("valid/sanitizer-rewrote-valid-name"));
    }

    // --- classification ---
    match m_partial {
        Ok(()) => {
            let class = if !onelevel {
                "valid/multi-level"
            } else if want_full {
                "valid/one-level-uppercase"
            } else {
                "valid/one-level-partial-only"
            };
            ok(class)
        }
        Err((why, at)) => {
            let class = format!("invalid/{}/sanitizer-{san}", why.name());
            // trivial: git's loop rejects on the very first byte (or the string is empty)
            if at == 0 {
                ok_trivial(class)
            } else {
                ok(class)
            }
        }
    }
}

fn verdict_text(valid: bool, m: &Result<(), (Why, usize)>) -> String {
    match (valid, m) {
        (true, _) => "valid".into(),
        (false, Err((w, at))) => format!("invalid ({} at byte {at})", w.name()),
        (false, Ok(())) => "invalid".into(),
    }
}

pub const TOKENS: [&[u8]; 16] =
    [b"a", b"A", b"_", b".", b"/", b"@", b"{", b"*", b":", b"~", b"-", b" ", b".lock", b"\x01", b"\x7f", "é".as_bytes()];

fn byte_contexts(b: u8) -> Vec<Vec<u8>> {
    vec![vec![b], vec![b'a', b, b'a'], vec![b'r', b'/', b, b'a'], vec![b'r', b'/', b'a', b], vec![b, b'/', b'a'], vec![b'@', b], vec![b, b]]
}

pub fn run(run: &'static Run) {
    let n_all = run.pick(4, 5);
    run.rule(format!(
        "tokens {{a,A,_,.,/,@,{{,*,:,~,-,SP,.lock,0x01,0x7f,e-acute(0xc3a9)}}: every concatenation of 0..={n_all} tokens against the transcribed git 2.39 \
         check_refname_format; also against the git binary: quick = every string of <= 1 token and every 2-token string over {{a,A,.,/,@,{{,-,.lock}}; thorough = every string of <= 2 tokens, every 3-token string over these 8 tokens and every byte 0x01..0xff alone and as a?a; \
         every byte 0x01..0xff in 7 contexts (alone, a?a, r/?a, r/a?, ?/a, @?, ??) against the transcription; on every string: name, name_partial, FullName/PartialNameRef::try_from, name_partial_or_sanitize. \
         non-trivial = the verdict is not decided by the first byte alone (valid names, or rejection at byte >= 1)"
    ));
    run.assume("git 2.39.5 binary: `check-ref-format --allow-onelevel x` decides name_partial(x); `check-ref-format x` decides name(x) for x containing '/'");
    run.assume(
        "one-level names: git's one-level rule is refs.c:refname_is_safe (all bytes A-Z or '_'), observed through `git update-ref --stdin -z` \
         'delete <name>' (\"refusing to update ref with bad name\"); is_pseudoref_syntax would additionally allow '-', gitoxide documents that it follows refname_is_safe",
    );
    run.assume("names starting with '-' cannot be given to the check-ref-format command line (usage error 129); for them git's verdict is taken from update-ref's parser (check_refname_format with ALLOW_ONELEVEL) and 'flagless valid' = that && contains '/'");
    run.assume("strings are NUL-free (argv cannot carry NUL)");
    run.budget_secs(run.pick(40.0, 600.0));

    let repo = vkit::scratch::Dir::new("c15git");
    vkit::git::init(repo.path());
    let repo_path = repo.path().to_path_buf();

    let rp = repo_path.clone();
    run.sub(
        "tokens",
        |emit| enumerate::strings(&TOKENS, 0, n_all, |s| emit(Case { s: B(s.to_vec()), git: 0 })),
        move |c: &Case| eval(&rp, c),
    );
    let rp = repo_path.clone();
    run.sub(
        "bytes",
        |emit| {
            for b in 1..=255u8 {
                for s in byte_contexts(b) {
                    emit(Case { s: B(s), git: 0 });
                }
            }
        },
        move |c: &Case| eval(&rp, c),
    );

    // git-verified tier (simplest strings first)
    let rp = repo_path.clone();
    // 8 tokens that take part in multi-byte rules ('..', '@{', '/.', '.lock/', leading '-', one-level upper case)
    const CORE: [&[u8]; 8] = [b"a", b"A", b".", b"/", b"@", b"{", b"-", b".lock"];
    run.sub_with(
        "git",
        vkit::Opts::default().chunk(run.pick(1024, 128)),
        |emit| {
            if run.quick() {
                enumerate::strings(&TOKENS, 0, 1, |s| emit(Case { s: B(s.to_vec()), git: 1 }));
                enumerate::strings(&CORE, 2, 2, |s| emit(Case { s: B(s.to_vec()), git: 1 }));
            } else {
                enumerate::strings(&TOKENS, 0, 2, |s| emit(Case { s: B(s.to_vec()), git: 1 }));
                enumerate::strings(&CORE, 3, 3, |s| emit(Case { s: B(s.to_vec()), git: 1 }));
                for b in 1..=255u8 {
                    for s in byte_contexts(b).into_iter().take(2) {
                        emit(Case { s: B(s), git: 1 });
                    }
                }
            }
        },
        move |c: &Case| eval(&rp, c),
    );
    run.cov("oracle_strings_checked_by_git_binary", run.sub_evaluations("git"));

    run.require("valid multi-level names were explored", run.outcome_count("valid/multi-level") > 0);
    run.require("valid one-level uppercase names were explored", run.outcome_count("valid/one-level-uppercase") > 0);
    run.require("one-level names valid only as partial names were explored", run.outcome_count("valid/one-level-partial-only") > 0);
    run.require(
        "rejections of every kind were explored",
        ["bad-char", "dotdot", "at-brace", "star", "empty-component", "component-starts-with-dot", "lock-suffix", "ends-with-dot"]
            .iter()
            .all(|w| run.outcome_count(&format!("invalid/{w}/sanitizer-rewritten")) > 0),
    );
    drop(repo);
}
