//! C18 — reference lookup and iteration match git (E1).
//! Every subset (<= k) of a 14-name universe x placement per ref {loose, packed, both with a stale packed value} is materialised as a
//! git directory; `file::Store::iter().all()/prefixed()` and `try_find` for 30 short/partial/full names are compared with a reference
//! model (byte-sorted map with loose precedence; git's ref_rev_parse_rules) and, for a smaller bound, directly with
//! `git for-each-ref` and `git cat-file --batch-check` (name resolution; every value is a distinct blob id, so the id identifies the ref).
use bstr::{BString, ByteSlice};
use gix_hash::ObjectId;
use serde::{Deserialize, Serialize};
use std::collections::BTreeMap;
use std::path::{Path, PathBuf};
use vkit::{bad, enumerate, ok, ok_trivial, Run, Verdict};

const UNIVERSE: [&str; 14] = [
    "refs/heads/a",
    "refs/heads/a-b",
    "refs/heads/a.b",
    "refs/heads/a/b",
    "refs/heads/a/b-c",
    "refs/heads/a0",
    "refs/heads/b",
    "refs/tags/a",
    "refs/heads/A",
    "refs/remotes/o/a",
    "refs/remotes/a/HEAD",
    "refs/a",
    "refs/heads/a/b/c",
    "refs/remotes/a/b/c",
];

const QUERIES: [&str; 30] = [
    "a", "a-b", "a.b", "a/b", "a/b-c", "a0", "b", "o/a", "o", "c", "heads/a", "heads/a-b", "heads/a/b", "tags/a", "A", "remotes/o/a", "remotes/a", "remotes/a/HEAD",
    "refs/heads/a", "refs/heads/a-b", "refs/heads/a/b", "refs/tags/a", "refs/remotes/o/a", "refs/a", "refs/heads/c", "a/HEAD",
    "a/b/c", "heads/a/b/c", "remotes/a/b/c", "refs/heads/a/b/c",
];

/// whole directories, a prefix that is a directory in some stores and a partial name in others, partial names at two depths
const PREFIXES: [&str; 7] = ["refs/heads", "refs/tags", "refs/remotes", "refs/heads/a", "refs/he", "refs/remotes/a/b", "refs/heads/a/b-"];

#[derive(Serialize, Deserialize, Hash, Clone, Debug)]
struct Case {
    /// (index into the universe, placement: 0 = loose, 1 = packed, 2 = loose + stale packed value)
    refs: Vec<(u8, u8)>,
    git: bool,
}

fn blob_content(idx: u8, kind: u8) -> Vec<u8> {
    format!("c18 {idx} {kind}\n").into_bytes()
}
/// kind 0 = the value the ref must resolve to, kind 1 = stale value in packed-refs shadowed by a loose file
fn value(idx: u8, kind: u8) -> ObjectId {
    gix_object::compute_hash(gix_hash::Kind::Sha1, gix_object::Kind::Blob, &blob_content(idx, kind))
}

fn write(path: &Path, content: &[u8]) {
    if let Some(p) = path.parent() {
        std::fs::create_dir_all(p).unwrap_or_else(|e| vkit::machinery!("mkdir {}: {e}", p.display()));
    }
    std::fs::write(path, content).unwrap_or_else(|e| vkit::machinery!("write {}: {e}", path.display()));
}

fn materialise(dir: &Path, c: &Case, template_objects: &Path) {
    write(&dir.join("HEAD"), b"ref: refs/heads/main\n");
    write(&dir.join("config"), b"[core]\n\trepositoryformatversion = 0\n\tfilemode = true\n\tbare = true\n");
    write(&dir.join("objects/info/alternates"), format!("{}\n", template_objects.display()).as_bytes());
    std::fs::create_dir_all(dir.join("refs/heads")).unwrap_or_else(|e| vkit::machinery!("mkdir refs: {e}"));
    std::fs::create_dir_all(dir.join("refs/tags")).unwrap_or_else(|e| vkit::machinery!("mkdir refs: {e}"));
    let mut packed: Vec<(String, ObjectId)> = Vec::new();
    for &(idx, placement) in &c.refs {
        let name = UNIVERSE[idx as usize];
        if placement == 0 || placement == 2 {
            write(&dir.join(name), format!("{}\n", value(idx, 0)).as_bytes());
        }
        if placement == 1 {
            packed.push((name.to_string(), value(idx, 0)));
        }
        if placement == 2 {
            packed.push((name.to_string(), value(idx, 1)));
        }
    }
    if !packed.is_empty() {
        packed.sort();
        let mut out = b"# pack-refs with: peeled fully-peeled sorted \n".to_vec();
        for (n, v) in packed {
            out.extend_from_slice(format!("{v} {n}\n").as_bytes());
        }
        write(&dir.join("packed-refs"), &out);
    }
}

type Listing = Vec<(BString, ObjectId)>;

/// git's ref_rev_parse_rules (refs.c), first existing wins
fn dwim<'a>(map: &'a BTreeMap<BString, ObjectId>, q: &str) -> Option<(&'a BString, &'a ObjectId)> {
    for rule in ["{}", "refs/{}", "refs/tags/{}", "refs/heads/{}", "refs/remotes/{}", "refs/remotes/{}/HEAD"] {
        let full: BString = rule.replace("{}", q).into();
        if let Some(kv) = map.get_key_value(&full) {
            return Some(kv);
        }
    }
    None
}

/// two loose refs, one below directory D and one a sibling file named D + (byte below '/'): the shape where per-directory
/// file-name order differs from full-name byte order
fn has_dir_vs_sibling_below_slash(c: &Case) -> bool {
    let loose: Vec<&str> = c.refs.iter().filter(|(_, p)| *p != 1).map(|(i, _)| UNIVERSE[*i as usize]).collect();
    loose.iter().any(|under| {
        under.match_indices('/').any(|(pos, _)| {
            let d = &under[..pos];
            loose.iter().any(|sib| sib.len() > d.len() && sib.starts_with(d) && sib.as_bytes()[d.len()] < b'/' && !sib[d.len()..].contains('/'))
        })
    })
}

/// some expansion of `q` by git's lookup rules lies below a name that is a loose ref (a file), so opening it yields ENOTDIR
fn a_rule_candidate_is_below_a_loose_ref(c: &Case, q: &str) -> bool {
    let loose: Vec<&str> = c.refs.iter().filter(|(_, p)| *p != 1).map(|(i, _)| UNIVERSE[*i as usize]).collect();
    ["{}", "refs/{}", "refs/tags/{}", "refs/heads/{}", "refs/remotes/{}", "refs/remotes/{}/HEAD"]
        .iter()
        .any(|rule| {
            let full = rule.replace("{}", q);
            loose.iter().any(|l| full.starts_with(&format!("{l}/")))
        })
}

fn listing_of(it: gix_ref::file::iter::LooseThenPacked<'_, '_>) -> Result<Listing, String> {
    let mut out = Vec::new();
    for r in it {
        match r {
            Ok(r) => match r.target.try_id() {
                Some(id) => out.push((r.name.as_bstr().to_owned(), id.to_owned())),
                None => return Err(format!("{:?} is symbolic", r.name)),
            },
            Err(e) => return Err(format!("{e}")),
        }
    }
    Ok(out)
}

fn compare_listing(what: &str, got: &Listing, want: &Listing, c: &Case) -> Result<(), String> {
    if got == want {
        return Ok(());
    }
    let show = |l: &Listing| l.iter().map(|(n, v)| format!("{n}={}", &v.to_string()[..7])).collect::<Vec<_>>().join(" ");
    let mut sorted = got.clone();
    sorted.sort();
    let has_dups = sorted.windows(2).any(|w| w[0].0 == w[1].0);
    let mut dedup = sorted.clone();
    dedup.dedup();
    let generic = if sorted == *want {
        "iter-order"
    } else if has_dups {
        "iter-duplicate"
    } else if got.len() < want.len() {
        "iter-missing"
    } else {
        "iter-differs"
    };
    // the known shape: every expected (name,value) is present, anything extra is the stale packed value of a ref that is also loose
    let stale: Vec<(BString, ObjectId)> = c.refs.iter().filter(|(_, p)| *p == 2).map(|(i, _)| (UNIVERSE[*i as usize].into(), value(*i, 1))).collect();
    let only_order_and_stale_extras = want.iter().all(|w| got.contains(w)) && got.iter().all(|g| want.contains(g) || stale.contains(g));
    let class = if has_dir_vs_sibling_below_slash(c) && only_order_and_stale_extras { "loose-dir-order" } else { generic };
    Err(format!("{class}: {what}: gitoxide yields [{}], git for-each-ref order is [{}]", show(got), show(want)))
}

fn eval(c: &Case, template_objects: &Path) -> Verdict {
    let dir = vkit::scratch::Dir::new("c18");
    materialise(dir.path(), c, template_objects);

    // reference model
    let mut map: BTreeMap<BString, ObjectId> = BTreeMap::new();
    for &(idx, _) in &c.refs {
        map.insert(UNIVERSE[idx as usize].into(), value(idx, 0));
    }
    let mut want_all: Listing = map.iter().map(|(k, v)| (k.clone(), *v)).collect();
    let mut want_find: Vec<Option<(BString, ObjectId)>> = QUERIES.iter().map(|q| dwim(&map, q).map(|(k, v)| (k.clone(), *v))).collect();

    if c.git {
        let out = vkit::git::try_git(dir.path(), &["for-each-ref", "--format=%(refname) %(objectname)"]);
        if !out.ok {
            vkit::machinery!("git for-each-ref failed: {}", out.err_text());
        }
        let mut git_all: Listing = Vec::new();
        for line in out.stdout.lines() {
            let Some(sp) = line.rfind_byte(b' ') else { vkit::machinery!("unexpected for-each-ref line {:?}", line.as_bstr()) };
            let id = ObjectId::from_hex(&line[sp + 1..]).unwrap_or_else(|e| vkit::machinery!("for-each-ref id: {e}"));
            git_all.push((line[..sp].into(), id));
        }
        if git_all != want_all {
            vkit::machinery!("model disagrees with git for-each-ref for {:?}: git {:?}, model {:?}", c, git_all, want_all);
        }
        want_all = git_all;
        let stdin: Vec<u8> = QUERIES.iter().flat_map(|q| format!("{q}\n").into_bytes()).collect();
        let out = vkit::git::try_git_in(dir.path(), &["cat-file", "--batch-check"], &stdin);
        if !out.ok {
            vkit::machinery!("git cat-file --batch-check failed: {}", out.err_text());
        }
        let lines: Vec<&[u8]> = out.stdout.lines().collect();
        if lines.len() != QUERIES.len() {
            vkit::machinery!("git cat-file --batch-check printed {} lines for {} queries", lines.len(), QUERIES.len());
        }
        for (i, line) in lines.iter().enumerate() {
            let git_id = if line.ends_with(b" missing") {
                None
            } else {
                Some(ObjectId::from_hex(&line[..40.min(line.len())]).unwrap_or_else(|_| vkit::machinery!("cat-file line {:?}", line.as_bstr())))
            };
            let model_id = want_find[i].as_ref().map(|(_, v)| *v);
            if git_id != model_id {
                vkit::machinery!("model disagrees with git name resolution of {:?} in {:?}: git {:?}, model {:?}", QUERIES[i], c, git_id, model_id);
            }
            // the id identifies the ref (all values are distinct), so git's answer selects the expected full name
            want_find[i] = git_id.map(|id| {
                let name = want_all.iter().find(|(_, v)| *v == id).map(|(n, _)| n.clone()).unwrap_or_else(|| vkit::machinery!("git resolved {:?} to an id no ref has", QUERIES[i]));
                (name, id)
            });
        }
    }

    // --- gitoxide ---
    let store = gix_ref::file::Store::at(
        dir.path().to_owned(),
        gix_ref::store::init::Options { write_reflog: gix_ref::store::WriteReflog::Disable, object_hash: gix_hash::Kind::Sha1, precompose_unicode: false, prohibit_windows_device_names: false },
    );
    let platform = match store.iter() {
        Ok(p) => p,
        Err(e) => return bad("iter-open", format!("{e}")),
    };
    let got_all = match platform.all() {
        Ok(it) => match listing_of(it) {
            Ok(l) => l,
            Err(e) => return bad("iter-error", format!("all(): {e}")),
        },
        Err(e) => return bad("iter-error", format!("all(): {e}")),
    };
    let mut failures: Vec<String> = Vec::new();
    if let Err(m) = compare_listing("iter().all()", &got_all, &want_all, c) {
        failures.push(m);
    }
    for p in PREFIXES {
        // documented semantics of prefixed(): a prefix naming an existing (loose) directory means "everything below it" ("refs/heads" == "refs/heads/"),
        // anything else is a plain string prefix of the full name (pinned by gix-ref's own partial-prefix tests)
        let is_dir = dir.path().join(p).is_dir();
        let want: Listing = want_all
            .iter()
            .filter(|(n, _)| if is_dir { n.starts_with(format!("{p}/").as_bytes()) } else { n.starts_with(p.as_bytes()) })
            .cloned()
            .collect();
        let got = match platform.prefixed(Path::new(p)) {
            Ok(it) => match listing_of(it) {
                Ok(l) => l,
                Err(e) => return bad("iter-error", format!("prefixed({p}): {e}")),
            },
            Err(e) => return bad("iter-error", format!("prefixed({p}): {e}")),
        };
        if let Err(m) = compare_listing(&format!("iter().prefixed({p:?})"), &got, &want, c) {
            // a disagreement that only concerns what the prefix selects (not order/duplicates of the selected refs) gets its own class
            let whole_dirs = ["refs/heads", "refs/tags", "refs/remotes"];
            if !whole_dirs.contains(&p) && !m.starts_with("loose-dir-order:") {
                let kind = if is_dir { "prefixed-directory-selection" } else { "prefixed-partial-name-selection" };
                failures.push(format!("{kind}: {}", m.split_once(": ").map_or(m.as_str(), |x| x.1)));
            } else {
                failures.push(m);
            }
        }
    }
    // lookups are reported before iteration problems only if iteration is fine; both are always evaluated
    let mut found = 0;
    let mut via_rule = 0;
    for (q, want) in QUERIES.iter().zip(&want_find) {
        let got = match store.try_find(*q) {
            Ok(r) => r,
            Err(e) => {
                let class = if a_rule_candidate_is_below_a_loose_ref(c, q) { "find-error-parent-is-file" } else { "find-error" };
                failures.push(format!("{class}: try_find({q:?}): {e}; git resolves it to {want:?}"));
                continue;
            }
        };
        let got = match got {
            None => None,
            Some(r) => match r.target.try_id() {
                Some(id) => Some((r.name.as_bstr().to_owned(), id.to_owned())),
                None => return bad("find-symbolic", format!("try_find({q:?}) returned symbolic {:?}", r.name)),
            },
        };
        if got != *want {
            let uppercase = q.bytes().all(|b| b.is_ascii_uppercase() || b == b'_');
            let class = match (&got, want) {
                (None, Some((n, _))) if uppercase && n.starts_with(b"refs/") => "find-missed-uppercase-short-name",
                (None, Some((n, _)))
                    if n.starts_with(b"refs/remotes/")
                        && n.ends_with(b"/HEAD")
                        && n.as_bstr() != q.as_bytes().as_bstr()
                        && !q.ends_with("HEAD")
                        && c.refs.iter().any(|(i, p)| UNIVERSE[*i as usize].as_bytes() == n.as_slice() && *p == 1) =>
                {
                    "find-missed-packed-remote-head"
                }
                (None, Some(_)) => "find-missed",
                (Some(_), None) => "find-unexpected",
                (Some(g), Some(w)) if g.0 != w.0 => "find-other-ref",
                _ => "find-stale-value",
            };
            failures.push(format!("{class}: try_find({q:?}) = {got:?}, git resolves it to {want:?}"));
            continue;
        }
        if let Some((n, _)) = want {
            found += 1;
            if n.as_bstr() != q.as_bytes().as_bstr() {
                via_rule += 1;
            }
        }
    }
    // report a failure of an unknown shape first, so that known shapes cannot hide it
    const KNOWN_SHAPES: [&str; 1] = ["loose-dir-order:"];
    if let Some(m) = failures.iter().find(|m| !KNOWN_SHAPES.iter().any(|k| m.starts_with(k))).or(failures.first()) {
        return Err(m.clone());
    }
    let _ = found;
    if c.refs.is_empty() {
        return ok_trivial("empty-store");
    }
    let loose = c.refs.iter().filter(|(_, p)| *p != 1).count();
    let packed = c.refs.iter().filter(|(_, p)| *p != 0).count();
    let shape = match (loose > 0, packed > 0, c.refs.iter().any(|(_, p)| *p == 2)) {
        (true, false, _) => "loose-only",
        (false, true, _) => "packed-only",
        (_, _, true) => "mixed/stale-packed-shadowed",
        _ => "mixed",
    };
    if c.refs.len() == 1 {
        ok_trivial(format!("{shape}/single-ref"))
    } else {
        ok(format!("{shape}{}", if via_rule > 0 { "/short-names-resolved" } else { "" }))
    }
}

/// `refs/heads/a` cannot coexist with `refs/heads/a/b` in a repository git maintains
fn has_df_conflict(names: &[u8]) -> bool {
    names.iter().any(|a| names.iter().any(|b| a != b && UNIVERSE[*b as usize].starts_with(&format!("{}/", UNIVERSE[*a as usize]))))
}

fn placements(n: usize, choices: &[u8], mut f: impl FnMut(&[u8])) {
    enumerate::seqs(choices, n, n, |p| f(p));
}

pub fn run(run: &'static Run) {
    let k_all = run.pick(3, 4);
    run.rule(format!(
        "universe {UNIVERSE:?}; every subset of <= {k_all} names without directory/file conflicts x placement per ref {{loose, packed, loose + stale packed value}}; \
         observations: iter().all(), iter().prefixed({PREFIXES:?}), try_find for {} short/partial/full names ({QUERIES:?}). \
         oracle: byte-sorted map with loose precedence + git's ref_rev_parse_rules; additionally `git for-each-ref` and `git cat-file --batch-check` on every store of \
         <= 1 refs (all placements) and 2 refs (quick: the two mixed placements loose+packed / packed+loose; thorough: all placements). \
         non-trivial = store holds >= 2 refs",
        QUERIES.len()
    ));
    run.assume("git 2.39.5: for-each-ref prints refs in byte order of the full name with the loose value; prefixed listing is derived from the full listing");
    run.assume("prefixed(p) follows gitoxide's documented semantics, which deliberately differ from `git for-each-ref <p>` for partial names: if <git-dir>/<p> is a directory the result is every ref below it ('refs/heads' == 'refs/heads/', same as git), otherwise p is a plain string prefix of the full name (gix-ref's own tests pin `refs/heads/m` -> refs/heads/main; git would match whole path components only)");
    run.assume("name resolution oracle: every ref value is a distinct blob id, so the id `git cat-file --batch-check <name>` prints identifies the ref git's DWIM rules chose");
    run.assume("ref sets with a directory/file conflict (refs/heads/a next to refs/heads/a/b) are excluded: git never produces them; all values are direct (no symbolic refs)");
    run.budget_secs(run.pick(40.0, 600.0));

    // template object database holding every value as a blob
    let template = vkit::scratch::Dir::new("c18tpl");
    vkit::git::init_bare(template.path());
    {
        let mut paths = Vec::new();
        for idx in 0..UNIVERSE.len() as u8 {
            for kind in 0..2u8 {
                let p = template.path().join(format!("blob-{idx}-{kind}"));
                write(&p, &blob_content(idx, kind));
                paths.extend_from_slice(p.to_string_lossy().as_bytes());
                paths.push(b'\n');
            }
        }
        let out = vkit::git::git_in(template.path(), &["hash-object", "-w", "--stdin-paths"], &paths);
        let ids: Vec<&[u8]> = out.lines().collect();
        let mut i = 0;
        for idx in 0..UNIVERSE.len() as u8 {
            for kind in 0..2u8 {
                if ids.get(i).map(|l| l.as_bstr().to_string()) != Some(value(idx, kind).to_string()) {
                    vkit::machinery!("git hash-object disagrees with compute_hash for blob {idx}/{kind}");
                }
                i += 1;
            }
        }
    }
    let objects: PathBuf = template.path().join("objects");

    let idxs: Vec<u8> = (0..UNIVERSE.len() as u8).collect();
    let quick = run.quick();
    let objects_ref = &objects;

    run.sub_with(
        "model",
        vkit::Opts::default().chunk(2048),
        |emit| {
            for k in 0..=k_all {
                enumerate::subsets(&idxs, k, k, |names| {
                    if has_df_conflict(names) {
                        return;
                    }
                    placements(k, &[0, 1, 2], |p| emit(Case { refs: names.iter().copied().zip(p.iter().copied()).collect(), git: false }));
                });
            }
        },
        |c: &Case| eval(c, objects_ref),
    );

    run.sub_with(
        "git",
        vkit::Opts::default().chunk(64),
        |emit| {
            for k in 0..=2usize {
                enumerate::subsets(&idxs, k, k, |names| {
                    if has_df_conflict(names) {
                        return;
                    }
                    let all: &[u8] = &[0, 1, 2];
                    let two: &[u8] = &[0, 1];
                    let choices = if k <= 1 || (k == 2 && !quick) { all } else { two };
                    placements(k, choices, |p| {
                        // quick: pairs only in the two mixed placements (loose+packed, packed+loose)
                        if quick && k == 2 && p[0] == p[1] {
                            return;
                        }
                        emit(Case { refs: names.iter().copied().zip(p.iter().copied()).collect(), git: true })
                    });
                });
            }
        },
        |c: &Case| eval(c, objects_ref),
    );
    run.cov("oracle_stores_checked_by_git_binary", run.sub_evaluations("git"));

    run.require("mixed stores with shadowed stale packed values were explored", run.outcome_count("mixed/stale-packed-shadowed/short-names-resolved") > 0);
    run.require("loose-only and packed-only stores were explored", run.outcome_count("loose-only/short-names-resolved") > 0 && run.outcome_count("packed-only/short-names-resolved") > 0);
    drop(template);
}
