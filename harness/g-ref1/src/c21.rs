//! C21 — reflogs read back forwards and backwards identically (E1).
//! Every log of 0..=N lines over a small line alphabet x final newline present/absent x EVERY buffer size from
//! (longest line + newline) to file size + 2 is read with `log::iter::reverse` and compared with `log::iter::forward`.
use bstr::{BString, ByteSlice};
use gix_date::{time::Sign, Time};
use gix_hash::ObjectId;
use gix_ref::file::log::iter::{forward, reverse};
use gix_ref::log::Line;
use serde::{Deserialize, Serialize};
use vkit::{bad, enumerate, ok, ok_trivial, Run, Verdict, B};

/// one line = (message kind, signature kind)
#[derive(Serialize, Deserialize, Hash, Clone, Debug, PartialEq)]
struct LineSpec {
    msg: B,
    /// signature variant (different name/e-mail/time lengths move the line boundaries)
    sig: u8,
    /// empty message written the way file::Store appends it (no tab) instead of the way Line::write_to does (tab, nothing)
    no_tab: bool,
}

#[derive(Serialize, Deserialize, Hash, Clone, Debug)]
struct Case {
    lines: Vec<LineSpec>,
    final_newline: bool,
    buf: usize,
}

fn oid(n: usize) -> ObjectId {
    let mut b = [0u8; 20];
    b[0] = n as u8;
    b[1] = (n >> 8) as u8;
    b[19] = (n as u8).wrapping_mul(13).wrapping_add(1);
    ObjectId::from(b)
}

fn signature(kind: u8) -> gix_actor::Signature {
    match kind {
        0 => gix_actor::Signature { name: "n".into(), email: "e".into(), time: Time { seconds: 0, offset: 0, sign: Sign::Plus } },
        1 => gix_actor::Signature {
            name: "A U Thor".into(),
            email: "author@example.com".into(),
            time: Time { seconds: 1112911993, offset: -3600 * 7, sign: Sign::Minus },
        },
        _ => gix_actor::Signature { name: "é ü".into(), email: "".into(), time: Time { seconds: 99999999999, offset: 19800, sign: Sign::Plus } },
    }
}

fn build_line(i: usize, spec: &LineSpec) -> Line {
    Line {
        previous_oid: if i == 0 { ObjectId::null(gix_hash::Kind::Sha1) } else { oid(i) },
        new_oid: oid(i + 1),
        signature: signature(spec.sig),
        message: BString::from(spec.msg.0.clone()),
    }
}

/// Returns (file bytes, the lines, length of the longest line without its newline)
fn build_log(specs: &[LineSpec], final_newline: bool) -> Result<(Vec<u8>, Vec<Line>, usize), String> {
    let mut file = Vec::new();
    let mut lines = Vec::new();
    let mut longest = 0;
    for (i, spec) in specs.iter().enumerate() {
        let line = build_line(i, spec);
        let mut one = Vec::new();
        line.write_to(&mut one).map_err(|e| format!("write_to refused {line:?}: {e}"))?;
        if spec.no_tab && spec.msg.is_empty() {
            // "<sig>\t\n" -> "<sig>\n"
            let n = one.len();
            if one[n - 2] != b'\t' {
                return Err(format!("written line {:?} does not end in TAB LF for an empty message", one.as_bstr()));
            }
            one.remove(n - 2);
        }
        if one.last() != Some(&b'\n') || one[..one.len() - 1].contains(&b'\n') {
            return Err(format!("written line {:?} is not exactly one LF-terminated line", one.as_bstr()));
        }
        longest = longest.max(one.len() - 1);
        file.extend_from_slice(&one);
        lines.push(line);
    }
    if !final_newline && !file.is_empty() {
        file.pop();
    }
    Ok((file, lines, longest))
}

fn eval(c: &Case) -> Verdict {
    let (file, lines, longest) = match build_log(&c.lines, c.final_newline) {
        Ok(v) => v,
        Err(m) => return bad("write", m),
    };
    if c.buf < longest + 1 {
        return ok_trivial("buffer-smaller-than-longest-line(outside domain)");
    }
    // write -> parse identity (forward)
    let mut fwd: Vec<Line> = Vec::new();
    for (i, r) in forward(&file).enumerate() {
        match r {
            Ok(l) => fwd.push(l.to_owned()),
            Err(e) => return bad("forward-parse", format!("line {i} of {:?} does not parse: {e}", file.as_bstr())),
        }
    }
    if fwd != lines {
        return bad("roundtrip", format!("forward() of the written log yields {fwd:?}, written {lines:?}"));
    }
    // reverse with this buffer size
    let mut buf = vec![0u8; c.buf];
    let it = match reverse(std::io::Cursor::new(&file[..]), &mut buf) {
        Ok(it) => it,
        Err(e) => return bad("reverse-init", format!("{e}")),
    };
    let mut rev: Vec<Line> = Vec::new();
    for (i, r) in it.enumerate() {
        if i > lines.len() + 2 {
            return bad("reverse-too-many", format!("reverse() yields more than {} entries for {} lines", i, lines.len()));
        }
        match r {
            Ok(l) => rev.push(l),
            Err(e) => {
                return bad(
                    "reverse-error",
                    format!("entry {i} from the end: {e:?} (buffer {} bytes, longest line {} + LF, file {} bytes)", c.buf, longest, file.len()),
                )
            }
        }
    }
    rev.reverse();
    if rev != fwd {
        return bad(
            "reverse-differs",
            format!("buffer {} bytes, file {} bytes: reverse() read {} entries, forward() {}; reversed reverse = {rev:?}", c.buf, file.len(), rev.len(), fwd.len()),
        );
    }
    if lines.is_empty() {
        return ok_trivial("empty-log");
    }
    let windows = if c.buf >= file.len() { "single-window" } else { "sliding" };
    if lines.len() == 1 {
        ok(format!("one-line/{windows}"))
    } else if c.buf == longest + 1 {
        ok("multi-line/minimal-buffer")
    } else {
        ok(format!("multi-line/{windows}"))
    }
}

fn emit_all_buffers(specs: &[LineSpec], emit: &mut dyn FnMut(Case)) {
    for final_newline in [true, false] {
        let Ok((file, _, longest)) = build_log(specs, final_newline) else {
            emit(Case { lines: specs.to_vec(), final_newline, buf: 1 });
            continue;
        };
        if file.is_empty() && !final_newline {
            continue;
        }
        for buf in (longest + 1)..=(file.len() + 2) {
            emit(Case { lines: specs.to_vec(), final_newline, buf });
        }
    }
}

pub fn run(run: &'static Run) {
    let max_lines = run.pick(3, 4);
    run.rule(format!(
        "line alphabet = message {{'', '' without TAB (as file::Store appends), 'm', 'mm', 40 x 'x', 'a b\\tc'}} x 1 signature (thorough additionally: x 2 signatures of different length for logs of <= 3 lines); \
         every log of 0..={max_lines} lines x final LF present/absent x EVERY buffer size from longest line+1 to file size+2; plus one 50-line log (deterministic \
         message lengths 0..=59) at every buffer size. non-trivial = log has >= 1 line (forward parse == written lines, reverse == reversed forward)"
    ));
    run.assume("'longest line' counts the line feed; for a final line without LF the buffer is still at least that line + 1 (smaller buffers are outside the stated domain)");
    run.assume("messages are free of LF (refused by the writer); messages ending in CR are covered by sub-check cr-message");
    run.budget_secs(run.pick(40.0, 600.0));

    let msgs: [&[u8]; 5] = [b"", b"m", b"mm", b"xxxxxxxxxxxxxxxxxxxxxxxxxxxxxxxxxxxxxxxx", b"a b\tc"];
    let alphabet_for = |sigs: u8| -> Vec<LineSpec> {
        let mut alphabet: Vec<LineSpec> = Vec::new();
        for sig in 0..sigs {
            for m in msgs {
                alphabet.push(LineSpec { msg: B(m.to_vec()), sig, no_tab: false });
            }
            alphabet.push(LineSpec { msg: B(Vec::new()), sig, no_tab: true });
        }
        alphabet
    };
    let alphabet = alphabet_for(1);
    run.sub(
        "all-buffers",
        |emit| {
            enumerate::seqs(&alphabet, 0, max_lines, |specs| emit_all_buffers(specs, emit));
        },
        eval,
    );
    if !run.quick() {
        let alphabet2 = alphabet_for(2);
        run.sub(
            "all-buffers-2sig",
            |emit| {
                enumerate::seqs(&alphabet2, 1, 3, |specs| {
                    if specs.iter().any(|l| l.sig != 0) {
                        emit_all_buffers(specs, emit)
                    }
                });
            },
            eval,
        );
    }

    // the 50-line shape of the quantifier: one log, every buffer size
    run.sub(
        "long-log",
        |emit| {
            for n in [5usize, 17, 50] {
                let filler = enumerate::lcg_bytes(n, 21);
                let specs: Vec<LineSpec> = (0..n)
                    .map(|i| LineSpec { msg: B(vec![b'a' + (i % 26) as u8; (filler[i] % 60) as usize]), sig: (i % 3) as u8, no_tab: filler[i] % 7 == 0 })
                    .collect();
                emit_all_buffers(&specs, emit);
            }
        },
        eval,
    );

    // messages ending in CR: written verbatim by Line::write_to and must read back verbatim in both directions
    run.sub(
        "cr-message",
        |emit| {
            let cr = LineSpec { msg: B(b"m\r".to_vec()), sig: 0, no_tab: false };
            let plain = LineSpec { msg: B(b"m".to_vec()), sig: 0, no_tab: false };
            for specs in [vec![cr.clone()], vec![plain.clone(), cr.clone()], vec![cr.clone(), plain.clone()]] {
                emit_all_buffers(&specs, emit);
            }
        },
        eval,
    );

    run.require("sliding-window reads of multi-line logs were explored", run.outcome_count("multi-line/sliding") > 0);
    run.require("minimal buffers were explored", run.outcome_count("multi-line/minimal-buffer") > 0);
}
