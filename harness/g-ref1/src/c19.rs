//! C19 — packed-refs lookup equals a linear scan (E1).
//! Buffers: every subset of a 7-name universe (sorted header: in sorted order; unsorted header / no header: in every order) x
//! peeled line per record yes/no x LF/CRLF; each buffer is queried for every universe name and for valid neighbouring names.
//! Mutants (every single-byte replacement / deletion / truncation of two base buffers): a lookup may fail or find nothing,
//! but never return a record that the linear scan of the same bytes does not contain.
use bstr::{BStr, BString, ByteSlice};
use gix_ref::packed;
use serde::{Deserialize, Serialize};
use std::sync::atomic::{AtomicU64, Ordering};
use vkit::{bad, enumerate, ok, ok_trivial, Run, Verdict};

/// names chosen around the bytes that sort next to '/': '-' (0x2d) '.' (0x2e) '/' (0x2f) '0' (0x30)
const UNIVERSE: [&str; 7] = ["refs/a", "refs/a-b", "refs/a/b", "refs/a0", "refs/ab", "refs/b", "refs/tags/v.1"];

#[derive(Serialize, Deserialize, Hash, Clone, Debug)]
struct Rec {
    name: String,
    peeled: bool,
}

#[derive(Serialize, Deserialize, Hash, Clone, Debug)]
struct Case {
    /// 0 = "# pack-refs with: peeled fully-peeled sorted", 1 = "# pack-refs with: peeled fully-peeled" (unsorted), 2 = no header
    header: u8,
    crlf: bool,
    records: Vec<Rec>,
}

fn hex_for(name: &str, salt: u8) -> String {
    let h = vkit::hash_of(&(name, salt));
    format!("{:016x}{:016x}{:08x}", h, h.rotate_left(17) ^ 0x5bd1e995, (h >> 13) as u32)
}

fn render(c: &Case) -> Vec<u8> {
    let eol: &[u8] = if c.crlf { b"\r\n" } else { b"\n" };
    let mut out = Vec::new();
    match c.header {
        0 => {
            out.extend_from_slice(b"# pack-refs with: peeled fully-peeled sorted ");
            out.extend_from_slice(eol)
        }
        1 => {
            out.extend_from_slice(b"# pack-refs with: peeled fully-peeled ");
            out.extend_from_slice(eol)
        }
        _ => {}
    }
    for r in &c.records {
        out.extend_from_slice(hex_for(&r.name, 0).as_bytes());
        out.push(b' ');
        out.extend_from_slice(r.name.as_bytes());
        out.extend_from_slice(eol);
        if r.peeled {
            out.push(b'^');
            out.extend_from_slice(hex_for(&r.name, 1).as_bytes());
            out.extend_from_slice(eol);
        }
    }
    out
}

type Triple = (BString, BString, Option<BString>);
fn triple(r: &packed::Reference<'_>) -> Triple {
    (r.name.as_bstr().to_owned(), r.target.to_owned(), r.object.map(ToOwned::to_owned))
}

/// valid full names next to `name` in byte order
fn neighbours(name: &str, out: &mut Vec<BString>) {
    let b = name.as_bytes();
    let mut cands: Vec<Vec<u8>> = Vec::new();
    cands.push(b.to_vec());
    for suffix in [&b"-"[..], b"0", b"/a", b"/0", b"a", b"~x", b"!"] {
        let mut v = b.to_vec();
        v.extend_from_slice(suffix);
        cands.push(v);
    }
    cands.push(b[..b.len() - 1].to_vec());
    for delta in [-1i16, 1] {
        let mut v = b.to_vec();
        let l = v.len() - 1;
        v[l] = (v[l] as i16 + delta) as u8;
        cands.push(v);
    }
    for v in cands {
        if gix_validate::reference::name(v.as_bstr()).is_ok() && v.starts_with(b"refs/") {
            out.push(v.into());
        }
    }
}

fn queries_for(names: impl Iterator<Item = String>) -> Vec<BString> {
    let mut q: Vec<BString> = Vec::new();
    for n in names {
        neighbours(&n, &mut q);
    }
    for extra in ["refs/A", "refs/z", "refs/tags/v.0", "refs/tags/v.2", "refs/tags", "refs/!"] {
        q.push(extra.into());
    }
    q.sort();
    q.dedup();
    q
}

/// Independent, forgiving linear scan of raw packed-refs bytes: every line that looks like `<40..64 hex> <name>` is a record,
/// a directly following `^<hex>` line is its peeled id. Used for mutants, where gitoxide's own iterator may refuse to start.
fn simple_linear(bytes: &[u8]) -> Vec<Triple> {
    let is_hex = |h: &[u8]| (40..=64).contains(&h.len()) && h.iter().all(|b| matches!(b, b'0'..=b'9' | b'a'..=b'f'));
    let mut out: Vec<Triple> = Vec::new();
    let mut prev_was_record = false;
    for line in bytes.split(|b| *b == b'\n') {
        let line = line.strip_suffix(b"\r").unwrap_or(line);
        if let Some(sp) = line.iter().position(|b| *b == b' ') {
            if is_hex(&line[..sp]) {
                out.push((line[sp + 1..].into(), line[..sp].into(), None));
                prev_was_record = true;
                continue;
            }
        }
        if prev_was_record && line.first() == Some(&b'^') && is_hex(&line[1..]) {
            out.last_mut().expect("record before").2 = Some(line[1..].into());
        }
        prev_was_record = false;
    }
    out
}

static LOOKUPS: AtomicU64 = AtomicU64::new(0);

fn eval_wellformed(c: &Case, queries: &[BString]) -> Verdict {
    let bytes = render(c);
    let buf = match packed::Buffer::from_bytes(&bytes) {
        Ok(b) => b,
        Err(e) => return bad("open", format!("well-formed packed-refs {:?} refused: {e}", bytes.as_bstr())),
    };
    // ground truth from the case; the linear iteration must agree with it
    let mut truth: Vec<Triple> = c
        .records
        .iter()
        .map(|r| (r.name.as_str().into(), hex_for(&r.name, 0).into(), r.peeled.then(|| hex_for(&r.name, 1).into())))
        .collect();
    truth.sort();
    let linear: Vec<Triple> = match buf.iter() {
        Ok(it) => {
            let mut v = Vec::new();
            for r in it {
                match r {
                    Ok(r) => v.push(triple(&r)),
                    Err(e) => return bad("iter", format!("linear iteration fails on well-formed content: {e}")),
                }
            }
            v
        }
        Err(e) => return bad("iter", format!("{e}")),
    };
    if linear != truth {
        return bad("iter-differs", format!("iter() yields {linear:?}, content is {truth:?}"));
    }
    let mut found = 0;
    for q in queries {
        LOOKUPS.fetch_add(1, Ordering::Relaxed);
        let want = linear.iter().find(|t| t.0 == *q);
        let got = match buf.try_find(q.as_bstr()) {
            Ok(g) => g.map(|r| triple(&r)),
            Err(e) => return bad("find-error", format!("try_find({q:?}) fails on well-formed content: {e}")),
        };
        if got.as_ref() != want {
            let class = match (&got, want) {
                (Some(_), None) => "found-absent",
                (None, Some(_)) => "missed-present",
                _ => "wrong-record",
            };
            return bad(class, format!("try_find({q:?}) = {got:?}, linear scan = {want:?}; buffer {:?}", bytes.as_bstr()));
        }
        let got2 = buf.find(q.as_bstr()).ok().map(|r| triple(&r));
        if got2.as_ref() != want {
            return bad("find-differs-from-try-find", format!("find({q:?}) = {got2:?}, linear scan = {want:?}"));
        }
        found += usize::from(want.is_some());
    }
    if c.records.is_empty() {
        return ok_trivial("empty");
    }
    let _ = found;
    let shape = match (c.header, c.records.iter().any(|r| r.peeled)) {
        (0, true) => "sorted/peeled",
        (0, false) => "sorted/plain",
        (_, true) => "resorted/peeled",
        (_, false) => "resorted/plain",
    };
    if c.records.len() == 1 {
        ok_trivial(format!("{shape}/single-record"))
    } else {
        ok(format!("{shape}{}", if c.crlf { "/crlf" } else { "/lf" }))
    }
}

#[derive(Serialize, Deserialize, Hash, Clone, Debug)]
struct Mutant {
    base: Case,
    /// byte position in the rendered base
    at: usize,
    /// 0..=255 replace with this byte, 256 = delete the byte, 257 = truncate here, 258 = insert LF before
    op: u16,
}

fn eval_mutant(m: &Mutant, queries: &[BString]) -> Verdict {
    let mut bytes = render(&m.base);
    if m.at >= bytes.len() {
        return ok_trivial("position-outside");
    }
    match m.op {
        0..=255 => {
            if bytes[m.at] == m.op as u8 {
                return ok_trivial("identity");
            }
            bytes[m.at] = m.op as u8
        }
        256 => {
            bytes.remove(m.at);
        }
        257 => bytes.truncate(m.at),
        _ => bytes.insert(m.at, b'\n'),
    }
    let buf = match packed::Buffer::from_bytes(&bytes) {
        Ok(b) => b,
        Err(_) => return ok("mutant/open-refused"),
    };
    let mut linear: Vec<Triple> = Vec::new();
    let mut linear_errors = 0;
    match buf.iter() {
        Ok(it) => {
            for r in it {
                match r {
                    Ok(r) => linear.push(triple(&r)),
                    Err(_) => linear_errors += 1,
                }
            }
        }
        Err(_) => linear_errors += 1,
    }
    let simple = simple_linear(&bytes);
    let (mut hits, mut errs, mut misses) = (0, 0, 0);
    for q in queries {
        LOOKUPS.fetch_add(1, Ordering::Relaxed);
        match buf.try_find(q.as_bstr()) {
            Ok(Some(r)) => {
                let t = triple(&r);
                if t.0 != *q {
                    return bad("mutant-wrong-name", format!("try_find({q:?}) returned the record of {:?}; buffer {:?}", t.0, bytes.as_bstr()));
                }
                if !linear.contains(&t) && !simple.contains(&t) {
                    return bad("mutant-wrong-record", format!("try_find({q:?}) = {t:?} which neither linear scan contains ({linear:?} / {simple:?}); buffer {:?}", bytes.as_bstr()));
                }
                hits += 1;
            }
            Ok(None) => {
                // absent, or present but unreachable because the mutation broke the order/parse: must not be silent when the
                // linear scan is clean, the content is still sorted and the name is there
                let sorted = linear.windows(2).all(|w| w[0].0 < w[1].0);
                if linear_errors == 0 && sorted && linear.iter().any(|t| t.0 == *q) {
                    return bad("mutant-missed-present", format!("try_find({q:?}) = None but a clean, sorted linear scan has it; buffer {:?}", bytes.as_bstr()));
                }
                misses += 1;
            }
            Err(_) => errs += 1,
        }
    }
    let _ = (hits, misses);
    if linear_errors > 0 {
        ok(if errs > 0 { "mutant/unparseable-reported" } else { "mutant/unparseable-not-touched-by-search" })
    } else {
        ok("mutant/still-parseable")
    }
}

pub fn run(run: &'static Run) {
    let max_perm = run.pick(4, 5);
    run.rule(format!(
        "names {UNIVERSE:?}; sorted header: every subset (<=7) in byte order; unsorted header and no header: every ordered selection of <= {max_perm} names; \
         x peeled line per record yes/no x LF/CRLF; queries = every universe name and its valid neighbours (name+'-','0','/a','/0','a','~x','!', last byte +-1, last byte dropped) \
         plus names below/above everything; sorted prefixes (0..=200 records) of a 200-name list with all names + neighbours queried; mutants: every byte of 2 base buffers \
         replaced by each of 12 bytes, deleted, truncated there, LF inserted. non-trivial = >= 2 records (well-formed) or any mutant that still opens"
    ));
    run.assume("record names are distinct (git never writes duplicates); a 'sorted' header is only combined with sorted content");
    run.assume("mutants: Ok(None) and Err are both acceptable answers; what is checked is that a returned record carries the queried name and is one that the linear scan of the same bytes yields (gitoxide's iterator, or where that refuses to start an independent line-by-line scan), and that a present name is not missed when the mutated content is still clean and sorted");
    run.budget_secs(run.pick(40.0, 600.0));

    let queries = queries_for(UNIVERSE.iter().map(|s| s.to_string()));
    let universe: Vec<&str> = UNIVERSE.to_vec();

    run.sub(
        "sorted",
        |emit| {
            enumerate::subsets(&universe, 0, 7, |names| {
                let mut names: Vec<&str> = names.to_vec();
                names.sort();
                for mask in 0..(1u32 << names.len()) {
                    for crlf in [false, true] {
                        emit(Case {
                            header: 0,
                            crlf,
                            records: names.iter().enumerate().map(|(i, n)| Rec { name: n.to_string(), peeled: mask >> i & 1 == 1 }).collect(),
                        });
                    }
                }
            });
        },
        |c: &Case| eval_wellformed(c, &queries),
    );

    run.sub(
        "unsorted",
        |emit| {
            for k in 0..=max_perm {
                enumerate::subsets(&universe, k, k, |names| {
                    enumerate::permutations(names, |order| {
                        for mask in 0..(1u32 << order.len()) {
                            for crlf in [false, true] {
                                for header in [1u8, 2] {
                                    emit(Case {
                                        header,
                                        crlf,
                                        records: order.iter().enumerate().map(|(i, n)| Rec { name: n.to_string(), peeled: mask >> i & 1 == 1 }).collect(),
                                    });
                                }
                            }
                        }
                    });
                });
            }
        },
        |c: &Case| eval_wellformed(c, &queries),
    );

    // the 0..200-record shape of the quantifier
    let mut big: Vec<String> = (0..200usize)
        .map(|i| {
            let dir = ["heads", "tags", "remotes/o", "heads/f"][i % 4];
            let stem = ["a", "a-", "a.", "a/", "a0", "ab", "b"][(i / 4) % 7];
            format!("refs/{dir}/{stem}{}", ["x", "x/y", "x-y", "x0"][(i / 28) % 4]).replace("//", "/") + &format!("{}", i / 112)
        })
        .collect();
    big.sort();
    big.dedup();
    let big_queries = queries_for(big.iter().cloned());
    run.cov("large_list_names", big.len());
    run.sub(
        "large",
        |emit| {
            for n in 0..=big.len() {
                for crlf in [false, true] {
                    emit(Case { header: 0, crlf, records: big[..n].iter().enumerate().map(|(i, name)| Rec { name: name.clone(), peeled: name.contains("/tags/") || i % 5 == 0 }).collect() });
                }
            }
        },
        |c: &Case| eval_wellformed(c, &big_queries),
    );

    // mutants
    let bases: Vec<Case> = [false, true]
        .into_iter()
        .map(|crlf| Case {
            header: 0,
            crlf,
            records: ["refs/a", "refs/a-b", "refs/a/b", "refs/ab", "refs/tags/v.1"].iter().enumerate().map(|(i, n)| Rec { name: n.to_string(), peeled: i == 0 || i == 2 || i == 4 }).collect(),
        })
        .collect();
    let repl: [u8; 12] = [b'\n', b'\r', b' ', b'^', b'#', b'/', b'0', b'g', b'z', b'.', 0x00, 0xff];
    run.sub(
        "mutants",
        |emit| {
            for base in &bases {
                let len = render(base).len();
                for at in 0..len {
                    for r in repl {
                        emit(Mutant { base: base.clone(), at, op: r as u16 });
                    }
                    for op in [256u16, 257, 258] {
                        emit(Mutant { base: base.clone(), at, op });
                    }
                }
            }
        },
        |m: &Mutant| eval_mutant(m, &queries),
    );

    run.cov("lookups_compared_with_linear_scan", LOOKUPS.load(Ordering::Relaxed));
    run.require("unparseable mutants were reported as errors", run.outcome_count("mutant/unparseable-reported") > 0);
    run.require("sorted buffers with peeled lines were explored", run.outcome_count("sorted/peeled/lf") > 0 && run.outcome_count("sorted/peeled/crlf") > 0);
    run.require("re-sorted buffers were explored", run.outcome_count("resorted/peeled/lf") > 0);
    let _: Option<&BStr> = None;
}
