mod c15;
mod c18;
mod c19;
mod c21;
use vkit::{Check, Level};
fn main() {
    let checks: &[Check] = &[
        Check { id: "C15", level: Level::Exploration, run: c15::run },
        Check { id: "C18", level: Level::Exploration, run: c18::run },
        Check { id: "C19", level: Level::Exploration, run: c19::run },
        Check { id: "C21", level: Level::Exploration, run: c21::run },
    ];
    vkit::main(checks);
}
