//! Global allocator wrapper: notices allocation bombs.
//! * a single request >= REFUSE is refused (null) -> the std aborts the process -> the driver attributes the abort to the in-flight case;
//! * the largest request seen is tracked process-wide per "epoch" so an evaluator can flag requests >= FLAG made while it ran
//!   (thread-local for the calling thread, global high-water mark for helper threads spawned by the code under test).
use std::alloc::{GlobalAlloc, Layout, System};
use std::cell::Cell;
use std::sync::atomic::{AtomicUsize, Ordering};

pub const REFUSE: usize = 1 << 30; // 1 GiB in one request: nothing legitimate for inputs of a few KiB
pub const FLAG: usize = 64 << 20; // 64 MiB

thread_local! {
    static MAX_REQ: Cell<usize> = const { Cell::new(0) };
}
pub static GLOBAL_MAX: AtomicUsize = AtomicUsize::new(0);

pub struct Tracking;

#[inline]
fn note(size: usize) {
    if size >= (1 << 20) {
        let _ = MAX_REQ.try_with(|m| {
            if size > m.get() {
                m.set(size)
            }
        });
        GLOBAL_MAX.fetch_max(size, Ordering::Relaxed);
    }
}

unsafe impl GlobalAlloc for Tracking {
    unsafe fn alloc(&self, l: Layout) -> *mut u8 {
        note(l.size());
        if l.size() >= REFUSE {
            return std::ptr::null_mut();
        }
        System.alloc(l)
    }
    unsafe fn alloc_zeroed(&self, l: Layout) -> *mut u8 {
        note(l.size());
        if l.size() >= REFUSE {
            return std::ptr::null_mut();
        }
        System.alloc_zeroed(l)
    }
    unsafe fn dealloc(&self, p: *mut u8, l: Layout) {
        System.dealloc(p, l)
    }
    unsafe fn realloc(&self, p: *mut u8, l: Layout, new_size: usize) -> *mut u8 {
        note(new_size);
        if new_size >= REFUSE {
            return std::ptr::null_mut();
        }
        System.realloc(p, l, new_size)
    }
}

/// reset the calling thread's high-water mark
pub fn reset() {
    MAX_REQ.with(|m| m.set(0));
}
/// largest single request (>= 1 MiB) made by the calling thread since `reset`
pub fn max_request() -> usize {
    MAX_REQ.with(|m| m.get())
}
