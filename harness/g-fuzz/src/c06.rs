//! C06 — untrusted bytes never crash a parser (E1 bounded-exhaustive inputs + structure-aware mutations, watchdog + isolation).
use crate::drivers::{self as d, Ctx, Driver};
use crate::mutate::{self, Mutation};
use crate::seeds::{self, pkt};
use serde::{Deserialize, Serialize};
use std::collections::BTreeMap;
use std::sync::atomic::{AtomicU64, Ordering};
use std::sync::Mutex;
use vkit::{ok, ok_trivial, Run, Verdict, B};

const H: &[u8] = b"4b825dc642cb6eb9a060e54bf8d69288fbee4904";
const SIG: &[u8] = b"a <b> 1 +0000";

/// A block of inputs: `prefix` followed by every concatenation of 0..=tail tokens of the entry point's alphabet.
/// (tail = 0: exactly the one input `prefix`; that form is used for violations so a replay runs one input.)
#[derive(Serialize, Deserialize, Hash, Clone, Debug)]
struct AlphaCase {
    prefix: B,
    tail: usize,
}

/// A block of mutations of one seed: every mutation of `kind` at offsets from..to (all values, or only `value`).
#[derive(Serialize, Deserialize, Hash, Clone, Debug)]
struct MutCase {
    /// `<format>/<name>` of the seed
    seed: String,
    /// the seed itself (the index and other seeds contain stat data / temp paths, so a case carries its seed to stay replayable)
    bytes: B,
    kind: Kind,
    from: usize,
    to: usize,
    value: Option<u32>,
    /// 32-bit fields are placed at offsets that are multiples of this (4 = aligned fields, quick tier; 1 = every offset, thorough tier)
    #[serde(default)]
    u32_step: usize,
}
#[derive(Serialize, Deserialize, Hash, Clone, Copy, Debug, PartialEq, Eq)]
enum Kind {
    Seed,
    Trunc,
    Byte,
    U32,
}

/// How the raw enumerated string is turned into decoder input.
#[derive(Clone, Copy)]
enum Wrap {
    Raw,
    /// one packet line containing the string
    Pkt,
    /// one packet line containing the string, then a flush packet
    PktFlush,
}

struct Ep {
    /// sub-check name
    name: &'static str,
    drive: Driver,
    wrap: Wrap,
    tokens: Vec<Vec<u8>>,
    /// max number of tokens: quick, thorough
    len: (usize, usize),
    /// seed formats whose mutations are fed to this entry point
    formats: &'static [&'static str],
}

fn t(items: &[&[u8]]) -> Vec<Vec<u8>> {
    items.iter().map(|i| i.to_vec()).collect()
}
fn cat(parts: &[&[u8]]) -> Vec<u8> {
    parts.concat()
}

fn entry_points() -> Vec<Ep> {
    let hp = |s: &str| -> Vec<u8> { pkt(s.replace("{H}", std::str::from_utf8(H).unwrap()).as_bytes()) };
    let mut index_entry = vec![0u8; 40];
    index_entry[24..28].copy_from_slice(&0o100644u32.to_be_bytes());
    index_entry.extend_from_slice(&[0x11; 20]);
    index_entry.extend_from_slice(&[0, 1, b'a', 0, 0, 0, 0, 0, 0, 0]); // flags: path len 1; path + padding to 72 bytes
    vec![
        Ep {
            name: "commit",
            drive: d::commit,
            wrap: Wrap::Raw,
            tokens: t(&[b"tree ", b"parent ", b"author ", b"committer ", b"encoding ", b"gpgsig ", H, SIG, b"\n", b" ", b"x", b"-----BEGIN", b"<", b">"]),
            len: (4, 5),
            formats: &["commit"],
        },
        Ep {
            name: "tag",
            drive: d::tag,
            wrap: Wrap::Raw,
            tokens: t(&[b"object ", H, b"\n", b"type ", b"commit", b"tag ", b"v1", b"tagger ", SIG, b"-----BEGIN PGP SIGNATURE-----", b" ", b"x"]),
            len: (4, 6),
            formats: &["tag"],
        },
        Ep {
            name: "tree",
            drive: d::tree,
            wrap: Wrap::Raw,
            tokens: t(&[b"100644 ", b"40000 ", b"120000 ", b"160000 ", b"1", b"0", b" ", b"a", b"\0", &[0x22; 20], b"/"]),
            len: (4, 6),
            formats: &["tree"],
        },
        Ep {
            name: "loose-object",
            drive: d::loose,
            wrap: Wrap::Raw,
            tokens: t(&[b"commit ", b"tree ", b"tag ", b"blob ", b"0", b"1", b"9", b" ", b"\0", b"-", b"x", b"18446744073709551616"]),
            len: (4, 6),
            formats: &["loose", "commit", "tag", "tree"],
        },
        Ep {
            name: "signature",
            drive: d::signature,
            wrap: Wrap::Raw,
            tokens: t(&[b"a", b" ", b"<", b">", b"1", b"0", b"+", b"-", b"\n", "é".as_bytes(), b"99999999999999999999", b"\0"]),
            len: (4, 6),
            formats: &["signature"],
        },
        Ep {
            name: "packed-refs",
            drive: d::packed_refs,
            wrap: Wrap::Raw,
            tokens: t(&[b"# pack-refs with: peeled fully-peeled sorted \n", H, b" ", b"refs/heads/a", b"refs/heads/b", b"\n", b"^", b"#", b"\r", b"x", b"/"]),
            len: (4, 6),
            formats: &["packed-refs"],
        },
        Ep {
            name: "loose-ref",
            drive: d::loose_ref,
            wrap: Wrap::Raw,
            tokens: t(&[b"ref: ", b"refs/heads/a", H, b"\n", b" ", b"\r", b"x", b"..", b"/", b"\0"]),
            len: (5, 6),
            formats: &["loose-ref"],
        },
        Ep {
            name: "reflog",
            drive: d::reflog,
            wrap: Wrap::Raw,
            tokens: t(&[H, b" ", SIG, b"\t", b"msg", b"\n", b"<", b">", b"0", b"\r", b"+"]),
            len: (3, 5),
            formats: &["reflog"],
        },
        Ep {
            name: "ref-name-sanitize",
            drive: d::ref_name,
            wrap: Wrap::Raw,
            tokens: t(&[b"a", b"/", b".", b"..", b"@{", b".lock", b"*", b"\\", b" ", b"\0", b"-", b"A", b"~", "é".as_bytes()]),
            len: (5, 6),
            formats: &[],
        },
        Ep {
            name: "index-file",
            drive: d::index_file,
            wrap: Wrap::Raw,
            tokens: vec![],
            len: (0, 0),
            formats: &["index"],
        },
        Ep {
            name: "index-threaded",
            drive: d::index_threaded,
            wrap: Wrap::Raw,
            tokens: vec![
                b"DIRC".to_vec(),
                vec![0, 0, 0, 2],
                vec![0, 0, 0, 4],
                vec![0, 0, 0, 0],
                vec![0, 0, 0, 1],
                index_entry,
                b"TREE".to_vec(),
                b"EOIE".to_vec(),
                b"UNTR".to_vec(),
                b"link".to_vec(),
                vec![0; 20],
                vec![0xff; 4],
            ],
            len: (3, 5),
            formats: &["index"],
        },
        Ep { name: "commit-graph", drive: d::commit_graph, wrap: Wrap::Raw, tokens: vec![], len: (0, 0), formats: &["commit-graph"] },
        Ep { name: "multi-pack-index", drive: d::midx, wrap: Wrap::Raw, tokens: vec![], len: (0, 0), formats: &["midx"] },
        Ep { name: "pack-idx", drive: d::pack_idx, wrap: Wrap::Raw, tokens: vec![], len: (0, 0), formats: &["pack-idx"] },
        Ep {
            name: "pack-entry-header",
            drive: d::pack_header,
            wrap: Wrap::Raw,
            tokens: t(&[b"PACK", &[0, 0, 0, 2], &[0, 0, 0, 3], &[0, 0, 0, 1], &[0x10], &[0x60], &[0x70], &[0x90], &[0xe0], &[0xff], &[0x7f], &[0x00]]),
            len: (5, 6),
            formats: &["pack-header"],
        },
        Ep {
            name: "ewah",
            drive: d::ewah,
            wrap: Wrap::Raw,
            tokens: t(&[&[0, 0, 0, 0], &[0, 0, 0, 1], &[0, 0, 0, 2], &[0, 0, 0, 3], &[0, 0, 0, 0x40], &[0x7f, 0xff, 0xff, 0xff], &[0xff; 4], &[0x80, 0, 0, 0]]),
            len: (6, 7),
            formats: &["ewah"],
        },
        Ep {
            name: "config",
            drive: d::config,
            wrap: Wrap::Raw,
            tokens: t(&[b"[", b"]", b"\"", b"\\", b"=", b" ", b"\n", b"a", b".", b"#", b";", b"\r", b"\t", b"-", "é".as_bytes(), b"\0"]),
            len: (4, 5),
            formats: &["config", "config-text"],
        },
        Ep {
            name: "attributes",
            drive: d::attributes,
            wrap: Wrap::Raw,
            tokens: t(&[b"a", b"*", b" ", b"\n", b"!", b"-", b"=", b"\"", b"\\", b"[attr]", b"#", b"/", b"\t", b"\r"]),
            len: (4, 5),
            formats: &["attributes"],
        },
        Ep {
            name: "ignore",
            drive: d::ignore,
            wrap: Wrap::Raw,
            tokens: t(&[b"a", b"*", b"**", b"/", b"!", b"#", b"\\", b" ", b"\n", b"[", b"]", b"?", b"\r"]),
            len: (4, 5),
            formats: &["ignore"],
        },
        Ep {
            name: "mailmap",
            drive: d::mailmap,
            wrap: Wrap::Raw,
            tokens: t(&[b"a", b" ", b"<", b">", b"\n", b"#", b"@", b"\r"]),
            len: (5, 7),
            formats: &["mailmap"],
        },
        Ep {
            name: "credentials",
            drive: d::credentials,
            wrap: Wrap::Raw,
            tokens: t(&[b"url", b"=", b"\n", b"a", b"://", b"host", b"protocol", b"path", b"/", b"\0", b"\r", b"@", b":", b"quit"]),
            len: (4, 5),
            formats: &["credentials"],
        },
        Ep {
            name: "url",
            drive: d::url,
            wrap: Wrap::Raw,
            tokens: t(&[b"a", b"/", b":", b"@", b"ssh", b"://", b"file", b"~", b"-", b".", b"[", b"]", b"\\", b"?", b"#", "é".as_bytes(), b"\0", b"%", b"22", b"git"]),
            len: (4, 5),
            formats: &[],
        },
        Ep {
            name: "refspec",
            drive: d::refspec,
            wrap: Wrap::Raw,
            tokens: t(&[b"+", b"^", b":", b"refs/heads/", b"*", b"a", b"/", b"@", b"HEAD", b" ", b"..", b"~", b"\0"]),
            len: (4, 5),
            formats: &[],
        },
        Ep {
            name: "revspec",
            drive: d::revspec,
            wrap: Wrap::Raw,
            tokens: t(&[b"a", b"@", b"{", b"}", b"^", b"~", b":", b"/", b"!", b"-", b"0", b"1", b"..", b"...", b"HEAD", b"commit", b"u", b"yesterday", b"99999999999999999999"]),
            len: (4, 5),
            formats: &[],
        },
        Ep {
            name: "pathspec",
            drive: d::pathspec,
            wrap: Wrap::Raw,
            tokens: t(&[b":", b"(", b")", b"!", b"/", b"top", b"attr:", b"a", b"=", b",", b"*", b"glob", b"icase", b"^", b"\\", b"-", b" "]),
            len: (4, 5),
            formats: &[],
        },
        Ep {
            name: "date",
            drive: d::date,
            wrap: Wrap::Raw,
            tokens: t(&[b"1", b"0", b"9", b" ", b"+", b"-", b":", b"T", b"Z", b"ago", b"week", b"now", b"2022", b"Thu", b"Sep", b".", b"second", b"@", b"99999999999999999999"]),
            len: (4, 5),
            formats: &[],
        },
        Ep {
            name: "quote",
            drive: d::quote,
            wrap: Wrap::Raw,
            tokens: t(&[b"\"", b"\\", b"n", b"1", b"3", b"7", b"8", b"a", b"x", b"\n", "é".as_bytes()]),
            len: (5, 6),
            formats: &[],
        },
        Ep {
            name: "packetline-decode",
            drive: d::pktline_decode,
            wrap: Wrap::Raw,
            tokens: t(&[b"0", b"4", b"5", b"f", b"g", b"\n", &[1], &[2], &[3], b"ERR "]),
            len: (4, 6),
            formats: &["advertisement", "ls-refs", "fetch-v1", "fetch-v2"],
        },
        Ep {
            name: "packetline-reader",
            drive: d::pktline_reader,
            wrap: Wrap::Raw,
            tokens: t(&[b"0", b"4", b"5", b"f", b"g", b"\n", &[1], &[2], &[3], b"ERR "]),
            len: (4, 6),
            formats: &["advertisement", "ls-refs", "fetch-v1", "fetch-v2"],
        },
        Ep {
            name: "ref-advertisement",
            drive: d::advertisement,
            wrap: Wrap::Raw,
            tokens: vec![
                hp("version 1\n"),
                hp("version 2\n"),
                hp("version 3\n"),
                hp("{H} HEAD\0multi_ack symref=HEAD:refs/heads/main agent=git/2\n"),
                hp("{H} refs/heads/main\n"),
                hp("{H} refs/tags/v\n"),
                hp("{H} refs/tags/v^{}\n"),
                hp("shallow {H}\n"),
                hp("agent=x\n"),
                hp("ls-refs=unborn\n"),
                hp("ERR x"),
                b"0000".to_vec(),
                b"0001".to_vec(),
                hp("\0"),
            ],
            len: (4, 5),
            formats: &["advertisement"],
        },
        Ep {
            name: "ref-advertisement-line",
            drive: d::advertisement,
            wrap: Wrap::PktFlush,
            tokens: t(&[H, b" ", b"HEAD", b"refs/heads/a", b"^{}", b"\0", b"symref=", b"HEAD:refs/heads/a", b":", b"\n", b"shallow ", b"version ", b"1", b"2"]),
            len: (4, 5),
            formats: &[],
        },
        Ep {
            name: "ls-refs",
            drive: d::ls_refs,
            wrap: Wrap::Raw,
            tokens: vec![
                hp("{H} refs/heads/main\n"),
                hp("{H} HEAD symref-target:refs/heads/main\n"),
                hp("unborn HEAD symref-target:refs/heads/main\n"),
                hp("{H} refs/tags/t peeled:{H}\n"),
                hp("{H} a peeled:\n"),
                hp("{H}\n"),
                hp("{H} a unknown:x\n"),
                hp("x"),
                b"0000".to_vec(),
                b"0001".to_vec(),
            ],
            len: (4, 5),
            formats: &["ls-refs"],
        },
        Ep {
            name: "ls-refs-line",
            drive: d::ls_refs,
            wrap: Wrap::Pkt,
            tokens: t(&[H, b" ", b"HEAD", b"symref-target:", b"peeled:", b"unborn", b"refs/heads/a", b"\n", b":", b"(null)"]),
            len: (5, 6),
            formats: &[],
        },
        Ep {
            name: "fetch-response-v1",
            drive: d::fetch_v1,
            wrap: Wrap::Raw,
            tokens: vec![
                hp("ACK {H} common\n"),
                hp("ACK {H} ready\n"),
                hp("ACK {H}\n"),
                hp("NAK\n"),
                hp("shallow {H}\n"),
                hp("unshallow {H}\n"),
                b"0000".to_vec(),
                pkt(b"\x01PACK\0\0\0\x02\0\0\0\0"),
                pkt(b"\x02progress\n"),
                pkt(b"\x03fatal\n"),
                hp("ERR e"),
                pkt(b"PACK"),
            ],
            len: (3, 4),
            formats: &["fetch-v1"],
        },
        Ep {
            name: "fetch-response-v2",
            drive: d::fetch_v2,
            wrap: Wrap::Raw,
            tokens: vec![
                hp("acknowledgments\n"),
                hp("NAK\n"),
                hp("ACK {H}\n"),
                hp("ready\n"),
                b"0001".to_vec(),
                b"0000".to_vec(),
                b"0002".to_vec(),
                hp("shallow-info\n"),
                hp("shallow {H}\n"),
                hp("wanted-refs\n"),
                hp("{H} refs/heads/a\n"),
                hp("packfile\n"),
                pkt(b"\x01PACK"),
                hp("packfile-uris\n"),
                hp("x\n"),
            ],
            len: (4, 5),
            formats: &["fetch-v2"],
        },
        Ep {
            name: "fetch-response-lines",
            drive: d::fetch_lines,
            wrap: Wrap::Raw,
            tokens: t(&[b"ACK ", H, b" ", b"common", b"ready", b"continue", b"NAK", b"shallow ", b"unshallow ", b"\n", b"x", b"refs/a", b"Receiving objects:  10% (1/10)", b"\r"]),
            len: (4, 5),
            formats: &[],
        },
    ]
}

fn wrap(w: Wrap, s: &[u8]) -> Vec<u8> {
    match w {
        Wrap::Raw => s.to_vec(),
        Wrap::Pkt => pkt(s),
        Wrap::PktFlush => cat(&[&pkt(s), b"0000"]),
    }
}

#[derive(Default)]
struct Stats {
    inputs: AtomicU64,
    accepted: AtomicU64,
    classes: Mutex<BTreeMap<&'static str, u64>>,
}

/// run one input through a driver under catch_unwind; flags allocation bombs that did not abort the process.
/// Ok(class) or Err(violation message starting with its class)
fn evaluate(ep: &Ep, input: &[u8], ctx: &Ctx, announce: bool) -> Result<&'static str, String> {
    if announce {
        // replay mode: name the input before touching it, so a hang / abort is attributable from the log
        eprintln!("C06 {} input ({} bytes): {}", ep.name, input.len(), vkit::bytes::escape(&input[..input.len().min(400)]));
    }
    crate::alloc::reset();
    let r = vkit::catch(|| (ep.drive)(input, ctx));
    let peak = crate::alloc::max_request();
    match r {
        Err(p) => Err(format!("panic: {}: {p} -- input ({} bytes) {}", ep.name, input.len(), vkit::bytes::escape(&input[..input.len().min(200)]))),
        Ok(_) if peak >= crate::alloc::FLAG => {
            Err(format!("alloc-bomb: {}: a single allocation of {peak} bytes was requested for an input of {} bytes", ep.name, input.len()))
        }
        Ok(class) => Ok(class),
    }
}

/// Evaluate a block of inputs produced by `each`. Single-input blocks return their verdict directly (replayable);
/// in larger blocks every failing input is recorded as its own single-input violation via `single`.
fn run_block<C: Serialize>(
    run: &Run,
    sub: &str,
    ep: &Ep,
    ctx: &Ctx,
    stats: &Stats,
    mutated: bool,
    each: &mut dyn FnMut(&mut dyn FnMut(&[u8], &dyn Fn() -> C)),
) -> Verdict {
    let mut local: BTreeMap<&'static str, u64> = BTreeMap::new();
    let mut n = 0u64;
    let mut accepted = 0u64;
    let mut failures: Vec<(C, String)> = Vec::new();
    each(&mut |input, single| {
        n += 1;
        match evaluate(ep, input, ctx, run.is_replay()) {
            Ok(class) => {
                if class.starts_with("ok") {
                    accepted += 1;
                }
                *local.entry(class).or_default() += 1;
            }
            Err(msg) => failures.push((single(), msg)),
        }
    });
    stats.inputs.fetch_add(n, Ordering::Relaxed);
    stats.accepted.fetch_add(accepted, Ordering::Relaxed);
    {
        let mut g = stats.classes.lock().unwrap();
        for (k, v) in local {
            *g.entry(k).or_default() += v;
        }
    }
    if n == 1 {
        if let Some((_, msg)) = failures.pop() {
            return Err(msg);
        }
    } else {
        for (case, msg) in failures {
            run.violation(sub, case, msg);
        }
    }
    // non-trivial = some decoder accepted an input of the block (its value was walked), or the inputs are mutations of a valid encoding
    if accepted > 0 {
        ok(format!("{}:accepted-some", ep.name))
    } else if mutated {
        ok(format!("{}:mutations-all-rejected", ep.name))
    } else {
        ok_trivial(format!("{}:rejected-all", ep.name))
    }
}

fn mutations_of(seed: &[u8], c: &MutCase, mut f: impl FnMut(Mutation)) {
    let u32_step = c.u32_step.max(1);
    match c.kind {
        Kind::Seed => f(Mutation::None),
        Kind::Trunc => (c.from..c.to.min(seed.len())).for_each(|n| f(Mutation::Trunc(n))),
        Kind::Byte => {
            for at in c.from..c.to.min(seed.len()) {
                let b = seed[at];
                let mut vals: Vec<u8> = Vec::new();
                for v in [0x00u8, 0xff, b ^ 0x01, b ^ 0x80] {
                    if v != b && !vals.contains(&v) {
                        vals.push(v)
                    }
                }
                for v in vals {
                    if c.value.map_or(true, |only| only == u32::from(v)) {
                        f(Mutation::Byte(at, v));
                    }
                }
            }
        }
        Kind::U32 => {
            for at in (c.from..c.to).filter(|at| at % u32_step == 0) {
                if at + 4 > seed.len() {
                    break;
                }
                let cur = u32::from_be_bytes(seed[at..at + 4].try_into().unwrap());
                for v in [0u32, 1, 0x7fff_ffff, 0xffff_ffff] {
                    if v != cur && c.value.map_or(true, |only| only == v) {
                        f(Mutation::U32(at, v));
                    }
                }
            }
        }
    }
}

const MUT_BLOCK: usize = 16;

extern "C" {
    fn mallopt(param: i32, value: i32) -> i32;
}

pub fn run(run: &'static Run) {
    // glibc: keep freed memory instead of returning it to the kernel after every 64 KiB packet-line buffer (brk/madvise thrash
    // made such cases ~100x slower than the decoder itself). M_TRIM_THRESHOLD = -1, M_TOP_PAD = -2.
    unsafe {
        mallopt(-1, 512 << 20);
        mallopt(-2, 16 << 20);
    }
    let eps = entry_points();
    let only: Option<Vec<String>> = std::env::var("C06_ONLY").ok().map(|s| s.split(',').map(str::to_string).collect());
    run.rule(
        "per entry point (one sub-check each, `<name>` = token strings, `<name>~seeds` = mutations): (a) every concatenation of <= L tokens of a per-format token alphabet (L = quick/thorough, see coverage key `alphabets`); \
         (b) for every git-produced valid seed of the format: the seed itself, truncation at every offset, every byte set to 0x00 / 0xff / ^0x01 / ^0x80, \
         every 32-bit big-endian field (quick: at every 4-aligned offset, thorough: at every byte offset) set to 0 / 1 / 0x7fffffff / 0xffffffff. Oracle: decoder + walk of the decoded value returns without panic/abort; a block (<= 4096 token strings / <= 64 mutations) must finish within 5 s; \
         a single allocation request >= 64 MiB is flagged, >= 1 GiB is refused (abort, attributed by the driver). One vkit case = one block of inputs (prefix + all short tails / 16 offsets of one mutation kind; a mutation case carries its seed bytes); \
         per-input counts are in coverage keys `inputs`, `inputs_accepted`, `input_outcomes`. \
         non-trivial block = a decoder accepted at least one input, or the inputs are mutations of a valid encoding (reach deep decoder states)",
    );
    run.assume("git 2.39.5 writes the seed corpus (index v2/v3/v4 + TREE/REUC/UNTR/EOIE/IEOT/link/sdir, commit-graph incl. bloom/EDGE/BASE, multi-pack-index, pack idx v1/v2, pack bitmap, packed-refs, reflog, objects, upload-pack output)");
    run.assume("Ok on garbage is fine; semantic correctness is decided by other properties");
    run.assume("pack .idx: only File::at and header accessors (not listed in the property; lazily validated by verify_integrity); data::Entry::from_bytes excluded (documented to panic), from_read driven instead");
    run.budget_secs(std::env::var("C06_BUDGET").ok().and_then(|s| s.parse().ok()).unwrap_or(run.pick(38.0, 840.0)));

    // ---- seeds (built in every mode: a replayed mutation case needs its seed) ----
    let t_seeds = std::time::Instant::now();
    let root = vkit::scratch::Dir::new("c06seeds");
    // a replayed case carries its own seed bytes; only split-index cases need the shared index file that git wrote next to the seed
    let replay_needs_corpus = run.is_replay()
        && eps.iter().any(|ep| run.replay_case::<MutCase>(&format!("{}~seeds", ep.name)).map_or(false, |c| c.seed.contains("link")));
    let corpus = if run.is_replay() && !replay_needs_corpus {
        seeds::Corpus { seeds: Vec::new(), shared_index: None }
    } else {
        seeds::build(root.path(), run.quick())
    };
    let files = vkit::scratch::Dir::new("c06files");
    if let Some((name, bytes)) = &corpus.shared_index {
        if let Err(e) = std::fs::write(files.join(name), bytes) {
            vkit::machinery!("cannot write shared index: {e}");
        }
    }
    let ctx = Ctx { dir: files.path().to_path_buf() };
    if !run.is_replay() {
        // vacuity guards: git really wrote the structures the seeds are named after
        let has = |seed: &str, sig: &[u8]| corpus.seeds.iter().any(|s| format!("{}/{}", s.format, s.name) == seed && s.bytes.windows(sig.len()).any(|w| w == sig));
        for (seed, sig) in [
            ("index/v2-tree", &b"TREE"[..]),
            ("index/v2-reuc", b"REUC"),
            ("index/v2-untr-eoie-ieot", b"UNTR"),
            ("index/v2-untr-eoie-ieot", b"EOIE"),
            ("index/v2-untr-eoie-ieot", b"IEOT"),
            ("commit-graph/bloom-edge", b"EDGE"),
            ("commit-graph/bloom-edge", b"BDAT"),
            ("midx/two-packs", b"PNAM"),
        ] {
            run.require(&format!("seed {seed} contains {}", String::from_utf8_lossy(sig)), has(seed, sig));
        }
        if !run.quick() {
            for (seed, sig) in [("index/v2-link", &b"link"[..]), ("index/v3-sparse", b"sdir"), ("commit-graph/split-top", b"BASE"), ("midx/ridx", b"RIDX"), ("index/v4-untr-eoie-ieot", b"UNTR")] {
                run.require(&format!("seed {seed} contains {}", String::from_utf8_lossy(sig)), has(seed, sig));
            }
        }
    }
    let mut seed_info = BTreeMap::new();
    for s in &corpus.seeds {
        seed_info.insert(format!("{}/{}", s.format, s.name), s.bytes.len());
    }
    run.cov("seeds_bytes", &seed_info);
    let mut alpha_info = BTreeMap::new();
    let mut inputs_info: BTreeMap<String, u64> = BTreeMap::new();
    let mut accepted_info: BTreeMap<String, u64> = BTreeMap::new();
    let mut outcome_info: BTreeMap<String, BTreeMap<&'static str, u64>> = BTreeMap::new();
    let mut total_inputs = 0u64;
    let mut seeds_accepted = 0u64;
    let mut wall_info: BTreeMap<String, f64> = BTreeMap::new();
    wall_info.insert("(seed corpus)".into(), (t_seeds.elapsed().as_secs_f64() * 10.0).round() / 10.0);

    let opts = || vkit::Opts::default().chunk(256).watchdog(5.0).isolate();

    for ep in &eps {
        if let Some(only) = &only {
            if !only.iter().any(|o| o == ep.name) {
                continue;
            }
        }
        let max_len = run.pick(ep.len.0, ep.len.1);
        let t_ep = std::time::Instant::now();
        // ---------- (a) token alphabet ----------
        if !ep.tokens.is_empty() {
            alpha_info.insert(
                ep.name.to_string(),
                format!("{} tokens {:?} up to {} tokens", ep.tokens.len(), ep.tokens.iter().map(|t| vkit::bytes::escape(t)).collect::<Vec<_>>(), max_len),
            );
            let toks: Vec<&[u8]> = ep.tokens.iter().map(Vec::as_slice).collect();
            // tail depth: largest s with sum_{i<=s} k^i <= 4096
            let k = toks.len();
            let mut tail = 0usize;
            let mut size = 1usize;
            while tail < max_len {
                let next = size * k + 1;
                if next > 4096 {
                    break;
                }
                size = next;
                tail += 1;
            }
            let plen = max_len - tail;
            let stats = Stats::default();
            run.sub_with(
                ep.name,
                opts(),
                |emit| {
                    // strings shorter than the prefix length are single-input blocks; each prefix of exactly `plen` tokens carries all its tails
                    if plen > 0 {
                        vkit::enumerate::strings(&toks, 0, plen - 1, |s| emit(AlphaCase { prefix: B(s.to_vec()), tail: 0 }));
                    }
                    vkit::enumerate::strings(&toks, plen, plen, |s| emit(AlphaCase { prefix: B(s.to_vec()), tail }));
                },
                |c: &AlphaCase| -> Verdict {
                    let mut buf = c.prefix.0.clone();
                    let plen = buf.len();
                    run_block(run, ep.name, ep, &ctx, &stats, false, &mut |f| {
                        vkit::enumerate::strings(&toks, 0, c.tail, |s| {
                            buf.truncate(plen);
                            buf.extend_from_slice(s);
                            let input = wrap(ep.wrap, &buf);
                            f(&input, &|| AlphaCase { prefix: B(buf.clone()), tail: 0 });
                        })
                    })
                },
            );
            let n = stats.inputs.load(Ordering::Relaxed);
            if !run.is_replay() {
                run.count(ep.name, n.saturating_sub(run.sub_evaluations(ep.name)));
            }
            total_inputs += n;
            inputs_info.insert(ep.name.to_string(), n);
            accepted_info.insert(ep.name.to_string(), stats.accepted.load(Ordering::Relaxed));
            outcome_info.insert(ep.name.to_string(), stats.classes.lock().unwrap().clone());
        }
        // ---------- (b) mutations of valid seeds ----------
        let seeds: Vec<&seeds::Seed> = corpus
            .seeds
            .iter()
            .filter(|s| ep.formats.contains(&s.format) && !(run.quick() && s.thorough_only))
            // quick tier: the file-based index entry point gets one seed (its extra code over the in-memory decoder is the checksum check), `index-threaded` gets all
            .filter(|s| !(run.quick() && ep.name == "index-file" && s.name != "v2-tree"))
            .collect();
        if (seeds.is_empty() && !run.is_replay()) || ep.formats.is_empty() {
            wall_info.insert(ep.name.to_string(), (t_ep.elapsed().as_secs_f64() * 10.0).round() / 10.0);
            continue;
        }
        let by_name: BTreeMap<String, &seeds::Seed> = seeds.iter().map(|s| (format!("{}/{}", s.format, s.name), *s)).collect();
        // the primary format of an entry point must accept its unmodified seeds (vacuity guard)
        let primary = ep.formats[0];
        let sub = format!("{}~seeds", ep.name);
        let stats = Stats::default();
        let u32_step = run.pick(4usize, 1);
        run.sub_with(
            &sub,
            // file-based decoders mmap/munmap per input: in one process that serialises on the address-space lock, one thread is faster than 16
            if matches!(ep.name, "index-file" | "commit-graph" | "multi-pack-index" | "pack-idx") { opts().chunk(64).serial() } else { opts().chunk(64) },
            |emit| {
                for (name, s) in &by_name {
                    let mk = |kind, from, to| MutCase { seed: name.clone(), bytes: B(s.bytes.clone()), kind, from, to, value: None, u32_step };
                    emit(mk(Kind::Seed, 0, 0));
                    for kind in [Kind::Trunc, Kind::Byte, Kind::U32] {
                        let mut from = 0;
                        while from < s.bytes.len() {
                            emit(mk(kind, from, (from + MUT_BLOCK).min(s.bytes.len())));
                            from += MUT_BLOCK;
                        }
                    }
                }
            },
            |c: &MutCase| -> Verdict {
                let format = c.seed.split('/').next().unwrap_or("");
                let seed: &[u8] = &c.bytes;
                if c.kind == Kind::Seed && format == primary {
                    match evaluate(ep, seed, &ctx, false) {
                        Ok(class) if !class.starts_with("ok") => vkit::machinery!("entry point {} rejects its own valid seed {} ({class})", ep.name, c.seed),
                        _ => {}
                    }
                }
                run_block(run, &sub, ep, &ctx, &stats, c.kind != Kind::Seed, &mut |f| {
                    mutations_of(seed, c, |m| {
                        let input = mutate::apply(seed, &m);
                        f(&input, &|| {
                            let (kind, at, value) = match m {
                                Mutation::None => (Kind::Seed, 0, None),
                                Mutation::Trunc(n) => (Kind::Trunc, n, None),
                                Mutation::Byte(at, v) => (Kind::Byte, at, Some(u32::from(v))),
                                Mutation::U32(at, v) => (Kind::U32, at, Some(v)),
                            };
                            MutCase { seed: c.seed.clone(), bytes: c.bytes.clone(), kind, from: at, to: at + 1, value, u32_step: 1 }
                        });
                    })
                })
            },
        );
        let n = stats.inputs.load(Ordering::Relaxed);
        if !run.is_replay() {
            run.count(&sub, n.saturating_sub(run.sub_evaluations(&sub)));
        }
        total_inputs += n;
        seeds_accepted += stats.classes.lock().unwrap().iter().filter(|(k, _)| k.starts_with("ok")).map(|(_, v)| *v).sum::<u64>();
        inputs_info.insert(sub.clone(), n);
        accepted_info.insert(sub.clone(), stats.accepted.load(Ordering::Relaxed));
        outcome_info.insert(sub.clone(), stats.classes.lock().unwrap().clone());
        wall_info.insert(ep.name.to_string(), (t_ep.elapsed().as_secs_f64() * 10.0).round() / 10.0);
    }
    run.cov("alphabets", &alpha_info);
    run.cov("inputs", &inputs_info);
    run.cov("inputs_total", total_inputs);
    run.cov("wall_s_per_entry_point", &wall_info);
    run.cov("inputs_accepted", &accepted_info);
    run.cov("input_outcomes", &outcome_info);
    if only.is_none() && !run.is_replay() {
        for ep in &eps {
            let n = inputs_info.get(ep.name).copied().unwrap_or(0) + inputs_info.get(&format!("{}~seeds", ep.name)).copied().unwrap_or(0);
            run.require(&format!("entry point {} was driven", ep.name), n > 0);
        }
        let oc = |sub: &str, class: &str| outcome_info.get(sub).and_then(|m| m.get(class)).copied().unwrap_or(0);
        run.require("sanitizer exercised on names that are not valid", oc("ref-name-sanitize", "ok-sanitized") > 0);
        run.require("index with extensions decoded", oc("index-file~seeds", "ok") > 0);
        run.require("mutated seeds were both accepted and rejected", seeds_accepted > 0);
    }
}
