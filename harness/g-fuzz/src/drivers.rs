//! One driver per decoder entry point. A driver feeds the bytes to the real gitoxide decoder and, when it accepts,
//! walks the decoded value the way a consumer would (iterators, accessors that parse lazily).
//! Return value = outcome class; it starts with "ok" when the decoder accepted the input.
use bstr::{BStr, ByteSlice};
use std::hint::black_box;
use std::io::Read;
use std::path::PathBuf;
use std::sync::atomic::{AtomicU64, Ordering};

pub struct Ctx {
    /// directory for the files of file-based decoders (contains the shared index for split-index seeds)
    pub dir: PathBuf,
}
static FILE_NO: AtomicU64 = AtomicU64::new(0);

pub type Driver = fn(&[u8], &Ctx) -> &'static str;

thread_local! {
    /// per-thread directory: creating / unlinking files in one shared tmpfs directory from 16 threads serialises on the directory lock
    static THREAD_DIR: std::cell::RefCell<Option<PathBuf>> = const { std::cell::RefCell::new(None) };
}

/// write `data` to this thread's file for `ext` (overwritten in place), run `f` on the path
fn with_file(ctx: &Ctx, ext: &str, data: &[u8], f: impl FnOnce(&std::path::Path) -> &'static str) -> &'static str {
    let dir = THREAD_DIR.with(|d| {
        let mut d = d.borrow_mut();
        if d.is_none() {
            let p = ctx.dir.join(format!("t{}", FILE_NO.fetch_add(1, Ordering::Relaxed)));
            if let Err(e) = std::fs::create_dir_all(&p) {
                vkit::machinery!("cannot create {}: {e}", p.display());
            }
            // the shared index of split-index seeds must sit next to the index file
            if let Ok(rd) = std::fs::read_dir(&ctx.dir) {
                for e in rd.flatten() {
                    if e.file_name().to_string_lossy().starts_with("sharedindex.") {
                        let _ = std::fs::copy(e.path(), p.join(e.file_name()));
                    }
                }
            }
            *d = Some(p);
        }
        d.clone().expect("set above")
    });
    let p = dir.join(format!("f.{ext}"));
    if let Err(e) = std::fs::write(&p, data) {
        vkit::machinery!("cannot write {}: {e}", p.display());
    }
    f(&p)
}

// ------------------------------------------------------------------ objects
pub fn commit(d: &[u8], _: &Ctx) -> &'static str {
    let it = gix_object::CommitRefIter::from_bytes(d);
    let n_tok = black_box(it.count());
    black_box(gix_object::CommitRefIter::from_bytes(d).tree_id().ok());
    black_box(gix_object::CommitRefIter::from_bytes(d).signatures().count());
    black_box(gix_object::CommitRefIter::from_bytes(d).parent_ids().count());
    black_box(gix_object::CommitRefIter::from_bytes(d).message().ok());
    match gix_object::CommitRef::from_bytes(d) {
        Ok(c) => {
            black_box(c.tree());
            black_box(c.parents().count());
            black_box(c.author().trim());
            black_box(c.committer().actor());
            black_box(c.time());
            black_box(c.extra_headers().pgp_signature());
            black_box(c.extra_headers().mergetags().count());
            let m = c.message();
            black_box(m.summary());
            if let Some(b) = m.body() {
                black_box(b.without_trailer());
                black_box(b.trailers().count());
            }
            black_box(c.message_summary());
            black_box(c.message_trailers().count());
            let owned: gix_object::Commit = c.into();
            black_box(owned);
            if n_tok > 4 {
                "ok"
            } else {
                "ok-minimal"
            }
        }
        Err(_) => "err",
    }
}

pub fn tag(d: &[u8], _: &Ctx) -> &'static str {
    black_box(gix_object::TagRefIter::from_bytes(d).count());
    black_box(gix_object::TagRefIter::from_bytes(d).target_id().ok());
    black_box(gix_object::TagRefIter::from_bytes(d).tagger().ok());
    match gix_object::TagRef::from_bytes(d) {
        Ok(t) => {
            black_box(t.target());
            let owned: gix_object::Tag = t.into();
            black_box(owned);
            "ok"
        }
        Err(_) => "err",
    }
}

pub fn tree(d: &[u8], _: &Ctx) -> &'static str {
    let n = black_box(gix_object::TreeRefIter::from_bytes(d).count());
    black_box(gix_object::TreeRefIter::from_bytes(d).entries().ok());
    match gix_object::TreeRef::from_bytes(d) {
        Ok(t) => {
            for e in &t.entries {
                black_box((e.mode.kind(), e.mode.is_tree(), e.filename, e.oid));
            }
            let owned: gix_object::Tree = t.into();
            black_box(owned);
            if n == 0 {
                "ok-empty"
            } else {
                "ok"
            }
        }
        Err(_) => "err",
    }
}

pub fn loose(d: &[u8], _: &Ctx) -> &'static str {
    let h = gix_object::decode::loose_header(d);
    let r = gix_object::ObjectRef::from_loose(d);
    for k in [gix_object::Kind::Commit, gix_object::Kind::Tree, gix_object::Kind::Tag, gix_object::Kind::Blob] {
        black_box(gix_object::ObjectRef::from_bytes(k, d).is_ok());
    }
    black_box(gix_object::Kind::from_bytes(d).ok());
    match (h, r) {
        (Ok(_), Ok(o)) => {
            black_box(o.into_owned());
            "ok"
        }
        (Ok(_), Err(_)) => "ok-header-only",
        (Err(_), _) => "err",
    }
}

pub fn signature(d: &[u8], _: &Ctx) -> &'static str {
    let i = gix_actor::IdentityRef::from_bytes::<()>(d);
    if let Ok(i) = &i {
        black_box(i.trim().to_owned());
    }
    match gix_actor::SignatureRef::from_bytes::<()>(d) {
        Ok(s) => {
            black_box(s.trim().to_owned());
            "ok"
        }
        Err(_) if i.is_ok() => "ok-identity-only",
        Err(_) => "err",
    }
}

// ------------------------------------------------------------------ refs
pub fn packed_refs(d: &[u8], _: &Ctx) -> &'static str {
    match gix_ref::packed::Buffer::from_bytes(d) {
        Ok(b) => {
            let mut n = 0;
            let mut bad = 0;
            if let Ok(it) = b.iter() {
                for r in it {
                    match r {
                        Ok(r) => {
                            black_box((r.target(), r.object()));
                            n += 1
                        }
                        Err(_) => bad += 1,
                    }
                }
            }
            if let Ok(it) = b.iter_prefixed("refs/heads/".into()) {
                black_box(it.count());
            }
            for name in ["refs/heads/main", "main", "refs/tags/v1.0", "v1.0", "HEAD", "refs/heads/zzz", "a"] {
                let name: &gix_ref::PartialNameRef = match name.try_into() {
                    Ok(n) => n,
                    Err(_) => continue,
                };
                black_box(b.try_find(name).ok());
            }
            if bad > 0 {
                "ok-open-bad-lines"
            } else if n > 0 {
                "ok"
            } else {
                "ok-empty"
            }
        }
        Err(_) => "err",
    }
}

pub fn loose_ref(d: &[u8], _: &Ctx) -> &'static str {
    let name: gix_ref::FullName = "refs/heads/main".try_into().expect("valid");
    match gix_ref::file::loose::Reference::try_from_path(name, d) {
        Ok(r) => {
            black_box(r.target);
            "ok"
        }
        Err(_) => "err",
    }
}

pub fn reflog(d: &[u8], _: &Ctx) -> &'static str {
    use gix_ref::file::log;
    let one = log::LineRef::from_bytes(d);
    if let Ok(l) = &one {
        black_box((l.previous_oid(), l.new_oid(), l.to_owned()));
    }
    let mut good = 0;
    for l in log::iter::forward(d) {
        if let Ok(l) = l {
            black_box((l.previous_oid(), l.new_oid()));
            good += 1;
        }
    }
    for size in [1024usize, 64] {
        let mut buf = vec![0u8; size];
        if let Ok(it) = log::iter::reverse(std::io::Cursor::new(d), &mut buf) {
            for l in it {
                black_box(l.ok());
            }
        }
    }
    if good > 0 {
        "ok"
    } else if one.is_ok() {
        "ok-line"
    } else {
        "err"
    }
}

pub fn ref_name(d: &[u8], _: &Ctx) -> &'static str {
    let b: &BStr = d.as_bstr();
    let s = gix_validate::reference::name_partial_or_sanitize(b);
    black_box(gix_validate::tag::name(b).is_ok());
    black_box(gix_validate::reference::name(b).is_ok());
    black_box(gix_validate::submodule::name(b).is_ok());
    black_box(gix_validate::path::component(b, None, Default::default()).is_ok());
    black_box(gix_validate::path::component_is_windows_device(b));
    let full: Result<&gix_ref::FullNameRef, _> = b.try_into();
    if let Ok(f) = full {
        black_box((f.category(), f.shorten(), f.file_name()));
    }
    let partial = gix_validate::reference::name_partial(b).is_ok();
    let sane = gix_validate::reference::name_partial(s.as_ref()).is_ok();
    match (partial, sane) {
        (true, _) => "ok-valid-name",
        (false, true) => "ok-sanitized",
        (false, false) => "ok-sanitized-still-invalid",
    }
}

// ------------------------------------------------------------------ index
fn walk_state(s: &gix_index::State) {
    let mut n = 0usize;
    for e in s.entries() {
        n += e.path(s).len();
        black_box((e.stage(), e.mode, e.flags, e.id));
    }
    black_box(n);
    black_box(s.entry_by_path("a".into()));
    black_box(s.entry_index_by_path_and_stage("b/c".into(), gix_index::entry::Stage::Unconflicted));
    black_box(s.prefixed_entries("b".into()).map(<[_]>::len));
    black_box(s.entry_closest_to_directory("b".into()));
    if let Some(t) = s.tree() {
        fn rec(t: &gix_index::extension::Tree, depth: usize) -> usize {
            if depth > 64 {
                return 0;
            }
            1 + t.children.iter().map(|c| rec(c, depth + 1)).sum::<usize>()
        }
        black_box(rec(t, 0));
    }
    if let Some(u) = s.untracked() {
        black_box(std::mem::size_of_val(u));
    }
    black_box(s.resolve_undo().map(Vec::len));
    black_box((s.is_sparse(), s.had_end_of_index_marker(), s.had_offset_table(), s.version()));
}

pub fn index_file(d: &[u8], ctx: &Ctx) -> &'static str {
    with_file(ctx, "index", d, |p| {
        let opts = gix_index::decode::Options { thread_limit: Some(1), ..Default::default() };
        // with hash verification (what `gix` does unless index.skipHash) ...
        let a = gix_index::File::at(p, gix_hash::Kind::Sha1, false, opts);
        if let Ok(f) = &a {
            walk_state(f);
        }
        // ... and without (decoder proper is reached even though the trailing checksum no longer matches)
        match gix_index::File::at(p, gix_hash::Kind::Sha1, true, opts) {
            Ok(f) => {
                walk_state(&f);
                if a.is_ok() {
                    "ok"
                } else {
                    "ok-skip-hash-only"
                }
            }
            Err(_) => "err",
        }
    })
}

pub fn index_threaded(d: &[u8], _: &Ctx) -> &'static str {
    let opts = gix_index::decode::Options { thread_limit: Some(3), min_extension_block_in_bytes_for_threading: 0, expected_checksum: None };
    match gix_index::State::from_bytes(d, filetime::FileTime::zero(), gix_hash::Kind::Sha1, opts) {
        Ok((s, _)) => {
            walk_state(&s);
            "ok"
        }
        Err(_) => "err",
    }
}

// ------------------------------------------------------------------ commit-graph / pack files
pub fn commit_graph(d: &[u8], ctx: &Ctx) -> &'static str {
    with_file(ctx, "graph", d, |p| match gix_commitgraph::File::at(p) {
        Ok(f) => {
            black_box(f.iter_base_graph_ids().count());
            black_box(f.iter_ids().count());
            let mut parents = 0usize;
            for c in f.iter_commits() {
                black_box((c.generation(), c.committer_timestamp(), c.root_tree_id(), c.id()));
                black_box(c.parent1().ok());
                for p in c.iter_parents() {
                    if p.is_ok() {
                        parents += 1
                    } else {
                        break;
                    }
                }
            }
            black_box(parents);
            // NOTE: `lookup()` is a query on the lazily validated fan-out table (checked by `verify_integrity()`), not part of parsing: not driven.
            black_box((f.checksum(), f.object_hash(), f.num_commits(), f.base_graph_count()));
            black_box(f.verify_checksum().is_ok());
            "ok"
        }
        Err(_) => "err",
    })
}

pub fn midx(d: &[u8], ctx: &Ctx) -> &'static str {
    with_file(ctx, "midx", d, |p| match gix_pack::multi_index::File::at(p) {
        Ok(f) => {
            black_box((f.version(), f.num_indices(), f.num_objects(), f.object_hash(), f.index_names().len()));
            black_box(f.checksum());
            "ok"
        }
        Err(_) => "err",
    })
}

pub fn pack_idx(d: &[u8], ctx: &Ctx) -> &'static str {
    with_file(ctx, "idx", d, |p| match gix_pack::index::File::at(p, gix_hash::Kind::Sha1) {
        Ok(f) => {
            black_box((f.version(), f.num_objects(), f.object_hash()));
            black_box((f.index_checksum(), f.pack_checksum()));
            "ok"
        }
        Err(_) => "err",
    })
}

pub fn pack_header(d: &[u8], _: &Ctx) -> &'static str {
    let mut any = false;
    if d.len() >= 12 {
        let h: &[u8; 12] = d[..12].try_into().expect("12");
        any |= gix_pack::data::header::decode(h).is_ok();
        let mut rest = &d[12..];
        any |= gix_pack::data::Entry::from_read(&mut rest, 12, 20).is_ok();
    }
    let mut all = d;
    any |= gix_pack::data::Entry::from_read(&mut all, 0, 20).is_ok();
    if any {
        "ok"
    } else {
        "err"
    }
}

pub fn ewah(d: &[u8], _: &Ctx) -> &'static str {
    // several bitmaps may follow each other (pack bitmap file, untracked cache)
    let mut data = d;
    let mut n = 0;
    let mut bits = 0usize;
    while n < 8 {
        match gix_bitmap::ewah::decode(data) {
            Ok((v, rest)) => {
                // (bounded like every real consumer: the set of addressable items is limited by the size of the file that contains the bitmap;
                //  enumerating a run of 2^31 set bits is O(bits) by design, not a hang of the decoder)
                let limit = v.num_bits().min(1 << 16);
                // a consumer that stops at the declared number of bits (as the untracked-cache decoder intends to)
                black_box(v.for_each_set_bit(|i| {
                    if i >= limit {
                        return None;
                    }
                    bits += 1;
                    Some(())
                }));
                data = rest;
                n += 1;
            }
            Err(_) => break,
        }
    }
    black_box(bits);
    if n == 0 {
        "err"
    } else if bits > 0 {
        "ok-bits"
    } else {
        "ok"
    }
}

// ------------------------------------------------------------------ config & friends
pub fn config(d: &[u8], _: &Ctx) -> &'static str {
    let mut events = 0usize;
    let a = gix_config::parse::from_bytes(d, &mut |_e| events += 1);
    black_box(gix_config::parse::Events::from_bytes(d, None).is_ok());
    match gix_config::File::from_bytes_no_includes(d, gix_config::file::Metadata::default(), Default::default()) {
        Ok(f) => {
            black_box(f.to_bstring());
            for s in f.sections() {
                black_box((s.header().name(), s.header().subsection_name(), s.num_values()));
                for k in s.value_names() {
                    black_box(s.value(k.as_ref() as &str));
                    black_box(s.values(k.as_ref() as &str).len());
                }
            }
            black_box(f.string("core.bare"));
            black_box(f.boolean("core.bare"));
            black_box(f.integer("a.b.k"));
            black_box(f.path("include.path"));
            black_box(f.strings("remote.origin.fetch"));
            if events > 0 {
                "ok"
            } else {
                "ok-empty"
            }
        }
        Err(_) if a.is_ok() => "ok-events-only",
        Err(_) => "err",
    }
}

pub fn attributes(d: &[u8], _: &Ctx) -> &'static str {
    let mut good = 0;
    let mut bad = 0;
    for l in gix_attributes::parse(d) {
        match l {
            Ok((kind, assignments, line)) => {
                black_box((&kind, line));
                for a in assignments {
                    match a {
                        Ok(a) => {
                            black_box(a.to_owned());
                            good += 1
                        }
                        Err(_) => bad += 1,
                    }
                }
            }
            Err(_) => bad += 1,
        }
    }
    let mut search = gix_attributes::Search::default();
    let mut coll = gix_attributes::search::MetadataCollection::default();
    search.add_patterns_buffer(d, "<memory>".into(), None, &mut coll, true);
    let mut out = gix_attributes::search::Outcome::default();
    out.initialize(&coll);
    for case in [gix_glob::pattern::Case::Sensitive, gix_glob::pattern::Case::Fold] {
        for path in ["a.txt", "dir/sub/x", "quoted name", "A"] {
            black_box(search.pattern_matching_relative_path(path.into(), case, None, &mut out));
            black_box(out.iter().count());
            out.reset();
        }
    }
    if good > 0 {
        "ok"
    } else if bad > 0 {
        "err"
    } else {
        "ok-no-assignments"
    }
}

pub fn ignore(d: &[u8], _: &Ctx) -> &'static str {
    let n = gix_ignore::parse(d).map(|(p, line, kind)| black_box((p.to_string(), line, kind))).count();
    let mut search = gix_ignore::Search::default();
    search.add_patterns_buffer(d, "<memory>", None);
    for case in [gix_glob::pattern::Case::Sensitive, gix_glob::pattern::Case::Fold] {
        for (path, dir) in [("a.o", false), ("build", true), ("dir/a/b/x", false), ("#literal", false), ("A", false)] {
            black_box(search.pattern_matching_relative_path(path.into(), Some(dir), case).is_some());
        }
    }
    if n > 0 {
        "ok"
    } else {
        "ok-no-patterns"
    }
}

pub fn mailmap(d: &[u8], _: &Ctx) -> &'static str {
    let mut good = 0;
    let mut bad = 0;
    for l in gix_mailmap::parse(d) {
        match l {
            Ok(e) => {
                black_box(e);
                good += 1
            }
            Err(_) => bad += 1,
        }
    }
    let snap = gix_mailmap::Snapshot::from_bytes(d);
    black_box(snap.entries().len());
    if let Ok(sig) = gix_actor::SignatureRef::from_bytes::<()>(b"Commit Name <commit@email> 1 +0000") {
        black_box(snap.resolve(sig));
    }
    if good > 0 {
        "ok"
    } else if bad > 0 {
        "err"
    } else {
        "ok-empty"
    }
}

pub fn credentials(d: &[u8], _: &Ctx) -> &'static str {
    match gix_credentials::protocol::Context::from_bytes(d) {
        Ok(mut c) => {
            black_box(c.to_url());
            black_box(c.to_prompt("Username"));
            let r = c.destructure_url_in_place(false).is_ok();
            let mut out = Vec::new();
            black_box(c.write_to(&mut out).is_ok());
            if r {
                "ok"
            } else {
                "ok-url-invalid"
            }
        }
        Err(_) => "err",
    }
}

// ------------------------------------------------------------------ small text parsers
pub fn url(d: &[u8], _: &Ctx) -> &'static str {
    black_box(gix_url::expand_path::parse(d.into()).ok());
    match gix_url::parse(d.into()) {
        Ok(u) => {
            black_box((u.user(), u.password(), u.host(), u.host_argument_safe(), u.path_argument_safe(), u.path_is_root(), u.port_or_default()));
            black_box(u.canonicalized(std::path::Path::new("/cwd")).ok());
            let s = u.to_bstring();
            black_box(gix_url::parse(s.as_ref()).ok());
            "ok"
        }
        Err(_) => "err",
    }
}

pub fn refspec(d: &[u8], _: &Ctx) -> &'static str {
    let mut ok = false;
    for op in [gix_refspec::parse::Operation::Push, gix_refspec::parse::Operation::Fetch] {
        if let Ok(s) = gix_refspec::parse(d.into(), op) {
            ok = true;
            black_box((s.source(), s.destination(), s.remote(), s.local(), s.prefix(), s.instruction()));
            let mut out = Vec::new();
            s.expand_prefixes(&mut out);
            black_box(s.to_bstring());
            black_box(s.to_owned());
        }
    }
    if ok {
        "ok"
    } else {
        "err"
    }
}

struct Noop(usize);
mod noop {
    use super::Noop;
    use bstr::BStr;
    use gix_revision::spec::parse::{delegate, Delegate};
    impl Delegate for Noop {
        fn done(&mut self) {}
    }
    impl delegate::Kind for Noop {
        fn kind(&mut self, _kind: gix_revision::spec::Kind) -> Option<()> {
            self.0 += 1;
            Some(())
        }
    }
    impl delegate::Navigate for Noop {
        fn traverse(&mut self, _kind: delegate::Traversal) -> Option<()> {
            self.0 += 1;
            Some(())
        }
        fn peel_until(&mut self, _kind: delegate::PeelTo<'_>) -> Option<()> {
            self.0 += 1;
            Some(())
        }
        fn find(&mut self, _regex: &BStr, _negated: bool) -> Option<()> {
            self.0 += 1;
            Some(())
        }
        fn index_lookup(&mut self, _path: &BStr, _stage: u8) -> Option<()> {
            self.0 += 1;
            Some(())
        }
    }
    impl delegate::Revision for Noop {
        fn find_ref(&mut self, _name: &BStr) -> Option<()> {
            self.0 += 1;
            Some(())
        }
        fn disambiguate_prefix(&mut self, _prefix: gix_hash::Prefix, _hint: Option<delegate::PrefixHint<'_>>) -> Option<()> {
            self.0 += 1;
            Some(())
        }
        fn reflog(&mut self, _query: delegate::ReflogLookup) -> Option<()> {
            self.0 += 1;
            Some(())
        }
        fn nth_checked_out_branch(&mut self, _branch_no: usize) -> Option<()> {
            self.0 += 1;
            Some(())
        }
        fn sibling_branch(&mut self, _kind: delegate::SiblingBranch) -> Option<()> {
            self.0 += 1;
            Some(())
        }
    }
}

pub fn revspec(d: &[u8], _: &Ctx) -> &'static str {
    let mut n = Noop(0);
    match gix_revision::spec::parse(d.into(), &mut n) {
        Ok(()) => {
            if n.0 > 1 {
                "ok-navigation"
            } else {
                "ok"
            }
        }
        Err(_) => "err",
    }
}

pub fn pathspec(d: &[u8], _: &Ctx) -> &'static str {
    match gix_pathspec::parse(d, Default::default()) {
        Ok(mut p) => {
            black_box((p.is_nil(), p.prefix_directory(), p.path(), p.is_excluded(), p.always_matches()));
            black_box(p.to_bstring());
            black_box(p.normalize(std::path::Path::new("sub"), std::path::Path::new("/root")).is_ok());
            black_box(p.to_bstring());
            if p.attributes.is_empty() {
                "ok"
            } else {
                "ok-attributes"
            }
        }
        Err(_) => "err",
    }
}

pub fn date(d: &[u8], _: &Ctx) -> &'static str {
    let Ok(s) = std::str::from_utf8(d) else { return "err-not-utf8" };
    let now = std::time::SystemTime::UNIX_EPOCH + std::time::Duration::from_secs(1_700_000_000);
    let a = gix_date::parse(s, Some(now));
    let b = gix_date::parse(s, None);
    let c: Option<()> = None;
    if let Ok(t) = &a {
        let mut out = Vec::new();
        black_box(t.write_to(&mut out).is_ok());
    }
    match (a.is_ok(), b.is_ok() || c.is_some()) {
        (true, _) => "ok",
        (false, true) => "ok-without-now",
        _ => "err",
    }
}

pub fn quote(d: &[u8], _: &Ctx) -> &'static str {
    // harness self-test (GUIDE: break the oracle once): C06_SELFTEST=1 injects a panic for inputs ending in `\8`
    if d.ends_with(b"\\8") && std::env::var_os("C06_SELFTEST").is_some() {
        panic!("injected self-test failure");
    }
    black_box(gix_quote::single(d.as_bstr()));
    match gix_quote::ansi_c::undo(d.as_bstr()) {
        Ok((v, consumed)) => {
            black_box(consumed);
            if matches!(v, std::borrow::Cow::Owned(_)) {
                "ok-unquoted"
            } else {
                "ok-verbatim"
            }
        }
        Err(_) => "err",
    }
}

// ------------------------------------------------------------------ packet lines & protocol
pub fn pktline_decode(d: &[u8], _: &Ctx) -> &'static str {
    use gix_packetline::decode;
    let one = decode::all_at_once(d);
    if let Ok(l) = &one {
        walk_line(l);
    }
    // decode the whole buffer as a stream of lines
    let mut rest = d;
    let mut lines = 0;
    let mut end = "err";
    for _ in 0..d.len() + 1 {
        match decode::streaming(rest) {
            Ok(decode::Stream::Complete { line, bytes_consumed }) => {
                walk_line(&line);
                lines += 1;
                if bytes_consumed == 0 || bytes_consumed > rest.len() {
                    break;
                }
                rest = &rest[bytes_consumed..];
                if rest.is_empty() {
                    end = "ok";
                    break;
                }
            }
            Ok(decode::Stream::Incomplete { bytes_needed }) => {
                black_box(bytes_needed);
                end = if lines > 0 { "ok-then-incomplete" } else { "ok-incomplete" };
                break;
            }
            Err(_) => {
                end = if lines > 0 { "ok-then-err" } else { "err" };
                break;
            }
        }
    }
    end
}

fn walk_line(l: &gix_packetline::PacketLineRef<'_>) {
    black_box((l.as_slice(), l.as_bstr(), l.as_error(), l.check_error(), l.as_text()));
    if let Some(t) = l.as_text() {
        black_box((t.as_slice(), t.as_bstr()));
    }
    black_box(l.decode_band().ok());
}

const DELIMS: &[gix_packetline::PacketLineRef<'static>] = &[gix_packetline::PacketLineRef::Flush];

pub fn pktline_reader(d: &[u8], _: &Ctx) -> &'static str {
    use gix_packetline::StreamingPeekableIter;
    let mut lines = 0;
    let mut errs = 0;
    // plain line iteration with peeking, continuing after every delimiter
    let mut rd = StreamingPeekableIter::new(std::io::Cursor::new(d), DELIMS, false);
    for _ in 0..d.len() / 4 + 2 {
        black_box(rd.peek_line().map(|r| r.map(|r| r.map(|l| walk_line(&l)).is_ok()).is_ok()));
        match rd.read_line() {
            Some(Ok(Ok(l))) => {
                walk_line(&l);
                lines += 1
            }
            Some(Ok(Err(_))) | Some(Err(_)) => {
                errs += 1;
                break;
            }
            None => {
                if rd.stopped_at().is_none() {
                    break;
                }
                rd.reset();
            }
        }
    }
    // fail-on-ERR mode + side-band demultiplexing through io::Read
    for sidebands in [true, false] {
        let mut rd = StreamingPeekableIter::new(std::io::Cursor::new(d), DELIMS, false);
        rd.fail_on_err_lines(true);
        let mut progress = 0usize;
        let mut out = Vec::new();
        if sidebands {
            let mut r = rd.as_read_with_sidebands(|_is_err, text| {
                progress += text.len();
                gix_packetline::read::ProgressAction::Continue
            });
            black_box(r.read_to_end(&mut out).is_ok());
        } else {
            let mut r = rd.as_read();
            black_box(r.peek_data_line().map(|r| r.is_ok()));
            let mut s = String::new();
            black_box(r.read_line_to_string(&mut s).is_ok());
            black_box(r.read_to_end(&mut out).is_ok());
        }
        black_box((progress, out.len()));
    }
    if errs > 0 {
        if lines > 0 {
            "ok-then-err"
        } else {
            "err"
        }
    } else if lines > 0 {
        "ok"
    } else {
        "ok-no-lines"
    }
}

/// ref advertisement: version detection + capabilities + V1 refs, as `handshake()` does it
pub fn advertisement(d: &[u8], _: &Ctx) -> &'static str {
    use gix_transport::client::Capabilities;
    black_box(Capabilities::from_bytes(d).ok());
    black_box(Capabilities::from_lines(d.into()).map(|c| c.iter().map(|c| (c.name().len(), c.values().map(Iterator::count))).count()).ok());
    let mut rd = gix_packetline::StreamingPeekableIter::new(std::io::Cursor::new(d), DELIMS, false);
    let res = match Capabilities::from_lines_with_version_detection(&mut rd) {
        Ok(o) => {
            let caps = o.capabilities;
            black_box(caps.iter().map(|c| (c.name().len(), c.value(), c.values().map(Iterator::count), c.supports("x"))).count());
            black_box((caps.contains("side-band-64k"), caps.capability("agent").map(|c| c.value().map(|v| v.len()))));
            match o.refs {
                Some(mut refs) => match gix_protocol::handshake::refs::from_v1_refs_received_as_part_of_handshake_and_capabilities(&mut refs, caps.iter()) {
                    Ok((r, s)) => {
                        for r in &r {
                            black_box(r.unpack());
                        }
                        black_box(s.len());
                        if r.is_empty() {
                            "ok-v1-no-refs"
                        } else {
                            "ok-v1"
                        }
                    }
                    Err(_) => "ok-caps-then-err",
                },
                None => "ok-v2",
            }
        }
        Err(_) => "err",
    };
    res
}

/// `ls-refs` response of protocol V2
pub fn ls_refs(d: &[u8], _: &Ctx) -> &'static str {
    let mut rd = gix_packetline::StreamingPeekableIter::new(std::io::Cursor::new(d), DELIMS, false);
    rd.fail_on_err_lines(true);
    let mut r = rd.as_read();
    match gix_protocol::handshake::refs::from_v2_refs(&mut r) {
        Ok(refs) => {
            for r in &refs {
                black_box(r.unpack());
            }
            if refs.is_empty() {
                "ok-no-refs"
            } else {
                "ok"
            }
        }
        Err(_) => "err",
    }
}

fn fetch_response(d: &[u8], version: gix_transport::Protocol) -> &'static str {
    use gix_protocol::fetch::Response;
    let mut any_ok = false;
    let mut with_pack = false;
    let modes: &[(bool, bool)] = if version == gix_transport::Protocol::V2 { &[(true, true)] } else { &[(true, true), (true, false), (false, true), (false, false)] };
    for &(expects_pack, negotiate) in modes {
        // `sideband_all`: progress handler installed before the response is parsed (server capability), otherwise only for the pack
        for sideband_all in [false, true] {
            let mut rd = gix_packetline::StreamingPeekableIter::new(std::io::Cursor::new(d), DELIMS, false);
            rd.fail_on_err_lines(true);
            let progress = std::cell::Cell::new(0usize);
            let handler = || -> gix_transport::client::HandleProgress<'_> {
                Box::new(|_e: bool, t: &[u8]| {
                    progress.set(progress.get() + t.len());
                    gix_packetline::read::ProgressAction::Continue
                })
            };
            let mut r: gix_packetline::read::WithSidebands<'_, _, gix_transport::client::HandleProgress<'_>> = rd.as_read_without_sidebands();
            if sideband_all {
                r.set_progress_handler(Some(handler()));
            }
            if let Ok(resp) = Response::from_line_reader(version, &mut r, expects_pack, negotiate) {
                any_ok = true;
                black_box((resp.acknowledgements().len(), resp.shallow_updates().len(), resp.wanted_refs().len()));
                for a in resp.acknowledgements() {
                    black_box(a.id());
                }
                if resp.has_pack() {
                    with_pack = true;
                    if !sideband_all {
                        r.set_progress_handler(Some(handler()));
                    }
                    let mut out = Vec::new();
                    black_box(r.read_to_end(&mut out).is_ok());
                }
            }
            drop(r);
            black_box(progress.get());
        }
    }
    match (any_ok, with_pack) {
        (true, true) => "ok-pack",
        (true, false) => "ok",
        _ => "err",
    }
}
pub fn fetch_v1(d: &[u8], _: &Ctx) -> &'static str {
    fetch_response(d, gix_transport::Protocol::V1)
}
pub fn fetch_v2(d: &[u8], _: &Ctx) -> &'static str {
    fetch_response(d, gix_transport::Protocol::V2)
}
pub fn fetch_lines(d: &[u8], _: &Ctx) -> &'static str {
    use gix_protocol::fetch::response::{Acknowledgement, ShallowUpdate, WantedRef};
    let Ok(s) = std::str::from_utf8(d) else { return "err-not-utf8" };
    let a = Acknowledgement::from_line(s).is_ok();
    let b = ShallowUpdate::from_line(s).is_ok();
    let c = WantedRef::from_line(s).is_ok();
    let p = gix_protocol::RemoteProgress::from_bytes(d).is_some();
    black_box(gix_protocol::RemoteProgress::translate_to_progress(false, d, &mut gix_features::progress::Discard));
    if a || b || c {
        "ok"
    } else if p {
        "ok-progress"
    } else {
        "err"
    }
}
