//! Valid seed corpus, produced by the installed git at run time (deterministic: hermetic env, fixed dates).
//! Every seed is (format, name, bytes). `format` selects the entry point that is driven with the mutations of the seed.
use std::path::{Path, PathBuf};
use vkit::git::{cmd, git, git_in, run_cmd};

pub struct Seed {
    pub format: &'static str,
    pub name: String,
    pub bytes: Vec<u8>,
    /// only in the thorough tier
    pub thorough_only: bool,
}

fn read(p: impl AsRef<Path>) -> Vec<u8> {
    std::fs::read(p.as_ref()).unwrap_or_else(|e| vkit::machinery!("read {}: {e}", p.as_ref().display()))
}
fn write(p: impl AsRef<Path>, b: &[u8]) {
    if let Some(d) = p.as_ref().parent() {
        let _ = std::fs::create_dir_all(d);
    }
    std::fs::write(p.as_ref(), b).unwrap_or_else(|e| vkit::machinery!("write {}: {e}", p.as_ref().display()));
}
fn git_env(dir: &Path, env: &[(&str, &str)], args: &[&str], stdin: Option<&[u8]>) -> Vec<u8> {
    let mut c = cmd(dir);
    for (k, v) in env {
        c.env(k, v);
    }
    c.args(args);
    let o = run_cmd(c, stdin);
    if !o.ok {
        vkit::machinery!("git {args:?} failed in {}: {}", dir.display(), o.err_text());
    }
    o.stdout
}
fn one_file(dir: &Path, ext: &str) -> PathBuf {
    let mut v: Vec<PathBuf> = std::fs::read_dir(dir)
        .unwrap_or_else(|e| vkit::machinery!("readdir {}: {e}", dir.display()))
        .flatten()
        .map(|e| e.path())
        .filter(|p| p.to_string_lossy().ends_with(ext))
        .collect();
    v.sort();
    v.into_iter().next().unwrap_or_else(|| vkit::machinery!("no *{ext} in {}", dir.display()))
}

pub fn pkt(data: &[u8]) -> Vec<u8> {
    let mut v = format!("{:04x}", data.len() + 4).into_bytes();
    v.extend_from_slice(data);
    v
}

/// Where the shared index of the split-index seed lives (copied next to each mutated index file).
pub struct Corpus {
    pub seeds: Vec<Seed>,
    pub shared_index: Option<(String, Vec<u8>)>,
}

fn mk_repo(root: &Path, name: &str) -> PathBuf {
    let d = root.join(name);
    vkit::git::init(&d);
    write(d.join("a"), b"a\n");
    write(d.join("b/c"), b"c\n");
    write(d.join("b/d"), b"d\n");
    write(d.join("e/f/g"), b"g\n");
    git(&d, &["add", "."]);
    git(&d, &["commit", "-q", "-m", "c"]);
    d
}

/// Build all seeds; independent fixtures are built in parallel, the result order is fixed.
pub fn build(root: &Path, quick: bool) -> Corpus {
    let shared: std::sync::Mutex<Option<(String, Vec<u8>)>> = std::sync::Mutex::new(None);
    let shared = &shared;
    let mut jobs: Vec<Box<dyn FnOnce() -> Vec<Seed> + Send + '_>> = Vec::new();
    jobs.push(Box::new(|| {
        let mut seeds: Vec<Seed> = Vec::new();
        {
            #[allow(unused_mut, unused_variables)]
            let mut add = |format: &'static str, name: &str, bytes: Vec<u8>, thorough_only: bool| {
                if bytes.is_empty() {
                    vkit::machinery!("seed {format}/{name} is empty");
                }
                seeds.push(Seed { format, name: name.to_string(), bytes, thorough_only });
            };
            #[allow(unused_variables)]
            let mk = |name: &str| -> PathBuf { mk_repo(root, name) };
            (|| {
    // ---------------- repository with history ----------------
    let r = root.join("r");
    vkit::git::init(&r);
    git(&r, &["config", "core.untrackedCache", "false"]);
    write(r.join("a"), b"a\n");
    write(r.join("b/c"), b"c\n");
    write(r.join("b/d"), b"d\n");
    write(r.join("exe"), b"#!/bin/sh\n");
    {
        use std::os::unix::fs::PermissionsExt;
        let _ = std::fs::set_permissions(r.join("exe"), std::fs::Permissions::from_mode(0o755));
    }
    let _ = std::os::unix::fs::symlink("a", r.join("link"));
    git(&r, &["add", "."]);
    git(&r, &["commit", "-q", "-m", "first\n\nbody line\n\nSigned-off-by: A <a@b>\nCo-authored-by: C <c@d>"]);
    // index v2 with TREE
    add("index", "v2-tree", read(r.join(".git/index")), false);

    // second commit on a side branch + merge (2 parents), then octopus (3 parents -> EDGE chunk)
    git(&r, &["checkout", "-q", "-b", "side"]);
    write(r.join("s"), b"s\n");
    git(&r, &["add", "s"]);
    git(&r, &["commit", "-q", "-m", "side"]);
    git(&r, &["checkout", "-q", "-b", "side2", "main"]);
    write(r.join("t"), b"t\n");
    git(&r, &["add", "t"]);
    git(&r, &["commit", "-q", "-m", "side2"]);
    git(&r, &["checkout", "-q", "main"]);
    write(r.join("m"), b"m\n");
    git(&r, &["add", "m"]);
    git(&r, &["commit", "-q", "-m", "main2"]);
    git(&r, &["merge", "-q", "--no-ff", "-m", "octopus", "side", "side2"]);
    git(&r, &["tag", "-a", "-m", "annotated\n\nbody", "v1.0", "HEAD"]);
    git(&r, &["tag", "light", "HEAD~1"]);

    // ---- objects ----
    let head = String::from_utf8_lossy(&git(&r, &["rev-parse", "HEAD"])).trim().to_string();
    let commit_merge = git(&r, &["cat-file", "commit", "HEAD"]);
    let commit_plain = git(&r, &["cat-file", "commit", "HEAD~1"]);
    let first = git(&r, &["cat-file", "commit", "side~1"]);
    add("commit", "octopus", commit_merge.clone(), false);
    add("commit", "plain", commit_plain.clone(), true);
    add("commit", "trailers", first, true);
    // commit with encoding, gpgsig (multi-line header), mergetag-like extra header
    let tree_id = String::from_utf8_lossy(&git(&r, &["rev-parse", "HEAD^{tree}"])).trim().to_string();
    let signed = format!(
        "tree {tree_id}\nparent {head}\nauthor A U Thor <author@example.com> 1112911993 +0100\ncommitter C O Mitter <committer@example.com> 1112911993 -0700\nencoding ISO-8859-1\ngpgsig -----BEGIN PGP SIGNATURE-----\n \n iQEzBAABCAAdFiEE\n =abcd\n -----END PGP SIGNATURE-----\nx-extra value\n\nsigned subject\n\nbody\n"
    );
    let signed_id = String::from_utf8_lossy(&git_in(&r, &["hash-object", "-t", "commit", "-w", "--stdin"], signed.as_bytes())).trim().to_string();
    add("commit", "gpgsig", git(&r, &["cat-file", "commit", &signed_id]), false);
    let tag_obj = git(&r, &["cat-file", "tag", "v1.0"]);
    add("tag", "annotated", tag_obj.clone(), false);
    let tag_signed = format!(
        "object {head}\ntype commit\ntag v2.0\ntagger T <t@x> 1112911993 +0000\n\nsigned tag\n-----BEGIN PGP SIGNATURE-----\n\niQEz\n-----END PGP SIGNATURE-----\n"
    );
    add("tag", "pgp", tag_signed.into_bytes(), true);
    // tree with every mode: add a gitlink
    git(&r, &["update-index", "--add", "--cacheinfo", &format!("160000,{head},sub")]);
    let tree_all = String::from_utf8_lossy(&git(&r, &["write-tree"])).trim().to_string();
    git(&r, &["update-index", "--force-remove", "sub"]);
    let tree_bytes = git(&r, &["cat-file", "tree", &tree_all]);
    add("tree", "all-modes", tree_bytes.clone(), false);
    // loose encodings
    for (n, k, b, t) in [("commit", "commit", &commit_plain, false), ("tag", "tag", &tag_obj, true), ("tree", "tree", &tree_bytes, true)] {
        let mut l = format!("{k} {}\0", b.len()).into_bytes();
        l.extend_from_slice(b);
        add("loose", n, l, t);
    }
    add("signature", "author", b"A U Thor <author@example.com> 1112911993 +0100".to_vec(), false);

    // ---- refs ----
    add("reflog", "HEAD", read(r.join(".git/logs/HEAD")), false);
    add("loose-ref", "sym", read(r.join(".git/HEAD")), false);
    add("loose-ref", "id", read(r.join(".git/refs/heads/main")), false);
    git(&r, &["pack-refs", "--all"]);
    add("packed-refs", "peeled", read(r.join(".git/packed-refs")), false);
    add("config", "repo", read(r.join(".git/config")), false);

    // ---- commit-graph ----
    git(&r, &["commit-graph", "write", "--reachable", "--changed-paths"]);
    add("commit-graph", "bloom-edge", read(r.join(".git/objects/info/commit-graph")), false);
    if quick {
        return;
    }
    let _ = std::fs::remove_file(r.join(".git/objects/info/commit-graph"));
    git(&r, &["commit-graph", "write", "--reachable"]);
    add("commit-graph", "plain", read(r.join(".git/objects/info/commit-graph")), true);
    let _ = std::fs::remove_file(r.join(".git/objects/info/commit-graph"));
    // split chain: base layer then a second layer (BASE chunk)
    git_in(&r, &["commit-graph", "write", "--split=no-merge", "--stdin-commits"], format!("{}\n", String::from_utf8_lossy(&git(&r, &["rev-parse", "HEAD~1"])).trim()).as_bytes());
    git(&r, &["commit-graph", "write", "--split=no-merge", "--reachable"]);
    {
        let dir = r.join(".git/objects/info/commit-graphs");
        let chain = String::from_utf8_lossy(&read(dir.join("commit-graph-chain"))).to_string();
        if let Some(last) = chain.lines().last() {
            add("commit-graph", "split-top", read(dir.join(format!("graph-{last}.graph"))), true);
        }
    }


            })();
        }
        seeds
    }));
    jobs.push(Box::new(|| {
        let mut seeds: Vec<Seed> = Vec::new();
        {
            #[allow(unused_mut, unused_variables)]
            let mut add = |format: &'static str, name: &str, bytes: Vec<u8>, thorough_only: bool| {
                if bytes.is_empty() {
                    vkit::machinery!("seed {format}/{name} is empty");
                }
                seeds.push(Seed { format, name: name.to_string(), bytes, thorough_only });
            };
            #[allow(unused_variables)]
            let mk = |name: &str| -> PathBuf { mk_repo(root, name) };
            (|| {
    let r = root.join("p");
    vkit::git::init(&r);
    write(r.join("a"), b"a\n");
    write(r.join("b/c"), b"c\n");
    git(&r, &["add", "."]);
    git(&r, &["commit", "-q", "-m", "one"]);
    write(r.join("a"), b"a2\n");
    git(&r, &["commit", "-q", "-a", "-m", "two"]);
    git(&r, &["tag", "-a", "-m", "annotated", "v1.0", "HEAD"]);
    let head = String::from_utf8_lossy(&git(&r, &["rev-parse", "HEAD"])).trim().to_string();
    // ---- packs: idx v2, idx v1, midx, bitmap ----
    git(&r, &["repack", "-q", "-a", "-d", "-b"]);
    let packdir = r.join(".git/objects/pack");
    let idx = one_file(&packdir, ".idx");
    add("pack-idx", "v2", read(&idx), false);
    let bitmap = read(one_file(&packdir, ".bitmap"));
    if bitmap.len() > 32 {
        add("ewah", "pack-bitmap", bitmap[32..].to_vec(), false);
    }
    let pack = one_file(&packdir, ".pack");
    add("pack-header", "pack", read(&pack)[..64.min(read(&pack).len())].to_vec(), false);
    if !quick {
    let v1dir = root.join("v1");
    let _ = std::fs::create_dir_all(&v1dir);
    let _ = std::fs::copy(&pack, v1dir.join("p.pack"));
    git(&r, &["index-pack", "--index-version=1", "-o", v1dir.join("p.idx").to_str().unwrap(), v1dir.join("p.pack").to_str().unwrap()]);
    add("pack-idx", "v1", read(v1dir.join("p.idx")), true);
    }
    // a second pack, then the multi-pack-index
    write(r.join("n"), b"n\n");
    git(&r, &["add", "n"]);
    git(&r, &["commit", "-q", "-m", "after repack"]);
    git(&r, &["repack", "-q", "-d"]);
    git(&r, &["multi-pack-index", "write"]);
    add("midx", "two-packs", read(packdir.join("multi-pack-index")), false);
    if !quick {
        git(&r, &["multi-pack-index", "write", "--bitmap"]);
        add("midx", "ridx", read(packdir.join("multi-pack-index")), true);
    }

    // ---- wire protocol samples straight from git upload-pack ----
    let adv0 = git(&r, &["upload-pack", "--advertise-refs", "."]);
    add("advertisement", "v0", adv0, false);
    let adv2 = git_env(&r, &[("GIT_PROTOCOL", "version=2")], &["upload-pack", "--advertise-refs", "."], None);
    add("advertisement", "v2", adv2, false);
    let head_now = String::from_utf8_lossy(&git(&r, &["rev-parse", "HEAD"])).trim().to_string();
    let mut req = pkt(b"command=ls-refs\n");
    req.extend_from_slice(b"0001");
    req.extend(pkt(b"peel\n"));
    req.extend(pkt(b"symrefs\n"));
    req.extend_from_slice(b"0000");
    let ls = git_env(&r, &[("GIT_PROTOCOL", "version=2")], &["upload-pack", "--stateless-rpc", "."], Some(&req));
    add("ls-refs", "v2", ls, false);
    let mut req = pkt(b"command=fetch\n");
    req.extend_from_slice(b"0001");
    req.extend(pkt(format!("want {head_now}\n").as_bytes()));
    req.extend(pkt(format!("have {head}\n").as_bytes()));
    req.extend(pkt(b"deepen 1\n"));
    req.extend(pkt(b"done\n"));
    req.extend_from_slice(b"0000");
    let resp = git_env(&r, &[("GIT_PROTOCOL", "version=2")], &["upload-pack", "--stateless-rpc", "."], Some(&req));
    // keep the sections and the first pack packet only (the rest is opaque pack data, irrelevant for the response parser)
    add("fetch-v2", "shallow+pack", resp[..resp.len().min(400)].to_vec(), false);
    let mut req = pkt(format!("want {head_now} multi_ack_detailed side-band-64k\n").as_bytes());
    req.extend_from_slice(b"0000");
    req.extend(pkt(format!("have {head}\n").as_bytes()));
    req.extend(pkt(b"done\n"));
    let resp1 = {
        let mut c = cmd(&r);
        c.args(["upload-pack", "--stateless-rpc", "."]);
        run_cmd(c, Some(&req))
    };
    if resp1.ok && !resp1.stdout.is_empty() {
        add("fetch-v1", "ack+pack", resp1.stdout[..resp1.stdout.len().min(300)].to_vec(), false);
    } else {
        let mut v = pkt(format!("ACK {head} common\n").as_bytes());
        v.extend(pkt(format!("ACK {head} ready\n").as_bytes()));
        v.extend(pkt(b"NAK\n"));
        v.extend(pkt(format!("ACK {head}\n").as_bytes()));
        v.extend(pkt(b"\x01PACK\0\0\0\x02\0\0\0\0"));
        add("fetch-v1", "ack+pack", v, false);
    }


            })();
        }
        seeds
    }));
    jobs.push(Box::new(|| {
        let mut seeds: Vec<Seed> = Vec::new();
        {
            #[allow(unused_mut, unused_variables)]
            let mut add = |format: &'static str, name: &str, bytes: Vec<u8>, thorough_only: bool| {
                if bytes.is_empty() {
                    vkit::machinery!("seed {format}/{name} is empty");
                }
                seeds.push(Seed { format, name: name.to_string(), bytes, thorough_only });
            };
            #[allow(unused_variables)]
            let mk = |name: &str| -> PathBuf { mk_repo(root, name) };
            (|| {
    // v3: extended flags (intent-to-add + skip-worktree)
    let d = mk("i3");
    write(d.join("ita"), b"x\n");
    git(&d, &["add", "-N", "ita"]);
    git(&d, &["update-index", "--skip-worktree", "a"]);
    add("index", "v3-extended", read(d.join(".git/index")), false);

            })();
        }
        seeds
    }));
    jobs.push(Box::new(|| {
        let mut seeds: Vec<Seed> = Vec::new();
        {
            #[allow(unused_mut, unused_variables)]
            let mut add = |format: &'static str, name: &str, bytes: Vec<u8>, thorough_only: bool| {
                if bytes.is_empty() {
                    vkit::machinery!("seed {format}/{name} is empty");
                }
                seeds.push(Seed { format, name: name.to_string(), bytes, thorough_only });
            };
            #[allow(unused_variables)]
            let mk = |name: &str| -> PathBuf { mk_repo(root, name) };
            (|| {
    // v4: prefix-compressed paths
    let d = mk("i4");
    git(&d, &["update-index", "--index-version", "4"]);
    add("index", "v4", read(d.join(".git/index")), false);

            })();
        }
        seeds
    }));
    jobs.push(Box::new(|| {
        let mut seeds: Vec<Seed> = Vec::new();
        {
            #[allow(unused_mut, unused_variables)]
            let mut add = |format: &'static str, name: &str, bytes: Vec<u8>, thorough_only: bool| {
                if bytes.is_empty() {
                    vkit::machinery!("seed {format}/{name} is empty");
                }
                seeds.push(Seed { format, name: name.to_string(), bytes, thorough_only });
            };
            #[allow(unused_variables)]
            let mk = |name: &str| -> PathBuf { mk_repo(root, name) };
            (|| {
    // REUC: resolved conflict
    let d = mk("ireuc");
    git(&d, &["checkout", "-q", "-b", "o"]);
    write(d.join("a"), b"theirs\n");
    git(&d, &["commit", "-q", "-a", "-m", "o"]);
    git(&d, &["checkout", "-q", "main"]);
    write(d.join("a"), b"ours\n");
    git(&d, &["commit", "-q", "-a", "-m", "m"]);
    let _ = vkit::git::try_git(&d, &["merge", "-q", "o"]);
    add("index", "v2-conflict-stages", read(d.join(".git/index")), true);
    write(d.join("a"), b"resolved\n");
    git(&d, &["add", "a"]);
    add("index", "v2-reuc", read(d.join(".git/index")), false);

            })();
        }
        seeds
    }));
    jobs.push(Box::new(|| {
        let mut seeds: Vec<Seed> = Vec::new();
        {
            #[allow(unused_mut, unused_variables)]
            let mut add = |format: &'static str, name: &str, bytes: Vec<u8>, thorough_only: bool| {
                if bytes.is_empty() {
                    vkit::machinery!("seed {format}/{name} is empty");
                }
                seeds.push(Seed { format, name: name.to_string(), bytes, thorough_only });
            };
            #[allow(unused_variables)]
            let mk = |name: &str| -> PathBuf { mk_repo(root, name) };
            (|| {
    // UNTR + EOIE + IEOT
    let d = mk("iuntr");
    write(d.join(".gitignore"), b"*.o\n");
    write(d.join("b/.gitignore"), b"x\n");
    write(d.join("u1"), b"u\n");
    write(d.join("b/u2"), b"u\n");
    write(d.join("e/f/u3"), b"u\n");
    write(d.join("un/tracked/x"), b"u\n");
    git(&d, &["config", "core.untrackedCache", "true"]);
    git(&d, &["config", "index.threads", "2"]);
    git_env(&d, &[("GIT_TEST_INDEX_THREADS", "2")], &["update-index", "--force-untracked-cache"], None);
    git_env(&d, &[("GIT_TEST_INDEX_THREADS", "2")], &["status", "--porcelain"], None);
    git_env(&d, &[("GIT_TEST_INDEX_THREADS", "2")], &["status", "--porcelain"], None);
    add("index", "v2-untr-eoie-ieot", read(d.join(".git/index")), false);
    if quick {
        return;
    }
    git_env(&d, &[("GIT_TEST_INDEX_THREADS", "2")], &["update-index", "--index-version", "4"], None);
    git_env(&d, &[("GIT_TEST_INDEX_THREADS", "2")], &["status", "--porcelain"], None);
    add("index", "v4-untr-eoie-ieot", read(d.join(".git/index")), true);

            })();
        }
        seeds
    }));
    jobs.push(Box::new(|| {
        if quick { return Vec::new(); }
        let mut seeds: Vec<Seed> = Vec::new();
        {
            #[allow(unused_mut, unused_variables)]
            let mut add = |format: &'static str, name: &str, bytes: Vec<u8>, thorough_only: bool| {
                if bytes.is_empty() {
                    vkit::machinery!("seed {format}/{name} is empty");
                }
                seeds.push(Seed { format, name: name.to_string(), bytes, thorough_only });
            };
            #[allow(unused_variables)]
            let mk = |name: &str| -> PathBuf { mk_repo(root, name) };
            (|| {
    // long path (name length field saturates at 0xfff)
    let d = mk("ilong");
    let blob = String::from_utf8_lossy(&git(&d, &["rev-parse", "HEAD:a"])).trim().to_string();
    let long: String = (0..41).map(|i| format!("{:0100}", i)).collect::<Vec<_>>().join("/");
    git(&d, &["update-index", "--add", "--cacheinfo", &format!("100644,{blob},{long}")]);
    add("index", "v2-path-0xfff", read(d.join(".git/index")), true);

            })();
        }
        seeds
    }));
    jobs.push(Box::new(|| {
        if quick { return Vec::new(); }
        let mut seeds: Vec<Seed> = Vec::new();
        {
            #[allow(unused_mut, unused_variables)]
            let mut add = |format: &'static str, name: &str, bytes: Vec<u8>, thorough_only: bool| {
                if bytes.is_empty() {
                    vkit::machinery!("seed {format}/{name} is empty");
                }
                seeds.push(Seed { format, name: name.to_string(), bytes, thorough_only });
            };
            #[allow(unused_variables)]
            let mk = |name: &str| -> PathBuf { mk_repo(root, name) };
            (|| {
    // sparse index (sparse directory entries + sdir extension)
    let d = mk("isparse");
    let sp = vkit::git::try_git(&d, &["sparse-checkout", "init", "--cone", "--sparse-index"]);
    if sp.ok {
        let _ = vkit::git::try_git(&d, &["sparse-checkout", "set", "b"]);
        add("index", "v3-sparse", read(d.join(".git/index")), true);
    }

            })();
        }
        seeds
    }));
    jobs.push(Box::new(|| {
        if quick { return Vec::new(); }
        let mut seeds: Vec<Seed> = Vec::new();
        {
            #[allow(unused_mut, unused_variables)]
            let mut add = |format: &'static str, name: &str, bytes: Vec<u8>, thorough_only: bool| {
                if bytes.is_empty() {
                    vkit::machinery!("seed {format}/{name} is empty");
                }
                seeds.push(Seed { format, name: name.to_string(), bytes, thorough_only });
            };
            #[allow(unused_variables)]
            let mk = |name: &str| -> PathBuf { mk_repo(root, name) };
            (|| {
    // split index (link extension)
    let d = mk("isplit");
    git(&d, &["update-index", "--split-index"]);
    write(d.join("a"), b"changed\n");
    write(d.join("new"), b"new\n");
    git(&d, &["add", "a", "new"]);

    if let Ok(rd) = std::fs::read_dir(d.join(".git")) {
        for e in rd.flatten() {
            let n = e.file_name().to_string_lossy().to_string();
            if n.starts_with("sharedindex.") {
                *shared.lock().unwrap() = Some((n, read(e.path())));
            }
        }
    }
    if shared.lock().unwrap().is_some() {
        add("index", "v2-link", read(d.join(".git/index")), true);
    }

            })();
        }
        seeds
    }));
    jobs.push(Box::new(|| {
        let mut seeds: Vec<Seed> = Vec::new();
        {
            #[allow(unused_mut, unused_variables)]
            let mut add = |format: &'static str, name: &str, bytes: Vec<u8>, thorough_only: bool| {
                if bytes.is_empty() {
                    vkit::machinery!("seed {format}/{name} is empty");
                }
                seeds.push(Seed { format, name: name.to_string(), bytes, thorough_only });
            };
            #[allow(unused_variables)]
            let mk = |name: &str| -> PathBuf { mk_repo(root, name) };
            (|| {
    // UNTR ewah bitmaps as stand-alone ewah seeds come from the pack bitmap above; add a hand-made one with a run + literals
    let mut e = Vec::new();
    e.extend_from_slice(&192u32.to_be_bytes()); // bits
    e.extend_from_slice(&3u32.to_be_bytes()); // words
    e.extend_from_slice(&(1u64 | (1 << 1) | (1u64 << 33)).to_be_bytes()); // run bit 1, run length 1 word, 1 literal word
    e.extend_from_slice(&0x8000_0000_0000_0001u64.to_be_bytes()); // the literal
    e.extend_from_slice(&(1u64 << 1).to_be_bytes()); // run bit 0, run length 1, no literal
    e.extend_from_slice(&2u32.to_be_bytes()); // position of the last rlw
    add("ewah", "hand-run+literal", e, false);

    // ---------------- text formats: small valid samples ----------------
    add("attributes", "sample", b"# comment\n*.txt text eol=lf -diff !merge\n[attr]binary -diff -merge -text\n\"quoted name\" binary\n/dir/**/x filter=lfs\n".to_vec(), false);
    add("ignore", "sample", b"# c\n*.o\n!keep.o\n/build/\ndir/**/x\n\\#literal\ntrailing\\ \n".to_vec(), false);
    add("mailmap", "sample", b"# c\nProper Name <proper@email> Commit Name <commit@email>\n<proper@email> <commit@email>\nName <commit@email>\n".to_vec(), false);
    add("config-text", "sample", b"[core]\n\tbare = false ; c\n[remote \"origin\"]\n\turl = a\\\n b\n\tfetch = +refs/heads/*:refs/remotes/origin/*\n[a.b]\n\tk\n\tq = \"x \\\"y\\\" \\n\" # c\n[include]\n\tpath = ./x\n".to_vec(), false);
    add("credentials", "sample", b"protocol=https\nhost=example.com:8080\npath=a/b.git\nusername=u\npassword=p\nurl=https://u:p@h/x\nquit=1\n".to_vec(), false);

            })();
        }
        seeds
    }));
    let results: Vec<std::thread::Result<Vec<Seed>>> = std::thread::scope(|s| {
        let hs: Vec<_> = jobs.into_iter().map(|j| s.spawn(j)).collect();
        hs.into_iter().map(|h| h.join()).collect()
    });
    let mut seeds = Vec::new();
    for r in results {
        match r {
            Ok(v) => seeds.extend(v),
            Err(p) => std::panic::resume_unwind(p),
        }
    }
    let shared_index = shared.lock().unwrap().take();
    Corpus { seeds, shared_index }
}
