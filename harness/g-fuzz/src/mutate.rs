//! Structure-aware mutations of a valid seed: truncation at every offset, four byte masks at every offset,
//! four extreme values in every aligned big-endian 32-bit field.
use serde::{Deserialize, Serialize};

#[derive(Serialize, Deserialize, Hash, Clone, Debug, PartialEq, Eq)]
pub enum Mutation {
    /// the unmodified seed (must parse: vacuity guard)
    None,
    /// keep the first `n` bytes
    Trunc(usize),
    /// byte at offset := value
    Byte(usize, u8),
    /// bytes at offset..offset+4 := value (big endian)
    U32(usize, u32),
}

pub fn apply(seed: &[u8], m: &Mutation) -> Vec<u8> {
    let mut v = seed.to_vec();
    match *m {
        Mutation::None => {}
        Mutation::Trunc(n) => v.truncate(n),
        Mutation::Byte(at, val) => {
            if at < v.len() {
                v[at] = val
            }
        }
        Mutation::U32(at, val) => {
            if at + 4 <= v.len() {
                v[at..at + 4].copy_from_slice(&val.to_be_bytes())
            }
        }
    }
    v
}

/// Every mutation of `seed`, simplest first. No-ops (mutation equal to the seed) are skipped.
/// `align`: offsets of 32-bit fields are multiples of 4 counted from `align_base` (0 for all binary formats here; text formats get every offset).
#[allow(dead_code)]
pub fn all(seed: &[u8], every_u32_offset: bool, mut f: impl FnMut(Mutation)) {
    f(Mutation::None);
    for n in 0..seed.len() {
        f(Mutation::Trunc(n));
    }
    for (at, &b) in seed.iter().enumerate() {
        let mut seen = [b, b, b, b];
        for (i, val) in [0x00u8, 0xff, b ^ 0x01, b ^ 0x80].into_iter().enumerate() {
            if val == b || seen[..i].contains(&val) {
                continue;
            }
            seen[i] = val;
            f(Mutation::Byte(at, val));
        }
    }
    let step = if every_u32_offset { 1 } else { 4 };
    let mut at = 0;
    while at + 4 <= seed.len() {
        let cur = u32::from_be_bytes(seed[at..at + 4].try_into().unwrap());
        for val in [0u32, 1, 0x7fff_ffff, 0xffff_ffff] {
            if val != cur {
                f(Mutation::U32(at, val));
            }
        }
        at += step;
    }
}
