mod alloc;
mod c06;
mod drivers;
mod mutate;
mod seeds;
use vkit::{Check, Level};

#[global_allocator]
static GLOBAL: alloc::Tracking = alloc::Tracking;

fn main() {
    vkit::main(&[Check { id: "C06", level: Level::Exploration, run: c06::run }]);
}
