//! C37 — ignore decisions (and the deciding pattern) agree with `git check-ignore -v -n --no-index` (E1: bounded-exhaustive configurations).
//!
//! One case = one configuration of the four ignore sources (+ core.ignoreCase). The evaluator materialises a worktree with a fixed
//! tree shape and the configured ignore files, asks git for every query path in one batch process, and asks the real
//! `gix_worktree::Stack` (ignore state, reading the same files from disk) for the same paths in two traversal orders.
use bstr::{BStr, ByteSlice};
use gix_worktree::stack::state::ignore::Source;
use serde::{Deserialize, Serialize};
use std::path::{Path, PathBuf};
use std::sync::atomic::{AtomicU64, Ordering};
use vkit::{bad, ok, ok_trivial, Run, Verdict, B};

pub struct NoOdb;
impl gix_object::Find for NoOdb {
    fn try_find<'a>(&self, _id: &gix_hash::oid, _buffer: &'a mut Vec<u8>) -> Result<Option<gix_object::Data<'a>>, gix_object::find::Error> {
        Ok(None)
    }
}

const DIRS: [&str; 5] = ["a", "a/b", "A", "c", "c/a"];
const FILES: [&str; 13] = ["a/a", "a/b/a", "a/b/b", "a/b/c", "a/A", "a/ab", "b", "ab", "!a", "A/a", "A/b", "c/a/b", "c/b"];
/// paths that do not exist in the worktree (type unknown to both sides)
const MISSING: [&str; 3] = ["x", "a/x", "c/x/a"];

const PATTERNS: [&str; 13] = ["a", "/a", "a/", "!a", "b", "!b", "a/b", "a/**", "**/b", "\\!a", "*", "A", "*b"];
/// indices into PATTERNS used for 3-line configurations (thorough): a, /a, a/, !a, b, !b, a/**, **/b, *
const K3_SUBSET: [usize; 9] = [0, 1, 2, 3, 4, 5, 7, 8, 10];
const SOURCE_NAMES: [&str; 4] = [".gitignore", "a/.gitignore", ".git/info/exclude", "core.excludesFile"];

#[derive(Serialize, Deserialize, Hash, Clone, Debug)]
struct IgnCase {
    ignore_case: bool,
    /// pattern lines of: root .gitignore, a/.gitignore, .git/info/exclude, the file named by core.excludesFile
    sources: [Vec<B>; 4],
}

#[derive(Clone, Debug, PartialEq, Eq)]
struct Hit {
    source: String,
    line: usize,
    negative: bool,
}

static QUERIES: AtomicU64 = AtomicU64::new(0);
static EXCLUDED: AtomicU64 = AtomicU64::new(0);
static NEGATIVE: AtomicU64 = AtomicU64::new(0);
static DOC_DEVIATION: AtomicU64 = AtomicU64::new(0);
static GIT_CALLS: AtomicU64 = AtomicU64::new(0);
static BELOW_EXCLUDED: AtomicU64 = AtomicU64::new(0);
static REINCLUDED: AtomicU64 = AtomicU64::new(0);

pub fn write(path: &Path, data: &[u8]) {
    if let Some(p) = path.parent() {
        std::fs::create_dir_all(p).unwrap_or_else(|e| vkit::machinery!("mkdir {}: {e}", p.display()));
    }
    std::fs::write(path, data).unwrap_or_else(|e| vkit::machinery!("write {}: {e}", path.display()));
}

/// A minimal repository (no `git init` process needed): HEAD + objects/ + refs/ + config.
pub fn skeleton_repo(wt: &Path) {
    let git = wt.join(".git");
    for d in ["objects", "refs/heads", "info"] {
        std::fs::create_dir_all(git.join(d)).unwrap_or_else(|e| vkit::machinery!("mkdir: {e}"));
    }
    write(&git.join("HEAD"), b"ref: refs/heads/main\n");
    write(&git.join("config"), b"[core]\n\trepositoryformatversion = 0\n\tfilemode = true\n\tbare = false\n");
}

pub fn lines(pats: &[B]) -> Vec<u8> {
    let mut v = Vec::new();
    for p in pats {
        v.extend_from_slice(p);
        v.push(b'\n');
    }
    v
}

fn query_paths() -> Vec<(&'static str, Option<bool>)> {
    let mut q: Vec<(&'static str, Option<bool>)> = Vec::new();
    q.extend(DIRS.iter().map(|d| (*d, Some(true))));
    q.extend(FILES.iter().map(|f| (*f, Some(false))));
    q.extend(MISSING.iter().map(|f| (*f, None)));
    q.sort();
    q
}

fn eval(c: &IgnCase) -> Verdict {
    let dir = vkit::scratch::Dir::new("c37");
    let wt = dir.join("wt");
    skeleton_repo(&wt);
    for d in DIRS {
        std::fs::create_dir_all(wt.join(d)).unwrap_or_else(|e| vkit::machinery!("mkdir: {e}"));
    }
    for f in FILES {
        write(&wt.join(f), b"");
    }
    let global: PathBuf = dir.join("global-excludes");
    let source_paths = [wt.join(".gitignore"), wt.join("a/.gitignore"), wt.join(".git/info/exclude"), global.clone()];
    for (i, pats) in c.sources.iter().enumerate() {
        if !pats.is_empty() {
            write(&source_paths[i], &lines(pats));
        }
    }
    let queries = query_paths();

    // ---- git ----
    let mut stdin = Vec::new();
    for (p, _) in &queries {
        stdin.extend_from_slice(p.as_bytes());
        stdin.push(0);
    }
    let mut args: Vec<String> = vec!["-c".into(), format!("core.ignoreCase={}", c.ignore_case)];
    if !c.sources[3].is_empty() {
        args.push("-c".into());
        args.push(format!("core.excludesFile={}", global.display()));
    }
    args.extend(["check-ignore", "-v", "-n", "--no-index", "-z", "--stdin"].iter().map(|s| s.to_string()));
    let out = vkit::git::try_git_in(&wt, &args, &stdin);
    GIT_CALLS.fetch_add(1, Ordering::Relaxed);
    if !(out.code == Some(0) || out.code == Some(1)) {
        vkit::machinery!("git check-ignore failed ({:?}): {}", out.code, out.err_text());
    }
    let fields: Vec<&[u8]> = out.stdout.split(|b| *b == 0).collect();
    if fields.len() != queries.len() * 4 + 1 {
        vkit::machinery!("git check-ignore printed {} fields for {} paths: {:?}", fields.len(), queries.len(), out.stdout.as_bstr());
    }
    let mut git: Vec<Option<Hit>> = Vec::new();
    for (i, (p, _)) in queries.iter().enumerate() {
        let f = &fields[i * 4..i * 4 + 4];
        if f[3] != p.as_bytes() {
            vkit::machinery!("git check-ignore answered for {:?}, expected {p:?}", f[3].as_bstr());
        }
        if f[0].is_empty() && f[1].is_empty() {
            git.push(None);
        } else {
            let src = f[0].to_str_lossy().into_owned();
            let source = if Path::new(&src) == global { SOURCE_NAMES[3].to_string() } else { src };
            let line: usize = f[1].to_str_lossy().parse().unwrap_or_else(|_| vkit::machinery!("bad line number {:?}", f[1].as_bstr()));
            git.push(Some(Hit { source, line, negative: f[2].first() == Some(&b'!') }));
        }
    }

    // ---- gitoxide ----
    let case = if c.ignore_case { gix_glob::pattern::Case::Fold } else { gix_glob::pattern::Case::Sensitive };
    let mut buf = Vec::new();
    let globals = match gix_ignore::Search::from_git_dir(&wt.join(".git"), (!c.sources[3].is_empty()).then(|| global.clone()), &mut buf) {
        Ok(g) => g,
        Err(e) => return bad("io", format!("Search::from_git_dir failed: {e}")),
    };
    let ignore = gix_worktree::stack::state::Ignore::new(Default::default(), globals, None, Source::WorktreeThenIdMappingIfNotSkipped);
    let mut stack = gix_worktree::Stack::new(&wt, gix_worktree::stack::State::IgnoreStack(ignore), case, buf, Vec::new());
    let ask = |stack: &mut gix_worktree::Stack, path: &str, is_dir: Option<bool>| -> Result<Option<Hit>, String> {
        let mode = is_dir.map(|d| if d { gix_index::entry::Mode::DIR } else { gix_index::entry::Mode::FILE });
        let rela: &BStr = path.into();
        let platform = stack.at_entry(rela, mode, &NoOdb).map_err(|e| format!("io: Stack::at_entry({path:?}) failed: {e}"))?;
        let m = platform.matching_exclude_pattern();
        let excluded = platform.is_excluded();
        let hit = m.map(|m| {
            let source = match m.source {
                Some(p) if p == global => SOURCE_NAMES[3].to_string(),
                Some(p) => p.strip_prefix(&wt).unwrap_or(p).to_string_lossy().into_owned(),
                None => "<none>".into(),
            };
            Hit { source, line: m.sequence_number, negative: m.pattern.is_negative() }
        });
        if excluded != hit.as_ref().map_or(false, |h| !h.negative) {
            return Err(format!("inconsistent: is_excluded()={excluded} but matching_exclude_pattern()={hit:?} for {path:?}"));
        }
        Ok(hit)
    };
    // order 1: sorted (the order an index walk produces); order 2: reverse (every step pops directories)
    let mut gix_sorted: Vec<Option<Hit>> = Vec::new();
    for (p, d) in &queries {
        gix_sorted.push(ask(&mut stack, p, *d)?);
    }
    let mut gix_rev: Vec<Option<Hit>> = vec![None; queries.len()];
    for (i, (p, d)) in queries.iter().enumerate().rev() {
        gix_rev[i] = ask(&mut stack, p, *d)?;
    }

    let describe = |h: &Option<Hit>| match h {
        None => "no match".to_string(),
        Some(h) => format!("{}{}:{}", if h.negative { "negative " } else { "" }, h.source, h.line),
    };
    let cfg = || {
        let mut s = format!("core.ignoreCase={}", c.ignore_case);
        for (i, pats) in c.sources.iter().enumerate() {
            if !pats.is_empty() {
                s.push_str(&format!(" {}={:?}", SOURCE_NAMES[i], pats.iter().map(|p| p.as_bstr().to_string()).collect::<Vec<_>>()));
            }
        }
        s
    };
    let (mut excluded, mut negative, mut deviations) = (0u64, 0u64, 0u64);
    let mut known_shape: Option<String> = None;
    for (order, gix) in [("sorted", &gix_sorted), ("reverse", &gix_rev)] {
        for (i, (p, d)) in queries.iter().enumerate() {
            let (g, x) = (&git[i], &gix[i]);
            if g == x {
                continue;
            }
            // Documented deviation (gix-worktree tests/worktree/stack/ignore.rs: "we provide negative patterns that matched on paths if
            // there was no other match, while git doesn't"): a negative pattern that matched an ancestor directory is reported for
            // the entries below it when nothing else matches them. The decision (not excluded) is the same.
            if g.is_none() && x.as_ref().map_or(false, |h| h.negative) {
                let from_ancestor = queries.iter().enumerate().any(|(j, (q, qd))| {
                    *qd == Some(true) && p.len() > q.len() && p.starts_with(q) && p.as_bytes()[q.len()] == b'/' && gix[j] == *x
                });
                if from_ancestor {
                    deviations += 1;
                    continue;
                }
            }
            let g_ex = g.as_ref().map_or(false, |h| !h.negative);
            let x_ex = x.as_ref().map_or(false, |h| !h.negative);
            let kind = match d {
                Some(true) => "directory",
                Some(false) => "file",
                None => "non-existing path",
            };
            // Open known finding (by design of gix-dir's precious-file handling): gitoxide lets the *innermost* matched parent
            // directory (or, below a re-included one, the path itself) decide, git the *outermost excluded* one. The shape is
            // recognised structurally: git reports an ancestor directory E as excluded, gitoxide agrees about E itself, git's
            // answer for the path is E's answer, and gitoxide's answer differs (it can only come from below E).
            let mut ancestors: Vec<usize> = queries
                .iter()
                .enumerate()
                .filter(|(_, (q, qd))| *qd == Some(true) && p.len() > q.len() && p.starts_with(q) && p.as_bytes()[q.len()] == b'/')
                .map(|(j, _)| j)
                .collect();
            ancestors.sort_by_key(|j| queries[*j].0.len());
            let outermost_excluded = ancestors.iter().copied().find(|j| git[*j].as_ref().map_or(false, |h| !h.negative));
            let below_excluded_parent = outermost_excluded.map_or(false, |e| gix[e] == git[e] && *g == git[e]);
            // one class for both faces of the same root cause: re-included (decision differs) / deeper pattern reported (same decision)
            let class = if below_excluded_parent {
                "innermost-match-below-excluded-parent"
            } else if g_ex != x_ex {
                "decision"
            } else {
                "pattern"
            };
            let face = match (below_excluded_parent, x_ex) {
                (true, false) => " [re-included below an excluded parent]",
                (true, true) => " [deeper pattern reported below an excluded parent]",
                _ => "",
            };
            let message = format!(
                "{class}:{face} {kind} {p:?} ({order} traversal) with {}: git check-ignore says {} ({}), gitoxide says {} ({})",
                cfg(),
                if g_ex { "ignored" } else { "not ignored" },
                describe(g),
                if x_ex { "ignored" } else { "not ignored" },
                describe(x)
            );
            if below_excluded_parent {
                // keep looking: any other kind of disagreement in this configuration must not be hidden by the known shape
                known_shape.get_or_insert(message);
                BELOW_EXCLUDED.fetch_add(1, Ordering::Relaxed);
                if !x_ex {
                    REINCLUDED.fetch_add(1, Ordering::Relaxed);
                }
                continue;
            }
            return Err(message);
        }
    }
    if let Some(message) = known_shape {
        return Err(message);
    }
    for g in &git {
        match g {
            Some(h) if h.negative => negative += 1,
            Some(_) => excluded += 1,
            None => {}
        }
    }
    QUERIES.fetch_add(queries.len() as u64 * 2, Ordering::Relaxed);
    EXCLUDED.fetch_add(excluded, Ordering::Relaxed);
    NEGATIVE.fetch_add(negative, Ordering::Relaxed);
    DOC_DEVIATION.fetch_add(deviations, Ordering::Relaxed);
    if excluded == 0 && negative == 0 {
        return ok_trivial("nothing-matches");
    }
    let mut class = String::new();
    if excluded > 0 {
        class.push_str(if excluded as usize >= queries.len() - 1 { "all-excluded" } else { "some-excluded" });
    }
    if negative > 0 {
        class.push_str("+negative-reported");
    }
    if deviations > 0 {
        class.push_str("+ancestor-negative(documented)");
    }
    let nsrc = c.sources.iter().filter(|s| !s.is_empty()).count();
    class.push_str(&format!("/{nsrc}src"));
    ok(class)
}

pub fn run(run: &'static Run) {
    let k3: Vec<&str> = K3_SUBSET.iter().map(|i| PATTERNS[*i]).collect();
    run.rule(format!(
        "worktree (fixed): dirs {DIRS:?}, files {FILES:?}; queried: all of these plus non-existing {MISSING:?}, each in sorted and in reverse order on one Stack. \
         ignore sources: root .gitignore, a/.gitignore, .git/info/exclude, core.excludesFile; every way to distribute k pattern lines (<=2 per source, order significant) \
         from {PATTERNS:?} over the four sources: quick k<=1 x core.ignoreCase {{false,true}}, k=2 with ignoreCase=false, k=2 with ignoreCase=true when `A` takes part; \
         thorough k<=2 x {{false,true}} plus k=3 with ignoreCase=false over {k3:?}. Compared per path: ignored or not, and the deciding (source file, line, negative?) \
         against `git check-ignore -v -n --no-index -z --stdin`. non-trivial = git reports at least one matching pattern for some path"
    ));
    run.assume("git 2.39.5 `check-ignore -v -n --no-index` as oracle; entry types (dir/file/unknown) come from the worktree for both sides");
    run.assume(
        "accepted documented deviation: when git reports no match and gitoxide reports a *negative* pattern that is the match of an ancestor directory \
         (gix-worktree's own baseline test tolerates exactly this); the ignored/not-ignored decision is identical there",
    );
    run.assume(
        "open known finding `innermost-match-below-excluded-parent`: gitoxide lets the innermost matched parent directory (or the path itself \
         below a re-included one) decide, git the outermost excluded one (.gitignore `a`,`!b`, path a/b/b: git ignored by line 1, gitoxide not ignored). gix-dir relies on this \
         to find precious/re-included files inside ignored directories; a repair was reverted (9f28a8ff9). Recognised structurally (git reports an ancestor directory as excluded, \
         gitoxide agrees about that directory, git's answer for the path is that directory's answer); every other disagreement in the same configuration is still reported first",
    );
    run.assume("pattern text is compared by (source, line, negated) — gitoxide's Display of `\\!a` drops the backslash, which is not part of the property");
    run.budget_secs(run.pick(300.0, 2400.0)); // ~2 s / ~15 s of work on an idle 16-core box (one git process per configuration); large headroom because the box is shared

    let pats: Vec<B> = PATTERNS.iter().map(|p| B::from(*p)).collect();
    run.sub_with(
        "check-ignore",
        vkit::Opts::default().chunk(256),
        |emit| {
            crate::c37::configurations(run.quick(), PATTERNS.len(), &K3_SUBSET, PATTERNS.iter().position(|p| *p == "A").unwrap(), &mut |ignore_case, placed| {
                let mut sources: [Vec<B>; 4] = Default::default();
                for (s, p) in placed {
                    sources[*s].push(pats[*p].clone());
                }
                emit(IgnCase { ignore_case, sources });
            });
        },
        eval,
    );
    if !run.is_replay() {
        run.cov("path_queries_compared", QUERIES.load(Ordering::Relaxed));
        run.cov("git_reported_excluded", EXCLUDED.load(Ordering::Relaxed));
        run.cov("git_reported_negative", NEGATIVE.load(Ordering::Relaxed));
        run.cov("documented_deviation_ancestor_negative", DOC_DEVIATION.load(Ordering::Relaxed));
        run.cov("oracle_calls_git", GIT_CALLS.load(Ordering::Relaxed));
        run.cov("answers_below_excluded_parent_differing", BELOW_EXCLUDED.load(Ordering::Relaxed));
        run.cov("answers_below_excluded_parent_with_different_decision", REINCLUDED.load(Ordering::Relaxed));
        run.require("some paths were excluded", EXCLUDED.load(Ordering::Relaxed) > 100);
        run.require("some negative patterns were reported", NEGATIVE.load(Ordering::Relaxed) > 10);
    }
}

/// The configuration space shared by C37 and C38: every way to place k lines (chosen from an alphabet of `n` lines) into 4 sources
/// (<= 2 per source, order within a source significant), x core.ignoreCase.
/// quick:    k<=1 (both case modes); k=2 case-sensitive, and k=2 with ignoreCase only when the case-probing line `upper_idx` takes part.
/// thorough: k<=2 (both case modes); k=3 case-sensitive over the sub-alphabet `k3_subset`.
pub fn configurations(quick: bool, n: usize, k3_subset: &[usize], upper_idx: usize, f: &mut dyn FnMut(bool, &[(usize, usize)])) {
    for k in 0..=3usize {
        if quick && k == 3 {
            break;
        }
        let alphabet: Vec<usize> = if k == 3 { k3_subset.to_vec() } else { (0..n).collect() };
        let mut src = vec![0usize; k];
        loop {
            let ok_src = src.windows(2).all(|w| w[0] <= w[1]) && (0..4).all(|s| src.iter().filter(|x| **x == s).count() <= 2);
            if ok_src {
                let mut li = vec![0usize; k];
                loop {
                    let placed: Vec<(usize, usize)> = src.iter().zip(&li).map(|(s, l)| (*s, alphabet[*l])).collect();
                    f(false, &placed);
                    let with_fold = match k {
                        0 | 1 => true,
                        2 => !quick || placed.iter().any(|(_, l)| *l == upper_idx),
                        _ => false,
                    };
                    if with_fold {
                        f(true, &placed);
                    }
                    if !incr(&mut li, alphabet.len()) {
                        break;
                    }
                }
            }
            if !incr(&mut src, 4) {
                break;
            }
        }
    }
}

/// odometer increment; false when wrapped around (or empty)
pub fn incr(v: &mut [usize], base: usize) -> bool {
    for i in (0..v.len()).rev() {
        v[i] += 1;
        if v[i] < base {
            return true;
        }
        v[i] = 0;
    }
    false
}
