//! C38 — attribute values agree with `git check-attr -a` (E1: bounded-exhaustive configurations of attribute files).
//!
//! One case = one configuration of the four attribute sources (+ core.ignoreCase). The evaluator writes the files, asks git for
//! every query path in one batch process (`check-attr -a -z --stdin`), and asks the real `gix_worktree::Stack` (attributes state,
//! reading the same files from disk) for the same paths in two traversal orders, with an all-attributes outcome and with an
//! explicit selection.
use crate::c37::{lines, skeleton_repo, write};
use bstr::{BStr, ByteSlice};
use gix_attributes::StateRef;
use serde::{Deserialize, Serialize};
use std::collections::BTreeMap;
use std::sync::atomic::{AtomicU64, Ordering};
use vkit::{bad, ok, ok_trivial, Run, Verdict, B};

const QUERIES: [&str; 10] = ["a", "b", "ab", "A", "a/a", "a/b", "a/ab", "a/b/a", "b/a", "c/a/b"];
const LINES: [&str; 15] = [
    "* x",
    "a -x",
    "a !x",
    "a x=v",
    "[attr]m x y",
    "[attr]m -x z",
    "a m",
    "a -m",
    "a binary",
    "a/** y",
    "a/b x -x",
    "*b y=1",
    "A z",
    // a macro that is given a *value* is not expanded by git (only a plain `macro` is)
    "a m=v",
    "a binary=yes",
];
/// indices into LINES used for 3-line configurations (thorough)
const K3_SUBSET: [usize; 9] = [0, 1, 2, 4, 5, 6, 7, 8, 10];
const SOURCE_NAMES: [&str; 4] = [".gitattributes", "a/.gitattributes", ".git/info/attributes", "core.attributesFile"];
const SELECTED: [&str; 8] = ["x", "y", "z", "m", "binary", "diff", "merge", "text"];

#[derive(Serialize, Deserialize, Hash, Clone, Debug)]
struct AttrCase {
    ignore_case: bool,
    /// lines of: root .gitattributes, a/.gitattributes, .git/info/attributes, the file named by core.attributesFile
    sources: [Vec<B>; 4],
}

type Attrs = BTreeMap<String, String>;

static PATHS: AtomicU64 = AtomicU64::new(0);
static VALUES: AtomicU64 = AtomicU64::new(0);
static MACRO_EXPANSIONS: AtomicU64 = AtomicU64::new(0);
static GIT_CALLS: AtomicU64 = AtomicU64::new(0);

fn state_text(s: StateRef<'_>) -> Option<String> {
    match s {
        StateRef::Set => Some("set".into()),
        StateRef::Unset => Some("unset".into()),
        StateRef::Value(v) => Some(v.as_bstr().to_string()),
        StateRef::Unspecified => None,
    }
}

fn eval(c: &AttrCase) -> Verdict {
    let dir = vkit::scratch::Dir::new("c38");
    let wt = dir.join("wt");
    skeleton_repo(&wt);
    for d in ["a/b", "b", "c/a"] {
        std::fs::create_dir_all(wt.join(d)).unwrap_or_else(|e| vkit::machinery!("mkdir: {e}"));
    }
    let global = dir.join("global-attributes");
    let source_paths = [wt.join(".gitattributes"), wt.join("a/.gitattributes"), wt.join(".git/info/attributes"), global.clone()];
    for (i, l) in c.sources.iter().enumerate() {
        if !l.is_empty() {
            write(&source_paths[i], &lines(l));
        }
    }

    // ---- git ----
    let mut stdin = Vec::new();
    for p in QUERIES {
        stdin.extend_from_slice(p.as_bytes());
        stdin.push(0);
    }
    let mut args: Vec<String> = vec!["-c".into(), format!("core.ignoreCase={}", c.ignore_case)];
    if !c.sources[3].is_empty() {
        args.push("-c".into());
        args.push(format!("core.attributesFile={}", global.display()));
    }
    args.extend(["check-attr", "-a", "-z", "--stdin"].iter().map(|s| s.to_string()));
    let out = vkit::git::try_git_in(&wt, &args, &stdin);
    GIT_CALLS.fetch_add(1, Ordering::Relaxed);
    if !out.ok {
        vkit::machinery!("git check-attr failed ({:?}): {}", out.code, out.err_text());
    }
    let fields: Vec<&[u8]> = out.stdout.split(|b| *b == 0).collect();
    if fields.len() % 3 != 1 {
        vkit::machinery!("git check-attr printed {} fields: {:?}", fields.len(), out.stdout.as_bstr());
    }
    let mut git: BTreeMap<&str, Attrs> = QUERIES.iter().map(|q| (*q, Attrs::new())).collect();
    for t in fields[..fields.len() - 1].chunks(3) {
        let path = t[0].to_str_lossy();
        let Some(slot) = git.get_mut(path.as_ref()) else { vkit::machinery!("git check-attr answered for unknown path {path:?}") };
        let info = t[2].to_str_lossy().into_owned();
        if info != "unspecified" {
            slot.insert(t[1].to_str_lossy().into_owned(), info);
        }
    }

    // ---- gitoxide ----
    let case = if c.ignore_case { gix_glob::pattern::Case::Fold } else { gix_glob::pattern::Case::Sensitive };
    let mut buf = Vec::new();
    let mut collection = gix_attributes::search::MetadataCollection::default();
    let globals = match gix_attributes::Search::new_globals((!c.sources[3].is_empty()).then(|| global.clone()), &mut buf, &mut collection) {
        Ok(g) => g,
        Err(e) => return bad("io", format!("Search::new_globals failed: {e}")),
    };
    let attrs = gix_worktree::stack::state::Attributes::new(
        globals,
        Some(wt.join(".git/info/attributes")),
        gix_worktree::stack::state::attributes::Source::WorktreeThenIdMapping,
        collection,
    );
    let mut stack = gix_worktree::Stack::new(&wt, gix_worktree::stack::State::AttributesStack(attrs), case, buf, Vec::new());
    let mut all = stack.attribute_matches();
    let cfg = || {
        let mut s = format!("core.ignoreCase={}", c.ignore_case);
        for (i, l) in c.sources.iter().enumerate() {
            if !l.is_empty() {
                s.push_str(&format!(" {}={:?}", SOURCE_NAMES[i], l.iter().map(|p| p.as_bstr().to_string()).collect::<Vec<_>>()));
            }
        }
        s
    };
    let order: Vec<usize> = (0..QUERIES.len()).chain((0..QUERIES.len()).rev()).collect();
    for (n, qi) in order.iter().enumerate() {
        let path = QUERIES[*qi];
        let traversal = if n < QUERIES.len() { "sorted" } else { "reverse" };
        let rela: &BStr = path.into();
        let expect = &git[path];
        // all attributes
        let platform = match stack.at_entry(rela, Some(gix_index::entry::Mode::FILE), &gix_object::find::Never) {
            Ok(p) => p,
            Err(e) => return bad("io", format!("Stack::at_entry({path:?}) failed: {e}")),
        };
        platform.matching_attributes(&mut all);
        let mut actual = Attrs::new();
        for m in all.iter() {
            if let Some(v) = state_text(m.assignment.state) {
                actual.insert(m.assignment.name.as_str().to_string(), v);
            }
        }
        if &actual != expect {
            return bad(
                "attributes",
                format!("path {path:?} ({traversal} traversal) with {}: git check-attr -a says {expect:?}, gitoxide says {actual:?}", cfg()),
            );
        }
        // explicit selection
        let mut selected = stack.selected_attribute_matches(SELECTED);
        let platform = match stack.at_entry(rela, Some(gix_index::entry::Mode::FILE), &gix_object::find::Never) {
            Ok(p) => p,
            Err(e) => return bad("io", format!("Stack::at_entry({path:?}) failed: {e}")),
        };
        platform.matching_attributes(&mut selected);
        let mut actual_sel = Attrs::new();
        let mut names = Vec::new();
        for m in selected.iter_selected() {
            names.push(m.assignment.name.as_str().to_string());
            if let Some(v) = state_text(m.assignment.state) {
                actual_sel.insert(m.assignment.name.as_str().to_string(), v);
            }
        }
        let expect_sel: Attrs = expect.iter().filter(|(k, _)| SELECTED.contains(&k.as_str())).map(|(k, v)| (k.clone(), v.clone())).collect();
        if names != SELECTED || actual_sel != expect_sel {
            return bad(
                "selected",
                format!(
                    "path {path:?} ({traversal} traversal) with {}: git check-attr says {expect_sel:?} for {SELECTED:?}, gitoxide's selection yields names {names:?} values {actual_sel:?}",
                    cfg()
                ),
            );
        }
    }
    let values: usize = git.values().map(|a| a.len()).sum();
    PATHS.fetch_add(2 * QUERIES.len() as u64, Ordering::Relaxed);
    VALUES.fetch_add(values as u64, Ordering::Relaxed);
    if values == 0 {
        return ok_trivial("nothing-specified");
    }
    let mut kinds: Vec<&str> = Vec::new();
    let has = |f: &dyn Fn(&str, &str) -> bool| git.values().any(|a| a.iter().any(|(k, v)| f(k, v)));
    if has(&|_, v| v == "set") {
        kinds.push("set");
    }
    if has(&|_, v| v == "unset") {
        kinds.push("unset");
    }
    if has(&|_, v| v != "set" && v != "unset") {
        kinds.push("value");
    }
    if has(&|k, v| (k == "m" || k == "binary") && v == "set") {
        kinds.push("macro-expanded");
        MACRO_EXPANSIONS.fetch_add(1, Ordering::Relaxed);
    }
    if has(&|k, v| (k == "m" || k == "binary") && v != "set") {
        kinds.push("macro-not-expanded");
    }
    ok(kinds.join("+"))
}

pub fn run(run: &'static Run) {
    let k3: Vec<&str> = K3_SUBSET.iter().map(|i| LINES[*i]).collect();
    run.rule(format!(
        "attribute sources: root .gitattributes, a/.gitattributes, .git/info/attributes, core.attributesFile; every way to distribute k lines (<=2 per source, order \
         significant) from {LINES:?} over the four sources: quick k<=1 x core.ignoreCase {{false,true}}, k=2 with ignoreCase=false, k=2 with ignoreCase=true when `A z` takes part; \
         thorough k<=2 x {{false,true}} plus k=3 with ignoreCase=false over {k3:?}. For each configuration every path of {QUERIES:?} is queried in sorted and reverse order \
         on one Stack, once collecting all attributes and once with the selection {SELECTED:?}; compared: the full name->value map (set/unset/value; unspecified = absent) against \
         `git check-attr -a -z --stdin`. non-trivial = git reports at least one specified attribute for some path"
    ));
    run.assume("git 2.39.5 `check-attr -a` as oracle; paths are queried as files (no trailing slash), as check-attr does for plain path arguments");
    run.assume("order of attributes in the output is not compared (gix-attributes documents a different iteration order)");
    run.budget_secs(run.pick(300.0, 2400.0)); // ~2 s / ~15 s of work on an idle 16-core box (one git process per configuration); large headroom because the box is shared

    let all_lines: Vec<B> = LINES.iter().map(|p| B::from(*p)).collect();
    run.sub_with(
        "check-attr",
        vkit::Opts::default().chunk(256),
        |emit| {
            crate::c37::configurations(run.quick(), LINES.len(), &K3_SUBSET, LINES.iter().position(|p| *p == "A z").unwrap(), &mut |ignore_case, placed| {
                let mut sources: [Vec<B>; 4] = Default::default();
                for (s, l) in placed {
                    sources[*s].push(all_lines[*l].clone());
                }
                emit(AttrCase { ignore_case, sources });
            });
        },
        eval,
    );
    if !run.is_replay() {
        run.cov("path_queries_compared", PATHS.load(Ordering::Relaxed));
        run.cov("git_reported_values", VALUES.load(Ordering::Relaxed));
        run.cov("configurations_with_macro_expansion", MACRO_EXPANSIONS.load(Ordering::Relaxed));
        run.cov("oracle_calls_git", GIT_CALLS.load(Ordering::Relaxed));
        run.require("some attribute values were reported", VALUES.load(Ordering::Relaxed) > 100);
        run.require("some macros were expanded", MACRO_EXPANSIONS.load(Ordering::Relaxed) > 10);
    }
}
