mod c36;
use vkit::{Check, Level};
fn main() {
    let checks: &[Check] = &[Check { id: "C36", level: Level::Exploration, run: c36::run }];
    vkit::main(checks);
}
