mod c36;
mod c37;
mod c38;
mod c39;
use vkit::{Check, Level};
fn main() {
    let checks: &[Check] = &[
        Check { id: "C36", level: Level::Exploration, run: c36::run },
        Check { id: "C37", level: Level::Exploration, run: c37::run },
        Check { id: "C38", level: Level::Exploration, run: c38::run },
        Check { id: "C39", level: Level::Exploration, run: c39::run },
    ];
    vkit::main(checks);
}
