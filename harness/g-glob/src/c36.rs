//! C36 — gix_glob::wildmatch / Pattern::matches agree with git's wildmatch.c (E1: bounded-exhaustive patterns x texts x modes).
//!
//! Oracle: `dowild()` below, a line-by-line transcription of git 2.39.5 `wildmatch.c:dowild()`; the transcription itself is bound
//! to the git binary by the `git-bind` sub-check (`git ls-files -- [:(glob|icase)]<pattern>` over index fixtures holding every
//! text that is a valid index path).
use bstr::ByteSlice;
use gix_glob::wildmatch::Mode;
use serde::{Deserialize, Serialize};
use std::sync::atomic::{AtomicU64, Ordering};
use std::sync::OnceLock;
use vkit::{bad, enumerate, ok, ok_trivial, Run, Verdict, B};

// ---------------------------------------------------------------------------------------------------------------------
// transcription of git's wildmatch.c (v2.39.5). Pointers become indices; reading at/after the end yields NUL like a C string.
// ---------------------------------------------------------------------------------------------------------------------
pub const WM_CASEFOLD: u32 = 1;
pub const WM_PATHNAME: u32 = 2;
pub const WM_NOMATCH: i32 = 1;
pub const WM_MATCH: i32 = 0;
pub const WM_ABORT_ALL: i32 = -1;
pub const WM_ABORT_TO_STARSTAR: i32 = -2;

// git's sane_ctype (ASCII only)
fn isupper(c: u8) -> bool {
    c.is_ascii_uppercase()
}
fn islower(c: u8) -> bool {
    c.is_ascii_lowercase()
}
fn isspace(c: u8) -> bool {
    matches!(c, b' ' | b'\t' | b'\n' | b'\r')
}
fn isprint(c: u8) -> bool {
    (0x20..=0x7e).contains(&c)
}
fn is_glob_special(c: u8) -> bool {
    matches!(c, b'*' | b'?' | b'[' | b'\\')
}
fn at(s: &[u8], i: usize) -> u8 {
    s.get(i).copied().unwrap_or(0)
}

pub fn dowild(pat: &[u8], mut p: usize, text: &[u8], mut t: usize, flags: u32) -> i32 {
    let casefold = flags & WM_CASEFOLD != 0;
    let pathname = flags & WM_PATHNAME != 0;
    // for ( ; (p_ch = *p) != '\0'; text++, p++)
    loop {
        let mut p_ch = at(pat, p);
        if p_ch == 0 {
            break;
        }
        let mut t_ch = at(text, t);
        if t_ch == 0 && p_ch != b'*' {
            return WM_ABORT_ALL;
        }
        if casefold && isupper(t_ch) {
            t_ch = t_ch.to_ascii_lowercase();
        }
        if casefold && isupper(p_ch) {
            p_ch = p_ch.to_ascii_lowercase();
        }
        // leaving this block == C `continue` / `break` out of the switch (both run `text++, p++`)
        'sw: {
            match p_ch {
                b'?' => {
                    if pathname && t_ch == b'/' {
                        return WM_NOMATCH;
                    }
                    break 'sw;
                }
                b'*' => {
                    let match_slash;
                    p += 1;
                    if at(pat, p) == b'*' {
                        let prev_p = p as isize - 2;
                        loop {
                            p += 1;
                            if at(pat, p) != b'*' {
                                break;
                            }
                        }
                        if !pathname {
                            match_slash = true;
                        } else if (prev_p < 0 || pat[prev_p as usize] == b'/')
                            && (at(pat, p) == 0 || at(pat, p) == b'/' || (at(pat, p) == b'\\' && at(pat, p + 1) == b'/'))
                        {
                            if at(pat, p) == b'/' && dowild(pat, p + 1, text, t, flags) == WM_MATCH {
                                return WM_MATCH;
                            }
                            match_slash = true;
                        } else {
                            match_slash = false;
                        }
                    } else {
                        match_slash = !pathname;
                    }
                    if at(pat, p) == 0 {
                        if !match_slash && text[t.min(text.len())..].contains(&b'/') {
                            return WM_NOMATCH;
                        }
                        return WM_MATCH;
                    } else if !match_slash && at(pat, p) == b'/' {
                        match text[t.min(text.len())..].find_byte(b'/') {
                            None => return WM_NOMATCH,
                            Some(d) => t += d,
                        }
                        break 'sw;
                    }
                    loop {
                        if t_ch == 0 {
                            break;
                        }
                        if !is_glob_special(at(pat, p)) {
                            p_ch = at(pat, p);
                            if casefold && isupper(p_ch) {
                                p_ch = p_ch.to_ascii_lowercase();
                            }
                            loop {
                                t_ch = at(text, t);
                                if !(t_ch != 0 && (match_slash || t_ch != b'/')) {
                                    break;
                                }
                                if casefold && isupper(t_ch) {
                                    t_ch = t_ch.to_ascii_lowercase();
                                }
                                if t_ch == p_ch {
                                    break;
                                }
                                t += 1;
                            }
                            if t_ch != p_ch {
                                return WM_NOMATCH;
                            }
                        }
                        let matched = dowild(pat, p, text, t, flags);
                        if matched != WM_NOMATCH {
                            if !match_slash || matched != WM_ABORT_TO_STARSTAR {
                                return matched;
                            }
                        } else if !match_slash && t_ch == b'/' {
                            return WM_ABORT_TO_STARSTAR;
                        }
                        t += 1;
                        t_ch = at(text, t);
                    }
                    return WM_ABORT_ALL;
                }
                b'[' => {
                    p += 1;
                    p_ch = at(pat, p);
                    if p_ch == b'^' {
                        p_ch = b'!';
                    }
                    let negated = p_ch == b'!';
                    if negated {
                        p += 1;
                        p_ch = at(pat, p);
                    }
                    let mut prev_ch: u8 = 0;
                    let mut matched = false;
                    // do { ... } while (prev_ch = p_ch, (p_ch = *++p) != ']');
                    loop {
                        if p_ch == 0 {
                            return WM_ABORT_ALL;
                        }
                        'body: {
                            if p_ch == b'\\' {
                                p += 1;
                                p_ch = at(pat, p);
                                if p_ch == 0 {
                                    return WM_ABORT_ALL;
                                }
                                if t_ch == p_ch {
                                    matched = true;
                                }
                            } else if p_ch == b'-' && prev_ch != 0 && at(pat, p + 1) != 0 && at(pat, p + 1) != b']' {
                                p += 1;
                                p_ch = at(pat, p);
                                if p_ch == b'\\' {
                                    p += 1;
                                    p_ch = at(pat, p);
                                    if p_ch == 0 {
                                        return WM_ABORT_ALL;
                                    }
                                }
                                if t_ch <= p_ch && t_ch >= prev_ch {
                                    matched = true;
                                } else if casefold && islower(t_ch) {
                                    let t_ch_upper = t_ch.to_ascii_uppercase();
                                    if t_ch_upper <= p_ch && t_ch_upper >= prev_ch {
                                        matched = true;
                                    }
                                }
                                p_ch = 0; // This makes "prev_ch" get set to 0.
                            } else if p_ch == b'[' && at(pat, p + 1) == b':' {
                                p += 2;
                                let s = p;
                                loop {
                                    p_ch = at(pat, p);
                                    if p_ch == 0 || p_ch == b']' {
                                        break;
                                    }
                                    p += 1;
                                }
                                if p_ch == 0 {
                                    return WM_ABORT_ALL;
                                }
                                let i = p as isize - s as isize - 1;
                                if i < 0 || pat[p - 1] != b':' {
                                    // Didn't find ":]", so treat like a normal set.
                                    p = s - 2;
                                    p_ch = b'[';
                                    if t_ch == p_ch {
                                        matched = true;
                                    }
                                    break 'body; // C `continue` of the do-while: goes to the loop condition
                                }
                                let class = &pat[s..s + i as usize];
                                let hit = match class {
                                    b"alnum" => t_ch.is_ascii_alphanumeric(),
                                    b"alpha" => t_ch.is_ascii_alphabetic(),
                                    b"blank" => t_ch == b' ' || t_ch == b'\t',
                                    b"cntrl" => t_ch < 0x20 || t_ch == 0x7f,
                                    b"digit" => t_ch.is_ascii_digit(),
                                    b"graph" => isprint(t_ch) && !isspace(t_ch),
                                    b"lower" => islower(t_ch),
                                    b"print" => isprint(t_ch),
                                    b"punct" => t_ch.is_ascii_punctuation(),
                                    b"space" => isspace(t_ch),
                                    b"upper" => isupper(t_ch) || (casefold && islower(t_ch)),
                                    b"xdigit" => t_ch.is_ascii_hexdigit(),
                                    _ => return WM_ABORT_ALL, // malformed [:class:] string
                                };
                                if hit {
                                    matched = true;
                                }
                                p_ch = 0; // This makes "prev_ch" get set to 0.
                            } else if t_ch == p_ch {
                                matched = true;
                            }
                        }
                        prev_ch = p_ch;
                        p += 1;
                        p_ch = at(pat, p);
                        if p_ch == b']' {
                            break;
                        }
                    }
                    if matched == negated || (pathname && t_ch == b'/') {
                        return WM_NOMATCH;
                    }
                    break 'sw;
                }
                _ => {
                    if p_ch == b'\\' {
                        // Literal match with following character (p[1] == '\0' fails in the comparison below).
                        p += 1;
                        p_ch = at(pat, p);
                    }
                    if t_ch != p_ch {
                        return WM_NOMATCH;
                    }
                    break 'sw;
                }
            }
        }
        t += 1;
        p += 1;
    }
    if at(text, t) != 0 {
        WM_NOMATCH
    } else {
        WM_MATCH
    }
}

pub fn git_wildmatch(pattern: &[u8], text: &[u8], flags: u32) -> bool {
    dowild(pattern, 0, text, 0, flags) == WM_MATCH
}

// ---------------------------------------------------------------------------------------------------------------------

const PAT_TOKENS: [&[u8]; 15] =
    [b"a", b"b", b"A", b"/", b"*", b"**", b"?", b"[ab]", b"[!a]", b"[a-b]", b"[[:alpha:]]", b"[[:upper:]]", b"\\", b"[", b"]"];
const TEXT_CHARS: [&[u8]; 5] = [b"a", b"b", b"/", b"A", b"."];

fn texts() -> &'static Vec<Vec<u8>> {
    static T: OnceLock<Vec<Vec<u8>>> = OnceLock::new();
    T.get_or_init(|| {
        let mut v = Vec::new();
        enumerate::strings(&TEXT_CHARS, 0, 4, |s| v.push(s.to_vec()));
        v
    })
}

fn gix_mode(m: u8) -> Mode {
    let mut mode = Mode::empty();
    if m & 1 != 0 {
        mode |= Mode::NO_MATCH_SLASH_LITERAL;
    }
    if m & 2 != 0 {
        mode |= Mode::IGNORE_CASE;
    }
    mode
}
fn git_flags(m: u8) -> u32 {
    (if m & 1 != 0 { WM_PATHNAME } else { 0 }) | (if m & 2 != 0 { WM_CASEFOLD } else { 0 })
}
fn mode_name(m: u8) -> &'static str {
    ["none", "NO_MATCH_SLASH_LITERAL", "IGNORE_CASE", "NO_MATCH_SLASH_LITERAL|IGNORE_CASE"][m as usize]
}

/// Index of the `]` that closes the bracket expression opened at `pat[open] == b'['`, found the way dowild() scans it
/// (None: unterminated or malformed class, dowild() returns WM_ABORT_ALL for every text).
fn bracket_end(pat: &[u8], open: usize) -> Option<usize> {
    let mut p = open + 1;
    let mut p_ch = at(pat, p);
    if p_ch == b'^' || p_ch == b'!' {
        p += 1;
        p_ch = at(pat, p);
    }
    let mut prev_ch = 0u8;
    loop {
        if p_ch == 0 {
            return None;
        }
        'body: {
            if p_ch == b'\\' {
                p += 1;
                p_ch = at(pat, p);
                if p_ch == 0 {
                    return None;
                }
            } else if p_ch == b'-' && prev_ch != 0 && at(pat, p + 1) != 0 && at(pat, p + 1) != b']' {
                p += 1;
                p_ch = at(pat, p);
                if p_ch == b'\\' {
                    p += 1;
                    p_ch = at(pat, p);
                    if p_ch == 0 {
                        return None;
                    }
                }
                p_ch = 0;
            } else if p_ch == b'[' && at(pat, p + 1) == b':' {
                p += 2;
                let s = p;
                loop {
                    p_ch = at(pat, p);
                    if p_ch == 0 || p_ch == b']' {
                        break;
                    }
                    p += 1;
                }
                if p_ch == 0 {
                    return None;
                }
                let i = p as isize - s as isize - 1;
                if i < 0 || pat[p - 1] != b':' {
                    p = s - 2;
                    p_ch = b'[';
                    break 'body;
                }
                p_ch = 0;
            }
        }
        prev_ch = p_ch;
        p += 1;
        p_ch = at(pat, p);
        if p_ch == b']' {
            return Some(p);
        }
    }
}

/// git folds only the first byte of each pattern token: an upper-case letter inside a bracket expression or after a backslash is
/// compared unfolded against the folded text byte and so can never match under WM_CASEFOLD. gitoxide folds the whole pattern.
fn has_unfolded_upper(pat: &[u8]) -> bool {
    let mut i = 0;
    while i < pat.len() {
        match pat[i] {
            b'\\' => {
                if at(pat, i + 1).is_ascii_uppercase() {
                    return true;
                }
                i += 2;
            }
            b'[' => match bracket_end(pat, i) {
                None => return false, // never matches anything from here on, in any mode
                Some(end) => {
                    if pat[i..end].iter().any(u8::is_ascii_uppercase) {
                        return true;
                    }
                    i = end + 1;
                }
            },
            _ => i += 1,
        }
    }
    false
}

#[derive(Serialize, Deserialize, Hash, Clone, Debug)]
struct PatCase {
    pattern: B,
}

#[derive(Serialize, Deserialize, Hash, Clone, Debug)]
struct BindCase {
    pattern: B,
    glob: bool,
    icase: bool,
}

static TRIPLES: AtomicU64 = AtomicU64::new(0);
static MATCHES: AtomicU64 = AtomicU64::new(0);
static SHORTCUT_TRIPLES: AtomicU64 = AtomicU64::new(0);
static VALIDATED: AtomicU64 = AtomicU64::new(0);
static VALIDATED_MATCH: AtomicU64 = AtomicU64::new(0);
static GIT_CALLS: AtomicU64 = AtomicU64::new(0);

fn features(p: &[u8]) -> String {
    let mut f = Vec::new();
    if p.find(b"**").is_some() {
        f.push("starstar");
    } else if p.contains(&b'*') {
        f.push("star");
    }
    if p.contains(&b'?') {
        f.push("qmark");
    }
    if p.contains(&b'[') {
        f.push("bracket");
    }
    if p.contains(&b'\\') {
        f.push("escape");
    }
    if f.is_empty() {
        f.push("literal");
    }
    f.join("+")
}

/// is `t` acceptable as an index path?
fn valid_path(t: &[u8]) -> bool {
    !t.is_empty() && t.split(|c| *c == b'/').all(|c| !c.is_empty() && c != b"." && c != b"..")
}

pub fn run(run: &'static Run) {
    run.rule(
        "patterns: every concatenation of <=4 (quick) / <=5 (thorough) tokens from {a,b,A,/,*,**,?,[ab],[!a],[a-b],[[:alpha:]],[[:upper:]],\\,[,]} \
         (so unterminated/odd brackets, escapes of every token head, *** runs arise); texts: every string of <=4 bytes over {a,b,/,A,.}; \
         modes: {none, NO_MATCH_SLASH_LITERAL, IGNORE_CASE, both}. Each (pattern,text,mode) triple is decided by gix_glob::wildmatch and by \
         Pattern::from_bytes_without_negation(pattern).matches() (the literal-prefix / ends-with shortcuts; oracle applied to Pattern.text) and \
         compared with the transcription of git's dowild(). One case = one pattern (3124 triples). non-trivial = the pattern contains a glob \
         special and, in some mode, matches at least one text and rejects at least one",
    );
    run.assume("oracle = Rust transcription of wildmatch.c:dowild() of git 2.39.5; bound to the git binary by sub-check git-bind");
    run.assume(
        "git-bind: git ls-files from the repository root with [:(glob)][:(icase)] pathspecs calls wildmatch(pattern+nowildcard_len, name+nowildcard_len, \
         [WM_PATHNAME]|[WM_CASEFOLD]) after comparing the literal prefix (dir.c:git_fnmatch); the model mirrors exactly that. Only texts that are \
         valid index paths and patterns without leading '/' or '//' (pathspec normalisation would rewrite/refuse them) and with >=1 glob special can be bound",
    );
    run.assume(
        "excluded from the domain: IGNORE_CASE triples where the pattern has an upper-case letter inside a bracket expression or after a backslash. \
         git folds only the first byte of a pattern token, so there `[A]`/`\\A` match neither `a` nor `A` (a git quirk); gitoxide folds the whole pattern by design",
    );
    run.budget_secs(run.pick(40.0, 600.0));
    let texts = texts();

    // ---- bind the transcription to git ----
    let f1 = vkit::scratch::Dir::new("c36f1");
    let f2 = vkit::scratch::Dir::new("c36f2");
    let mut names1: Vec<&[u8]> = Vec::new();
    let mut names2: Vec<&[u8]> = Vec::new();
    for t in texts.iter().filter(|t| valid_path(t)) {
        if t.contains(&b'/') {
            names2.push(t);
        } else {
            names1.push(t);
        }
    }
    for (dir, names) in [(&f1, &names1), (&f2, &names2)] {
        vkit::git::init(dir.path());
        let mut input = Vec::new();
        for n in names.iter() {
            input.extend_from_slice(b"100644 e69de29bb2d1d6434b8b29ae775ad8c2e48c5391 0\t");
            input.extend_from_slice(n);
            input.push(0);
        }
        vkit::git::git_in(dir.path(), &["update-index", "-z", "--index-info"], &input);
        let listed = vkit::git::git(dir.path(), &["ls-files", "-z"]);
        let n = listed.split(|c| *c == 0).filter(|s| !s.is_empty()).count();
        if n != names.len() {
            vkit::machinery!("index fixture holds {n} paths, expected {}", names.len());
        }
    }
    run.cov("bind_fixture_paths", names1.len() + names2.len());

    let bind_tokens = run.pick(3, 4);
    run.sub_with(
        "git-bind",
        vkit::Opts::default().chunk(2048),
        |emit| {
            enumerate::strings(&PAT_TOKENS, 1, bind_tokens, |p| {
                if p[0] == b'/' || p.find(b"//").is_some() || !p.iter().any(|c| is_glob_special(*c)) {
                    return;
                }
                for m in 0..4u8 {
                    emit(BindCase { pattern: B(p.to_vec()), glob: m & 1 != 0, icase: m & 2 != 0 });
                }
            });
        },
        |c: &BindCase| -> Verdict {
            let mut spec = Vec::new();
            match (c.glob, c.icase) {
                (false, false) => {}
                (true, false) => spec.extend_from_slice(b":(glob)"),
                (false, true) => spec.extend_from_slice(b":(icase)"),
                (true, true) => spec.extend_from_slice(b":(glob,icase)"),
            }
            spec.extend_from_slice(&c.pattern);
            let spec = match std::str::from_utf8(&spec) {
                Ok(s) => s.to_owned(),
                Err(_) => vkit::machinery!("non-utf8 pattern"),
            };
            let flags = (if c.glob { WM_PATHNAME } else { 0 }) | (if c.icase { WM_CASEFOLD } else { 0 });
            let n = c.pattern.iter().position(|b| is_glob_special(*b)).unwrap_or(c.pattern.len());
            let mut any = false;
            let mut validated = 0u64;
            for (dir, names) in [(&f1, &names1), (&f2, &names2)] {
                let out = vkit::git::try_git(dir.path(), &["ls-files", "-z", "--", spec.as_str()]);
                GIT_CALLS.fetch_add(1, Ordering::Relaxed);
                if !out.ok {
                    vkit::machinery!("git ls-files -- {spec:?} failed: {}", out.err_text());
                }
                let listed: std::collections::HashSet<&[u8]> = out.stdout.split(|b| *b == 0).filter(|s| !s.is_empty()).collect();
                for name in names.iter() {
                    let prefix_ok = name.len() >= n
                        && if c.icase { name[..n].eq_ignore_ascii_case(&c.pattern[..n]) } else { name[..n] == c.pattern[..n] };
                    let model = prefix_ok && git_wildmatch(&c.pattern[n..], &name[n..], flags);
                    let git = listed.contains(name);
                    if model != git {
                        vkit::machinery!(
                            "transcription of dowild() disagrees with git: ls-files -- {spec:?} {} {:?}, transcription says {}",
                            if git { "lists" } else { "does not list" },
                            name.as_bstr(),
                            model
                        );
                    }
                    validated += 1;
                    if git {
                        any = true;
                        VALIDATED_MATCH.fetch_add(1, Ordering::Relaxed);
                    }
                }
            }
            VALIDATED.fetch_add(validated, Ordering::Relaxed);
            if any {
                ok(format!("bind:{}", features(&c.pattern)))
            } else {
                ok_trivial("bind:lists-nothing")
            }
        },
    );
    drop((f1, f2));

    // ---- gitoxide vs transcription ----
    let max_tokens = run.pick(4, 5);
    run.sub_with(
        "wildmatch",
        vkit::Opts::default().chunk(4096),
        |emit| {
            enumerate::strings(&PAT_TOKENS, 0, max_tokens, |p| emit(PatCase { pattern: B(p.to_vec()) }));
        },
        |c: &PatCase| -> Verdict {
            let pat: &[u8] = &c.pattern;
            let parsed = gix_glob::Pattern::from_bytes_without_negation(pat);
            let quirk = has_unfolded_upper(pat);
            let mut discriminates = false;
            let mut triples = 0u64;
            let mut matches = 0u64;
            let mut shortcut = 0u64;
            for m in 0..4u8 {
                if m & 2 != 0 && quirk {
                    continue;
                }
                let (mode, flags) = (gix_mode(m), git_flags(m));
                let (mut yes, mut no) = (0u32, 0u32);
                for text in texts.iter() {
                    let expect = git_wildmatch(pat, text, flags);
                    let actual = gix_glob::wildmatch(pat.as_bstr(), text.as_bstr(), mode);
                    triples += 1;
                    if expect != actual {
                        return bad(
                            "wildmatch",
                            format!(
                                "pattern {:?} text {:?} mode {}: git's wildmatch says {}, gix_glob::wildmatch says {}",
                                pat.as_bstr(),
                                text.as_bstr(),
                                mode_name(m),
                                expect,
                                actual
                            ),
                        );
                    }
                    if expect {
                        yes += 1;
                    } else {
                        no += 1;
                    }
                    if let Some(parsed) = &parsed {
                        let ptext: &[u8] = parsed.text.as_ref();
                        let expect = if ptext == pat { expect } else { git_wildmatch(ptext, text, flags) };
                        let actual = parsed.matches(text.as_bstr(), mode);
                        shortcut += 1;
                        if expect != actual {
                            return bad(
                                "pattern-matches",
                                format!(
                                    "Pattern {:?} (text {:?}, mode {:?}, first_wildcard_pos {:?}) value {:?} mode {}: git's wildmatch says {}, Pattern::matches says {}",
                                    pat.as_bstr(),
                                    parsed.text,
                                    parsed.mode,
                                    parsed.first_wildcard_pos,
                                    text.as_bstr(),
                                    mode_name(m),
                                    expect,
                                    actual
                                ),
                            );
                        }
                    }
                }
                matches += yes as u64;
                if yes > 0 && no > 0 {
                    discriminates = true;
                }
            }
            TRIPLES.fetch_add(triples, Ordering::Relaxed);
            MATCHES.fetch_add(matches, Ordering::Relaxed);
            SHORTCUT_TRIPLES.fetch_add(shortcut, Ordering::Relaxed);
            let special = pat.iter().any(|b| is_glob_special(*b));
            if !discriminates {
                ok_trivial(if matches == 0 { "matches-nothing" } else { "matches-everything" })
            } else if !special {
                ok_trivial("literal")
            } else if quirk {
                ok(format!("{}(icase-excluded)", features(pat)))
            } else {
                ok(features(pat))
            }
        },
    );

    if !run.is_replay() {
        run.cov("pattern_text_mode_triples", TRIPLES.load(Ordering::Relaxed));
        run.cov("triples_matching", MATCHES.load(Ordering::Relaxed));
        run.cov("pattern_matches_shortcut_triples", SHORTCUT_TRIPLES.load(Ordering::Relaxed));
        run.cov("transcription_answers_validated_against_git", VALIDATED.load(Ordering::Relaxed));
        run.cov("transcription_answers_validated_matching", VALIDATED_MATCH.load(Ordering::Relaxed));
        run.cov("oracle_calls_git", GIT_CALLS.load(Ordering::Relaxed));
        run.require("transcription was validated against git", VALIDATED.load(Ordering::Relaxed) > 100_000);
        run.require("validated answers include matches", VALIDATED_MATCH.load(Ordering::Relaxed) > 1000);
        run.require("some triples match", MATCHES.load(Ordering::Relaxed) > 1000);
    }
}
