//! C36 — gix_glob::wildmatch / Pattern::matches agree with git's wildmatch.c (E1: bounded-exhaustive patterns x texts x modes).
//!
//! Oracle: `dowild()` below, a line-by-line transcription of git 2.39.5 `wildmatch.c:dowild()`; the transcription itself is bound
//! to the git binary by the `git-bind` sub-check (`git ls-files -- [:(glob|icase)]<pattern>` over index fixtures holding every
//! text that is a valid index path).
use bstr::ByteSlice;
use gix_glob::wildmatch::Mode;
use serde::{Deserialize, Serialize};
use std::sync::atomic::{AtomicU64, Ordering};
use std::sync::OnceLock;
use vkit::{bad, enumerate, ok, ok_trivial, Run, Verdict, B};

// ---------------------------------------------------------------------------------------------------------------------
// transcription of git's wildmatch.c (v2.39.5). Pointers become indices; reading at/after the end yields NUL like a C string.
// ---------------------------------------------------------------------------------------------------------------------
pub const WM_CASEFOLD: u32 = 1;
pub const WM_PATHNAME: u32 = 2;
pub const WM_NOMATCH: i32 = 1;
pub const WM_MATCH: i32 = 0;
pub const WM_ABORT_ALL: i32 = -1;
pub const WM_ABORT_TO_STARSTAR: i32 = -2;

// git's sane_ctype (ASCII only)
fn isupper(c: u8) -> bool {
    c.is_ascii_uppercase()
}
fn islower(c: u8) -> bool {
    c.is_ascii_lowercase()
}
fn isspace(c: u8) -> bool {
    matches!(c, b' ' | b'\t' | b'\n' | b'\r')
}
fn isprint(c: u8) -> bool {
    (0x20..=0x7e).contains(&c)
}
fn is_glob_special(c: u8) -> bool {
    matches!(c, b'*' | b'?' | b'[' | b'\\')
}
fn at(s: &[u8], i: usize) -> u8 {
    s.get(i).copied().unwrap_or(0)
}

pub fn dowild(pat: &[u8], mut p: usize, text: &[u8], mut t: usize, flags: u32) -> i32 {
    let casefold = flags & WM_CASEFOLD != 0;
    let pathname = flags & WM_PATHNAME != 0;
    // for ( ; (p_ch = *p) != '\0'; text++, p++)
    loop {
        let mut p_ch = at(pat, p);
        if p_ch == 0 {
            break;
        }
        let mut t_ch = at(text, t);
        if t_ch == 0 && p_ch != b'*' {
            return WM_ABORT_ALL;
        }
        if casefold && isupper(t_ch) {
            t_ch = t_ch.to_ascii_lowercase();
        }
        if casefold && isupper(p_ch) {
            p_ch = p_ch.to_ascii_lowercase();
        }
        // leaving this block == C `continue` / `break` out of the switch (both run `text++, p++`)
        'sw: {
            match p_ch {
                b'?' => {
                    if pathname && t_ch == b'/' {
                        return WM_NOMATCH;
                    }
                    break 'sw;
                }
                b'*' => {
                    let match_slash;
                    p += 1;
                    if at(pat, p) == b'*' {
                        let prev_p = p as isize - 2;
                        loop {
                            p += 1;
                            if at(pat, p) != b'*' {
                                break;
                            }
                        }
                        if !pathname {
                            match_slash = true;
                        } else if (prev_p < 0 || pat[prev_p as usize] == b'/')
                            && (at(pat, p) == 0 || at(pat, p) == b'/' || (at(pat, p) == b'\\' && at(pat, p + 1) == b'/'))
                        {
                            if at(pat, p) == b'/' && dowild(pat, p + 1, text, t, flags) == WM_MATCH {
                                return WM_MATCH;
                            }
                            match_slash = true;
                        } else {
                            match_slash = false;
                        }
                    } else {
                        match_slash = !pathname;
                    }
                    if at(pat, p) == 0 {
                        if !match_slash && text[t.min(text.len())..].contains(&b'/') {
                            return WM_NOMATCH;
                        }
                        return WM_MATCH;
                    } else if !match_slash && at(pat, p) == b'/' {
                        match text[t.min(text.len())..].find_byte(b'/') {
                            None => return WM_NOMATCH,
                            Some(d) => t += d,
                        }
                        break 'sw;
                    }
                    loop {
                        if t_ch == 0 {
                            break;
                        }
                        if !is_glob_special(at(pat, p)) {
                            p_ch = at(pat, p);
                            if casefold && isupper(p_ch) {
                                p_ch = p_ch.to_ascii_lowercase();
                            }
                            loop {
                                t_ch = at(text, t);
                                if !(t_ch != 0 && (match_slash || t_ch != b'/')) {
                                    break;
                                }
                                if casefold && isupper(t_ch) {
                                    t_ch = t_ch.to_ascii_lowercase();
                                }
                                if t_ch == p_ch {
                                    break;
                                }
                                t += 1;
                            }
                            if t_ch != p_ch {
                                return WM_NOMATCH;
                            }
                        }
                        let matched = dowild(pat, p, text, t, flags);
                        if matched != WM_NOMATCH {
                            if !match_slash || matched != WM_ABORT_TO_STARSTAR {
                                return matched;
                            }
                        } else if !match_slash && t_ch == b'/' {
                            return WM_ABORT_TO_STARSTAR;
                        }
                        t += 1;
                        t_ch = at(text, t);
                    }
                    return WM_ABORT_ALL;
                }
                b'[' => {
                    p += 1;
                    p_ch = at(pat, p);
                    if p_ch == b'^' {
                        p_ch = b'!';
                    }
                    let negated = p_ch == b'!';
                    if negated {
                        p += 1;
                        p_ch = at(pat, p);
                    }
                    let mut prev_ch: u8 = 0;
                    let mut matched = false;
                    // do { ... } while (prev_ch = p_ch, (p_ch = *++p) != ']');
                    loop {
                        if p_ch == 0 {
                            return WM_ABORT_ALL;
                        }
                        'body: {
                            if p_ch == b'\\' {
                                p += 1;
                                p_ch = at(pat, p);
                                if p_ch == 0 {
                                    return WM_ABORT_ALL;
                                }
                                if t_ch == p_ch {
                                    matched = true;
                                }
                            } else if p_ch == b'-' && prev_ch != 0 && at(pat, p + 1) != 0 && at(pat, p + 1) != b']' {
                                p += 1;
                                p_ch = at(pat, p);
                                if p_ch == b'\\' {
                                    p += 1;
                                    p_ch = at(pat, p);
                                    if p_ch == 0 {
                                        return WM_ABORT_ALL;
                                    }
                                }
                                if t_ch <= p_ch && t_ch >= prev_ch {
                                    matched = true;
                                } else if casefold && islower(t_ch) {
                                    let t_ch_upper = t_ch.to_ascii_uppercase();
                                    if t_ch_upper <= p_ch && t_ch_upper >= prev_ch {
                                        matched = true;
                                    }
                                }
                                p_ch = 0; // This makes "prev_ch" get set to 0.
                            } else if p_ch == b'[' && at(pat, p + 1) == b':' {
                                p += 2;
                                let s = p;
                                loop {
                                    p_ch = at(pat, p);
                                    if p_ch == 0 || p_ch == b']' {
                                        break;
                                    }
                                    p += 1;
                                }
                                if p_ch == 0 {
                                    return WM_ABORT_ALL;
                                }
                                let i = p as isize - s as isize - 1;
                                if i < 0 || pat[p - 1] != b':' {
                                    // Didn't find ":]", so treat like a normal set.
                                    p = s - 2;
                                    p_ch = b'[';
                                    if t_ch == p_ch {
                                        matched = true;
                                    }
                                    break 'body; // C `continue` of the do-while: goes to the loop condition
                                }
                                let class = &pat[s..s + i as usize];
                                let hit = match class {
                                    b"alnum" => t_ch.is_ascii_alphanumeric(),
                                    b"alpha" => t_ch.is_ascii_alphabetic(),
                                    b"blank" => t_ch == b' ' || t_ch == b'\t',
                                    b"cntrl" => t_ch < 0x20 || t_ch == 0x7f,
                                    b"digit" => t_ch.is_ascii_digit(),
                                    b"graph" => isprint(t_ch) && !isspace(t_ch),
                                    b"lower" => islower(t_ch),
                                    b"print" => isprint(t_ch),
                                    b"punct" => t_ch.is_ascii_punctuation(),
                                    b"space" => isspace(t_ch),
                                    b"upper" => isupper(t_ch) || (casefold && islower(t_ch)),
                                    b"xdigit" => t_ch.is_ascii_hexdigit(),
                                    _ => return WM_ABORT_ALL, // malformed [:class:] string
                                };
                                if hit {
                                    matched = true;
                                }
                                p_ch = 0; // This makes "prev_ch" get set to 0.
                            } else if t_ch == p_ch {
                                matched = true;
                            }
                        }
                        prev_ch = p_ch;
                        p += 1;
                        p_ch = at(pat, p);
                        if p_ch == b']' {
                            break;
                        }
                    }
                    if matched == negated || (pathname && t_ch == b'/') {
                        return WM_NOMATCH;
                    }
                    break 'sw;
                }
                _ => {
                    if p_ch == b'\\' {
                        // Literal match with following character (p[1] == '\0' fails in the comparison below).
                        p += 1;
                        p_ch = at(pat, p);
                    }
                    if t_ch != p_ch {
                        return WM_NOMATCH;
                    }
                    break 'sw;
                }
            }
        }
        t += 1;
        p += 1;
    }
    if at(text, t) != 0 {
        WM_NOMATCH
    } else {
        WM_MATCH
    }
}

pub fn git_wildmatch(pattern: &[u8], text: &[u8], flags: u32) -> bool {
    dowild(pattern, 0, text, 0, flags) == WM_MATCH
}

// ---------------------------------------------------------------------------------------------------------------------

const PAT_TOKENS: [&[u8]; 15] =
    [b"a", b"b", b"A", b"/", b"*", b"**", b"?", b"[ab]", b"[!a]", b"[a-b]", b"[[:alpha:]]", b"[[:upper:]]", b"\\", b"[", b"]"];
const TEXT_CHARS: [&[u8]; 5] = [b"a", b"b", b"/", b"A", b"."];

fn texts() -> &'static Vec<Vec<u8>> {
    static T: OnceLock<Vec<Vec<u8>>> = OnceLock::new();
    T.get_or_init(|| {
        let mut v = Vec::new();
        enumerate::strings(&TEXT_CHARS, 0, 4, |s| v.push(s.to_vec()));
        v
    })
}

fn gix_mode(m: u8) -> Mode {
    let mut mode = Mode::empty();
    if m & 1 != 0 {
        mode |= Mode::NO_MATCH_SLASH_LITERAL;
    }
    if m & 2 != 0 {
        mode |= Mode::IGNORE_CASE;
    }
    mode
}
fn git_flags(m: u8) -> u32 {
    (if m & 1 != 0 { WM_PATHNAME } else { 0 }) | (if m & 2 != 0 { WM_CASEFOLD } else { 0 })
}
fn mode_name(m: u8) -> &'static str {
    ["none", "NO_MATCH_SLASH_LITERAL", "IGNORE_CASE", "NO_MATCH_SLASH_LITERAL|IGNORE_CASE"][m as usize]
}

/// Index of the `]` that closes the bracket expression opened at `pat[open] == b'['`, found the way dowild() scans it
/// (None: unterminated or malformed class, dowild() returns WM_ABORT_ALL for every text).
fn bracket_end(pat: &[u8], open: usize) -> Option<usize> {
    let mut p = open + 1;
    let mut p_ch = at(pat, p);
    if p_ch == b'^' || p_ch == b'!' {
        p += 1;
        p_ch = at(pat, p);
    }
    let mut prev_ch = 0u8;
    loop {
        if p_ch == 0 {
            return None;
        }
        'body: {
            if p_ch == b'\\' {
                p += 1;
                p_ch = at(pat, p);
                if p_ch == 0 {
                    return None;
                }
            } else if p_ch == b'-' && prev_ch != 0 && at(pat, p + 1) != 0 && at(pat, p + 1) != b']' {
                p += 1;
                p_ch = at(pat, p);
                if p_ch == b'\\' {
                    p += 1;
                    p_ch = at(pat, p);
                    if p_ch == 0 {
                        return None;
                    }
                }
                p_ch = 0;
            } else if p_ch == b'[' && at(pat, p + 1) == b':' {
                p += 2;
                let s = p;
                loop {
                    p_ch = at(pat, p);
                    if p_ch == 0 || p_ch == b']' {
                        break;
                    }
                    p += 1;
                }
                if p_ch == 0 {
                    return None;
                }
                let i = p as isize - s as isize - 1;
                if i < 0 || pat[p - 1] != b':' {
                    p = s - 2;
                    p_ch = b'[';
                    break 'body;
                }
                p_ch = 0;
            }
        }
        prev_ch = p_ch;
        p += 1;
        p_ch = at(pat, p);
        if p_ch == b']' {
            return Some(p);
        }
    }
}

/// git folds only the first byte of each pattern token: an upper-case letter inside a bracket expression or after a backslash is
/// compared unfolded against the folded text byte and so can never match under WM_CASEFOLD. gitoxide folds the whole pattern.
fn has_unfolded_upper(pat: &[u8]) -> bool {
    let mut i = 0;
    while i < pat.len() {
        match pat[i] {
            b'\\' => {
                if at(pat, i + 1).is_ascii_uppercase() {
                    return true;
                }
                i += 2;
            }
            b'[' => match bracket_end(pat, i) {
                None => return false, // never matches anything from here on, in any mode
                Some(end) => {
                    if pat[i..end].iter().any(u8::is_ascii_uppercase) {
                        return true;
                    }
                    i = end + 1;
                }
            },
            _ => i += 1,
        }
    }
    false
}

#[derive(Serialize, Deserialize, Hash, Clone, Debug)]
struct PatCase {
    pattern: B,
}

#[derive(Serialize, Deserialize, Hash, Clone, Debug)]
struct BracketCase {
    /// 0 = none, 1 = `!`, 2 = `^`
    negation: u8,
    members: Vec<String>,
}

#[derive(Serialize, Deserialize, Hash, Clone, Debug)]
struct ClassCase {
    class: String,
    /// 0 = `[[:c:]]`, 1 = `[![:c:]]`, 2 = `[^[:c:]]`
    negation: u8,
}

#[derive(Serialize, Deserialize, Hash, Clone, Debug)]
struct BindSpec {
    pattern: B,
    glob: bool,
    icase: bool,
}
#[derive(Serialize, Deserialize, Hash, Clone, Debug)]
struct BindCase {
    specs: Vec<BindSpec>,
}

static TRIPLES: AtomicU64 = AtomicU64::new(0);
static MATCHES: AtomicU64 = AtomicU64::new(0);
static SHORTCUT_TRIPLES: AtomicU64 = AtomicU64::new(0);
static VALIDATED: AtomicU64 = AtomicU64::new(0);
static VALIDATED_MATCH: AtomicU64 = AtomicU64::new(0);
static GIT_CALLS: AtomicU64 = AtomicU64::new(0);
static DOC_DEVIATIONS: AtomicU64 = AtomicU64::new(0);
static BOUND_SPECS: AtomicU64 = AtomicU64::new(0);

fn features(p: &[u8]) -> String {
    let mut f = Vec::new();
    if p.find(b"**").is_some() {
        f.push("starstar");
    } else if p.contains(&b'*') {
        f.push("star");
    }
    if p.contains(&b'?') {
        f.push("qmark");
    }
    if p.contains(&b'[') {
        f.push("bracket");
    }
    if p.contains(&b'\\') {
        f.push("escape");
    }
    if f.is_empty() {
        f.push("literal");
    }
    f.join("+")
}

/// is `t` acceptable as an index path?
fn valid_path(t: &[u8]) -> bool {
    !t.is_empty() && t.split(|c| *c == b'/').all(|c| !c.is_empty() && c != b"." && c != b"..")
}

/// Decide up to BATCH (pattern, mode) specs with one `git ls-files` run in `fixture` (an index holding every name of `names` below
/// d0..d63) and compare with the transcription the way dir.c:git_fnmatch() calls wildmatch().
fn bind_eval<N: AsRef<[u8]>>(fixture: &std::path::Path, names: &[N], c: &BindCase) -> Verdict {
    let mut args: Vec<String> = vec!["ls-files".into(), "-z".into(), "--".into()];
    for (i, s) in c.specs.iter().enumerate() {
        let magic = match (s.glob, s.icase) {
            (false, false) => "",
            (true, false) => ":(glob)",
            (false, true) => ":(icase)",
            (true, true) => ":(glob,icase)",
        };
        let Ok(p) = std::str::from_utf8(&s.pattern) else { vkit::machinery!("non-utf8 pattern") };
        args.push(format!("{magic}d{i}/{p}"));
    }
    let out = vkit::git::try_git(fixture, &args);
    GIT_CALLS.fetch_add(1, Ordering::Relaxed);
    if !out.ok {
        vkit::machinery!("git {args:?} failed: {}", out.err_text());
    }
    let listed: std::collections::HashSet<&[u8]> = out.stdout.split(|b| *b == 0).filter(|s| !s.is_empty()).collect();
    let mut any = 0u64;
    let mut validated = 0u64;
    let mut path = Vec::new();
    for (i, s) in c.specs.iter().enumerate() {
        let flags = (if s.glob { WM_PATHNAME } else { 0 }) | (if s.icase { WM_CASEFOLD } else { 0 });
        // dir.c:git_fnmatch(): literal prefix (up to the first glob special) compared, the rest handed to wildmatch()
        let n = s.pattern.iter().position(|b| is_glob_special(*b)).unwrap_or(s.pattern.len());
        for name in names.iter().map(|n| n.as_ref()) {
            let prefix_ok = name.len() >= n
                && if s.icase { name[..n].eq_ignore_ascii_case(&s.pattern[..n]) } else { name[..n] == s.pattern[..n] };
            let model = prefix_ok && git_wildmatch(&s.pattern[n..], &name[n..], flags);
            path.clear();
            path.extend_from_slice(format!("d{i}/").as_bytes());
            path.extend_from_slice(name);
            let git = listed.contains(path.as_slice());
            if model != git {
                vkit::machinery!(
                    "transcription of dowild() disagrees with git: ls-files -- {:?} {} {:?}, transcription says {}",
                    args[3 + i],
                    if git { "lists" } else { "does not list" },
                    path.as_bstr(),
                    model
                );
            }
            validated += 1;
            if git {
                any += 1;
            }
        }
    }
    VALIDATED.fetch_add(validated, Ordering::Relaxed);
    VALIDATED_MATCH.fetch_add(any, Ordering::Relaxed);
    BOUND_SPECS.fetch_add(c.specs.len() as u64, Ordering::Relaxed);
    if any > 0 {
        ok("bind:batch-agrees")
    } else {
        ok_trivial("bind:lists-nothing")
    }
}

pub fn run(run: &'static Run) {
    run.rule(
        "patterns: every concatenation of <=4 (quick) / <=5 (thorough) tokens from {a,b,A,/,*,**,?,[ab],[!a],[a-b],[[:alpha:]],[[:upper:]],\\,[,]} \
         (so unterminated/odd brackets, escapes of every token head, *** runs arise); texts: every string of <=4 bytes over {a,b,/,A,.}; \
         modes: {none, NO_MATCH_SLASH_LITERAL, IGNORE_CASE, both}. Each (pattern,text,mode) triple is decided by gix_glob::wildmatch and by \
         Pattern::from_bytes_without_negation(pattern).matches() (the literal-prefix / ends-with shortcuts; oracle applied to Pattern.text) and \
         compared with the transcription of git's dowild(). One case = one pattern (3124 triples). Sub-check classes: [[:c:]], [![:c:]], [^[:c:]] for the 12 POSIX \
         classes (+ one unknown name) x every single-byte text 0x01..0xff x 4 modes, each also bound to git. Sub-check brackets: `[` + {none,!,^} + every sequence of \
         <=4 (quick) / <=5 (thorough) members over {a,m,z,-,],\\],[:digit:],[:alpha:],[:upper:],0,A} (for <=4 members additionally `[:` = malformed class opener and `*`) + `]` x every single-byte text 0x01..0xff and 10 longer texts x 4 modes \
         (transcription bound to git by git-bind-brackets: <=3 members, base alphabet in quick / incl. `[:` and `*` in thorough, plus all 4-member sequences over {a,z,-,],[:digit:]} / +{0}). non-trivial = the pattern contains a glob \
         special and, in some mode, matches at least one text and rejects at least one",
    );
    run.assume("oracle = Rust transcription of wildmatch.c:dowild() of git 2.39.5; bound to the git binary by sub-check git-bind");
    run.assume(
        "git-bind: git ls-files from the repository root with [:(glob)][:(icase)] pathspecs calls wildmatch(pattern+nowildcard_len, name+nowildcard_len, \
         [WM_PATHNAME]|[WM_CASEFOLD]) after comparing the literal prefix (dir.c:git_fnmatch); the model mirrors exactly that. Only texts that are \
         valid index paths and patterns without leading '/' or '//' (pathspec normalisation would rewrite/refuse them) and with >=1 glob special can be bound",
    );
    run.assume(
        "excluded from the domain (documented deviation; gix-pathspec's baseline fixture marks `:(icase)G[O][o]` and `:(glob,icase)g[o][O]` as `git-inconsistency`): \
         under IGNORE_CASE git folds only the first byte of a pattern token, so an upper-case letter inside a bracket expression or after a backslash is compared \
         unfolded with the folded text byte (`[A]`/`\\A` match neither `a` nor `A`); gitoxide folds the whole pattern. Disagreements are tolerated (and counted as \
         documented_deviation_triples) only for such patterns in IGNORE_CASE modes; all other triples of those patterns are checked strictly",
    );
    run.budget_secs(run.pick(100.0, 1500.0)); // designed for <=40 s / <=10 min on an idle 16-core box; headroom because the box is shared
    let texts = texts();

    // ---- bind the transcription to git ----
    // One index holds, below each of BATCH directories d0..d63, every text that is a valid path: slash-less names at stage 1 and names
    // with a slash at stage 2, so that file/directory conflicts between e.g. `a` and `a/b` do not arise (ls-files matches pathspecs
    // against unmerged entries as well). One `git ls-files` run then decides BATCH pathspecs `[magic]d<i>/<pattern>` at once: the
    // literal directory prefix tells from the output which pathspec listed a path.
    const BATCH: usize = 64;
    let t0 = std::time::Instant::now();
    let fixture = vkit::scratch::Dir::new("c36fix");
    let names: Vec<&[u8]> = texts.iter().filter(|t| valid_path(t)).map(|t| t.as_slice()).collect();
    {
        vkit::git::init(fixture.path());
        let mut input = Vec::new();
        for d in 0..BATCH {
            for n in names.iter() {
                input.extend_from_slice(b"100644 e69de29bb2d1d6434b8b29ae775ad8c2e48c5391 ");
                input.push(if n.contains(&b'/') { b'2' } else { b'1' });
                input.extend_from_slice(format!("\td{d}/").as_bytes());
                input.extend_from_slice(n);
                input.push(0);
            }
        }
        vkit::git::git_in(fixture.path(), &["update-index", "-z", "--index-info"], &input);
        let listed = vkit::git::git(fixture.path(), &["ls-files", "-z"]);
        let n = listed.split(|c| *c == 0).filter(|s| !s.is_empty()).count();
        if n != names.len() * BATCH {
            vkit::machinery!("index fixture holds {n} paths, expected {}", names.len() * BATCH);
        }
    }
    run.cov("bind_fixture_paths", names.len());

    let bind_tokens = run.pick(3, 4);
    run.sub_with(
        "git-bind",
        vkit::Opts::default().chunk(64),
        |emit| {
            let mut batch = Vec::new();
            enumerate::strings(&PAT_TOKENS, 1, bind_tokens, |p| {
                if p[0] == b'/' || p.find(b"//").is_some() || !p.iter().any(|c| is_glob_special(*c)) {
                    return;
                }
                for m in 0..4u8 {
                    batch.push(BindSpec { pattern: B(p.to_vec()), glob: m & 1 != 0, icase: m & 2 != 0 });
                    if batch.len() == BATCH {
                        emit(BindCase { specs: std::mem::take(&mut batch) });
                    }
                }
            });
            if !batch.is_empty() {
                emit(BindCase { specs: batch });
            }
        },
        |c: &BindCase| bind_eval(fixture.path(), &names, c),
    );
    drop(fixture);
    run.cov("wall_git_bind_s", t0.elapsed().as_secs_f64());

    // ---- POSIX classes: every class x every byte, in gitoxide and (bound) in git ----
    const CLASSES: [&str; 13] =
        ["alnum", "alpha", "blank", "cntrl", "digit", "graph", "lower", "print", "punct", "space", "upper", "xdigit", "bogus"];
    let class_fixture = vkit::scratch::Dir::new("c36cls");
    let mut byte_names: Vec<Vec<u8>> = Vec::new();
    {
        vkit::git::init(class_fixture.path());
        let mut input = Vec::new();
        for d in 0..4 {
            for b in 1..=255u8 {
                if b == b'/' || b == b'.' {
                    continue;
                }
                input.extend_from_slice(format!("100644 e69de29bb2d1d6434b8b29ae775ad8c2e48c5391 0\td{d}/").as_bytes());
                input.push(b);
                input.push(0);
            }
        }
        vkit::git::git_in(class_fixture.path(), &["update-index", "-z", "--index-info"], &input);
        let listed = vkit::git::git(class_fixture.path(), &["ls-files", "-z", "--", "d0"]);
        for n in listed.split(|c| *c == 0).filter(|s| !s.is_empty()) {
            byte_names.push(n[3..].to_vec());
        }
        if byte_names.len() < 250 {
            vkit::machinery!("class fixture holds only {} single-byte names", byte_names.len());
        }
    }
    run.sub_with(
        "classes",
        vkit::Opts::default().chunk(16),
        |emit| {
            for class in CLASSES {
                for negation in 0..3u8 {
                    emit(ClassCase { class: class.to_string(), negation });
                }
            }
        },
        |c: &ClassCase| -> Verdict {
            let pat = format!("[{}[:{}:]]", ["", "!", "^"][c.negation as usize], c.class).into_bytes();
            // gitoxide vs transcription, all byte values
            let mut hits = 0;
            for m in 0..4u8 {
                for b in 1..=255u8 {
                    let text = [b];
                    let expect = git_wildmatch(&pat, &text, git_flags(m));
                    let actual = gix_glob::wildmatch(pat.as_bstr(), text.as_bstr(), gix_mode(m));
                    if expect != actual {
                        return bad(
                            "class",
                            format!(
                                "pattern {:?} text {:?} (byte 0x{b:02x}) mode {}: git's wildmatch says {}, gix_glob::wildmatch says {}",
                                pat.as_bstr(),
                                text.as_bstr(),
                                mode_name(m),
                                expect,
                                actual
                            ),
                        );
                    }
                    hits += expect as u32;
                }
            }
            TRIPLES.fetch_add(4 * 255, Ordering::Relaxed);
            // transcription vs git
            let p = String::from_utf8_lossy(&pat).into_owned();
            let args = ["ls-files".to_string(), "-z".into(), "--".into(), format!("d0/{p}"), format!(":(glob)d1/{p}"), format!(":(icase)d2/{p}"), format!(":(glob,icase)d3/{p}")];
            let out = vkit::git::try_git(class_fixture.path(), &args);
            GIT_CALLS.fetch_add(1, Ordering::Relaxed);
            if !out.ok {
                vkit::machinery!("git {args:?} failed: {}", out.err_text());
            }
            let listed: std::collections::HashSet<&[u8]> = out.stdout.split(|b| *b == 0).filter(|s| !s.is_empty()).collect();
            for m in 0..4u8 {
                for name in &byte_names {
                    let model = git_wildmatch(&pat, name, git_flags(m));
                    let mut path = format!("d{m}/").into_bytes();
                    path.extend_from_slice(name);
                    if model != listed.contains(path.as_slice()) {
                        vkit::machinery!(
                            "transcription of dowild() disagrees with git: ls-files -- {:?} vs path {:?}: transcription says {model}",
                            args[3 + m as usize],
                            path.as_bstr()
                        );
                    }
                }
            }
            VALIDATED.fetch_add(4 * byte_names.len() as u64, Ordering::Relaxed);
            BOUND_SPECS.fetch_add(4, Ordering::Relaxed);
            if hits == 0 {
                ok_trivial("class:matches-nothing")
            } else {
                ok(format!("class:{}", c.class))
            }
        },
    );

    // ---- bracket expressions at member level ----
    // `[` + optional negation + every sequence of members + `]`; a `]` member that is not first closes the expression early and the
    // rest becomes a literal tail, `-` becomes a range operator or a literal depending on its neighbours (after a class it is literal).
    const MEMBERS: [&str; 11] = ["a", "m", "z", "-", "]", "\\]", "[:digit:]", "[:alpha:]", "[:upper:]", "0", "A"];
    // + a malformed class opener (falls back to a literal `[`) and a wildcard (meaningful after an early `]`), used up to 4 members
    const MEMBERS_EXT: [&str; 13] = ["a", "m", "z", "-", "]", "\\]", "[:digit:]", "[:alpha:]", "[:upper:]", "0", "A", "[:", "*"];
    const TEXTS2: [&[u8]; 10] = [b"a]", b"m]", b"z]", b"-]", b"]]", b"0]", b"a-", b"mm", b"am]", b"-z]"];
    let t2 = std::time::Instant::now();
    let max_members = run.pick(4, 5);
    let mut bracket_texts: Vec<Vec<u8>> = (1..=255u8).map(|b| vec![b]).collect();
    bracket_texts.extend(TEXTS2.iter().map(|t| t.to_vec()));
    let bracket_texts = &bracket_texts;
    run.sub_with(
        "brackets",
        vkit::Opts::default().chunk(4096),
        |emit| {
            for negation in 0..3u8 {
                enumerate::seqs(&MEMBERS_EXT, 0, 4, |m| emit(BracketCase { negation, members: m.iter().map(|s| s.to_string()).collect() }));
                if max_members > 4 {
                    enumerate::seqs(&MEMBERS, 5, max_members, |m| emit(BracketCase { negation, members: m.iter().map(|s| s.to_string()).collect() }));
                }
            }
        },
        |c: &BracketCase| -> Verdict {
            let pat = format!("[{}{}]", ["", "!", "^"][c.negation as usize], c.members.concat()).into_bytes();
            let quirk = has_unfolded_upper(&pat);
            let (mut yes, mut no, mut tolerated) = (0u64, 0u64, 0u64);
            for m in 0..4u8 {
                let in_quirk_region = m & 2 != 0 && quirk;
                for text in bracket_texts.iter() {
                    let expect = git_wildmatch(&pat, text, git_flags(m));
                    let actual = gix_glob::wildmatch(pat.as_bstr(), text.as_bstr(), gix_mode(m));
                    if expect != actual {
                        if in_quirk_region {
                            tolerated += 1;
                            continue;
                        }
                        if std::env::var_os("C36_DEBUG").is_some() {
                            eprintln!("DEBUG {:?} {:?} {} git={expect}", pat.as_bstr(), text.as_bstr(), mode_name(m));
                        }
                        return bad(
                            "bracket",
                            format!(
                                "pattern {:?} text {:?} mode {}: git's wildmatch says {}, gix_glob::wildmatch says {}",
                                pat.as_bstr(),
                                text.as_bstr(),
                                mode_name(m),
                                expect,
                                actual
                            ),
                        );
                    }
                    if expect {
                        yes += 1;
                    } else {
                        no += 1;
                    }
                }
            }
            TRIPLES.fetch_add(4 * bracket_texts.len() as u64, Ordering::Relaxed);
            MATCHES.fetch_add(yes, Ordering::Relaxed);
            DOC_DEVIATIONS.fetch_add(tolerated, Ordering::Relaxed);
            if yes == 0 || no == 0 {
                return ok_trivial(if yes == 0 { "bracket:matches-nothing" } else { "bracket:matches-everything" });
            }
            let has = |m: &str| c.members.iter().any(|x| x == m);
            let mut f = vec!["bracket"];
            if c.members.iter().any(|x| x.starts_with("[:")) {
                f.push("class");
            }
            if has("-") {
                f.push("dash");
            }
            if has("]") || has("\\]") {
                f.push("rbracket");
            }
            if c.negation != 0 {
                f.push("negated");
            }
            ok(f.join("+"))
        },
    );
    run.cov("wall_brackets_s", t2.elapsed().as_secs_f64());
    // bind the transcription to git for bracket expressions
    let bracket_fixture = vkit::scratch::Dir::new("c36brk");
    let mut bracket_names: Vec<Vec<u8>> = Vec::new();
    {
        vkit::git::init(bracket_fixture.path());
        let mut input = Vec::new();
        for d in 0..BATCH {
            for t in bracket_texts.iter().filter(|t| valid_path(t)) {
                input.extend_from_slice(format!("100644 e69de29bb2d1d6434b8b29ae775ad8c2e48c5391 0\td{d}/").as_bytes());
                input.extend_from_slice(t);
                input.push(0);
            }
        }
        vkit::git::git_in(bracket_fixture.path(), &["update-index", "-z", "--index-info"], &input);
        let listed = vkit::git::git(bracket_fixture.path(), &["ls-files", "-z", "--", "d0"]);
        for n in listed.split(|c| *c == 0).filter(|s| !s.is_empty()) {
            bracket_names.push(n[3..].to_vec());
        }
        if bracket_names.len() < 255 {
            vkit::machinery!("bracket fixture holds only {} names", bracket_names.len());
        }
    }
    run.sub_with(
        "git-bind-brackets",
        vkit::Opts::default().chunk(64),
        |emit| {
            let mut batch = Vec::new();
            // quick: <=3 members of the base alphabet; thorough: <=3 members incl. `[:` and `*`; both: every 4-member sequence over a
            // reduced alphabet (member, class, dash, closing bracket: the shapes where a dash follows a class or a range)
            const FOUR: [&str; 6] = ["a", "z", "-", "]", "[:digit:]", "0"];
            let alphabet: &[&str] = if run.quick() { &MEMBERS } else { &MEMBERS_EXT };
            let four: &[&str] = if run.quick() { &FOUR[..5] } else { &FOUR };
            for negation in ["", "!", "^"] {
                let mut add = |m: &[&str]| {
                    let p = format!("[{negation}{}]", m.concat()).into_bytes();
                    for mode in 0..4u8 {
                        batch.push(BindSpec { pattern: B(p.clone()), glob: mode & 1 != 0, icase: mode & 2 != 0 });
                        if batch.len() == BATCH {
                            emit(BindCase { specs: std::mem::take(&mut batch) });
                        }
                    }
                };
                enumerate::seqs(alphabet, 0, 3, &mut add);
                enumerate::seqs(four, 4, 4, &mut add);
            }
            if !batch.is_empty() {
                emit(BindCase { specs: batch });
            }
        },
        |c: &BindCase| bind_eval(bracket_fixture.path(), &bracket_names, c),
    );
    drop(bracket_fixture);
    run.cov("wall_brackets_incl_bind_s", t2.elapsed().as_secs_f64());

    // ---- gitoxide vs transcription ----
    let max_tokens = run.pick(4, 5);
    let t1 = std::time::Instant::now();
    run.sub_with(
        "wildmatch",
        vkit::Opts::default().chunk(4096),
        |emit| {
            enumerate::strings(&PAT_TOKENS, 0, max_tokens, |p| emit(PatCase { pattern: B(p.to_vec()) }));
        },
        |c: &PatCase| -> Verdict {
            let pat: &[u8] = &c.pattern;
            let parsed = gix_glob::Pattern::from_bytes_without_negation(pat);
            let quirk = has_unfolded_upper(pat);
            let mut discriminates = false;
            let mut triples = 0u64;
            let mut matches = 0u64;
            let mut shortcut = 0u64;
            let mut quirk_hits = 0u64;
            let mut quirk_example: Option<String> = None;
            for m in 0..4u8 {
                // region of the open known finding `icase-unfolded-upper`: mismatches are collected, everything else still checked
                let in_quirk_region = m & 2 != 0 && quirk;
                let (mode, flags) = (gix_mode(m), git_flags(m));
                let (mut yes, mut no) = (0u32, 0u32);
                for text in texts.iter() {
                    let expect = git_wildmatch(pat, text, flags);
                    let actual = gix_glob::wildmatch(pat.as_bstr(), text.as_bstr(), mode);
                    triples += 1;
                    if in_quirk_region && expect == actual {
                        // not comparable strictly, not counted as non-trivial evidence either
                    } else if expect != actual && in_quirk_region {
                        quirk_hits += 1;
                        quirk_example.get_or_insert_with(|| {
                            format!(
                                "pattern {:?} text {:?} mode {}: git's wildmatch says {}, gix_glob::wildmatch says {}",
                                pat.as_bstr(),
                                text.as_bstr(),
                                mode_name(m),
                                expect,
                                actual
                            )
                        });
                    } else if expect != actual {
                        return bad(
                            "wildmatch",
                            format!(
                                "pattern {:?} text {:?} mode {}: git's wildmatch says {}, gix_glob::wildmatch says {}",
                                pat.as_bstr(),
                                text.as_bstr(),
                                mode_name(m),
                                expect,
                                actual
                            ),
                        );
                    }
                    if expect {
                        yes += 1;
                    } else {
                        no += 1;
                    }
                    if let Some(parsed) = &parsed {
                        let ptext: &[u8] = parsed.text.as_ref();
                        let expect = if ptext == pat { expect } else { git_wildmatch(ptext, text, flags) };
                        let actual = parsed.matches(text.as_bstr(), mode);
                        shortcut += 1;
                        if expect != actual && in_quirk_region {
                            quirk_hits += 1;
                        } else if expect != actual {
                            return bad(
                                "pattern-matches",
                                format!(
                                    "Pattern {:?} (text {:?}, mode {:?}, first_wildcard_pos {:?}) value {:?} mode {}: git's wildmatch says {}, Pattern::matches says {}",
                                    pat.as_bstr(),
                                    parsed.text,
                                    parsed.mode,
                                    parsed.first_wildcard_pos,
                                    text.as_bstr(),
                                    mode_name(m),
                                    expect,
                                    actual
                                ),
                            );
                        }
                    }
                }
                matches += yes as u64;
                if yes > 0 && no > 0 {
                    discriminates = true;
                }
            }
            TRIPLES.fetch_add(triples, Ordering::Relaxed);
            MATCHES.fetch_add(matches, Ordering::Relaxed);
            SHORTCUT_TRIPLES.fetch_add(shortcut, Ordering::Relaxed);
            if quirk_hits > 0 {
                DOC_DEVIATIONS.fetch_add(quirk_hits, Ordering::Relaxed);
                run.sample(serde_json::json!({"documented_deviation": quirk_example}));
            }
            let special = pat.iter().any(|b| is_glob_special(*b));
            if !discriminates {
                ok_trivial(if matches == 0 { "matches-nothing" } else { "matches-everything" })
            } else if !special {
                ok_trivial("literal")
            } else {
                ok(features(pat))
            }
        },
    );

    run.cov("wall_wildmatch_s", t1.elapsed().as_secs_f64());
    if !run.is_replay() {
        run.cov("pattern_text_mode_triples", TRIPLES.load(Ordering::Relaxed));
        run.cov("triples_matching", MATCHES.load(Ordering::Relaxed));
        run.cov("documented_deviation_triples", DOC_DEVIATIONS.load(Ordering::Relaxed));
        run.cov("pattern_matches_shortcut_triples", SHORTCUT_TRIPLES.load(Ordering::Relaxed));
        run.cov("transcription_answers_validated_against_git", VALIDATED.load(Ordering::Relaxed));
        run.cov("transcription_answers_validated_matching", VALIDATED_MATCH.load(Ordering::Relaxed));
        run.cov("oracle_calls_git", GIT_CALLS.load(Ordering::Relaxed));
        run.cov("pattern_mode_pairs_bound_to_git", BOUND_SPECS.load(Ordering::Relaxed));
        run.require("transcription was validated against git", VALIDATED.load(Ordering::Relaxed) > 100_000);
        run.require("validated answers include matches", VALIDATED_MATCH.load(Ordering::Relaxed) > 1000);
        run.require("some triples match", MATCHES.load(Ordering::Relaxed) > 1000);
    }
}
