//! C39 — pathspec lists select the same index paths as `git ls-files -- <specs>` (E1: bounded-exhaustive spec lists x working directory).
//!
//! One shared read-only repository holds a fixed index (matching is per path, so one rich path set replaces the subsets of a small
//! one) and a root `.gitattributes`. One case = (cwd, ordered list of pathspecs): git lists the selected paths in one process,
//! gitoxide parses the same specs, normalises them with the same prefix and is asked for every index path.
use bstr::{BStr, ByteSlice};
use serde::{Deserialize, Serialize};
use std::collections::BTreeSet;
use std::path::Path;
use std::sync::atomic::{AtomicU64, Ordering};
use vkit::{bad, ok, ok_trivial, Run, Verdict};

/// index paths (all stage 0; no file/directory conflicts among them)
const PATHS: [&str; 20] = [
    ".gitattributes", "A", "a*", "ab", "b", "a/a", "a/A", "a/b", "a/ab", "a/d/b", "a/d/e", "B/b", "c/a", "c/a*", "c/b", "c/d/ab", "d/a",
    // shorter than / exactly as long as / longer than head+tail of the single-star specs `ab*ba`, `a*a`, `b*b` (`b` itself is
    // the one-byte path for `b*b`; a file `a` cannot coexist with the directory a/ at stage 0)
    "aba", "abba", "abxba",
];
const STAGE1: [&str; 0] = [];
/// resulting attribute sets: only x: ab b a/d/b c/d/ab | x,-y: B/b | only y: A a/A | x,y: a/b a/ab | x=v,y: a/a | x=v: d/a |
/// -x: c/a* c/b | -x,y: c/a | x explicitly unspecified (!x): a/d/e | nothing: .gitattributes a*
const ATTRIBUTES: &str = "*b x\na/a x=v\nd/a x=v\nc/* -x\na/* y\nA y\nc/a y\nB/b -y\na/d/e !x\n";

/// quick alphabet = the first QUICK_SPECS entries
const QUICK_SPECS: usize = 28;
const SPECS: [&str; 47] = [
    "a",
    "a/",
    "b",
    "a/b",
    "a*",
    "*b",
    ":(glob)a/*",
    ":(glob)**/b",
    ":(literal)a*",
    ":(icase)A",
    ":(exclude)a/b",
    ":!b",
    ":(top)a",
    ":(attr:x)",
    ".",
    "a/*",
    ":(glob)a/**",
    // several attribute requirements: all of them have to hold
    ":(attr:x y)",
    ":(attr:x -y)",
    ":(attr:x=v y)",
    ":(attr:!x y)",
    ":(exclude,attr:x y)",
    // a single `*` with literal text on both sides: head and tail must not overlap in the path
    "a*a",
    "ab*ba",
    "a*b",
    "b*b",
    ":(icase)AB*BA",
    ":(exclude)ab*ba",
    // thorough only
    "ab",
    "a/d",
    "?b",
    "a/[ab]",
    ":(glob)a/?",
    ":(glob)a**",
    ":(glob)*/a",
    ":(icase)a/B",
    ":!*b",
    ":/",
    ":(top,exclude)a/d",
    ":(attr:-x)c",
    "../ab",
    ":(attr:!x)",
    ":(attr:x !y)",
    ":(attr:y -x)c",
    ":(exclude,attr:-x y)",
    // parser corner cases: `(` directly after short magic, empty keyword in long magic
    ":!(icase)A",
    ":(,icase)A",
];
/// specs with different literal directory prefixes (plus one wildcard and one exclude): every ordered list of three of them is run in
/// quick and thorough - the common prefix of three or more specs must shrink monotonically, whatever their order
const PREFIX_SPECS: [&str; 7] = ["a/a", "a/b", "c/a", "c/b", "ab", "a/d/*", ":(exclude)a/b"];
/// sub-alphabet for lists of three (thorough)
const TRIPLE_SPECS: [&str; 9] = ["a", "*b", ":(glob)a/*", ":(icase)A", ":(exclude)a/b", ":!b", ":(top)a", ":(attr:x)", ":(attr:x y)"];

#[derive(Serialize, Deserialize, Hash, Clone, Debug)]
struct SpecCase {
    /// working directory relative to the repository root ("" or "a")
    cwd: String,
    specs: Vec<String>,
}

static PATH_DECISIONS: AtomicU64 = AtomicU64::new(0);
static SELECTED: AtomicU64 = AtomicU64::new(0);
static GIT_REFUSED: AtomicU64 = AtomicU64::new(0);
static GIT_CALLS: AtomicU64 = AtomicU64::new(0);
static PERMUTATIONS: AtomicU64 = AtomicU64::new(0);
static OUTSIDE_DOMAIN: AtomicU64 = AtomicU64::new(0);

/// What git's pathspec parser makes of one of *our* specs (only the syntax used in SPECS is understood).
struct GitItem {
    /// `item->match`: the path relative to the repository root
    path: String,
    exclude: bool,
    icase: bool,
    literal: bool,
    /// `item->prefix`: length of the part contributed by the working directory
    prefix: usize,
    /// carries `attr:` requirements
    attr: bool,
}

fn git_item(spec: &str, cwd: &str) -> Option<GitItem> {
    let (mut exclude, mut icase, mut literal, mut top, mut attr) = (false, false, false, false, false);
    let rest = if let Some(r) = spec.strip_prefix(":(") {
        let (magic, rest) = r.split_once(')')?;
        for m in magic.split(',') {
            match m {
                "exclude" => exclude = true,
                "icase" => icase = true,
                "literal" => literal = true,
                "top" => top = true,
                m if m.starts_with("attr:") => attr = true,
                _ => {}
            }
        }
        rest
    } else if let Some(r) = spec.strip_prefix(":!") {
        exclude = true;
        r
    } else if let Some(r) = spec.strip_prefix(":/") {
        top = true;
        r
    } else {
        spec
    };
    let base = if top || cwd.is_empty() { String::new() } else { format!("{cwd}/") };
    let mut comps: Vec<&str> = base.split('/').filter(|c| !c.is_empty()).collect();
    let base_comps = comps.len();
    let mut kept_base = base_comps;
    for c in rest.split('/') {
        match c {
            "" | "." => {}
            ".." => {
                comps.pop()?;
                kept_base = kept_base.min(comps.len());
            }
            c => comps.push(c),
        }
    }
    let mut path = comps.join("/");
    if (rest.ends_with('/') || rest == "." || rest.is_empty()) && !path.is_empty() {
        path.push('/');
    }
    let prefix = if kept_base == base_comps { base.len().min(path.len()) } else { 0 };
    Some(GitItem { path, exclude, icase, literal, prefix, attr })
}

/// dir.c:common_prefix_len(): what `git ls-files` prunes the index with and then passes as `prefix` to match_pathspec().
fn git_max_prefix(items: &[GitItem]) -> usize {
    let mut max = 0usize;
    for (n, it) in items.iter().enumerate() {
        if it.exclude {
            continue;
        }
        let item_len = if it.icase {
            it.prefix
        } else if it.literal {
            it.path.len()
        } else {
            it.path.bytes().position(|b| matches!(b, b'*' | b'?' | b'[' | b'\\')).unwrap_or(it.path.len())
        };
        let (mut i, mut len) = (0usize, 0usize);
        let first = items[0].path.as_bytes();
        let this = it.path.as_bytes();
        while i < item_len && (n == 0 || i < max) {
            let c = this[i];
            if first.get(i) != Some(&c) {
                break;
            }
            if c == b'/' {
                len = i + 1;
            }
            i += 1;
        }
        if n == 0 || len < max {
            max = len;
            if max == 0 {
                break;
            }
        }
    }
    max
}

/// git 2.39 hands the common prefix length of the *positive* pathspecs to match_pathspec_item() for the exclude items as well, which
/// then reads `item->match + prefix` — past the end of an exclude item that does not share that prefix (`git ls-files a/ ':!b'`
/// lists nothing). The oracle is unusable for such lists.
fn git_exclude_prefix_bug(specs: &[String], cwd: &str) -> bool {
    let Some(items) = specs.iter().map(|s| git_item(s, cwd)).collect::<Option<Vec<_>>>() else { return false };
    if !items.iter().any(|i| i.exclude) || items.iter().all(|i| i.exclude) {
        return false;
    }
    let max = git_max_prefix(&items);
    let Some(first_positive) = items.iter().find(|i| !i.exclude) else { return false };
    max > 0 && items.iter().filter(|i| i.exclude).any(|i| !i.path.starts_with(&first_positive.path[..max]))
}

/// git 2.39 cuts the common prefix of the positive pathspecs off the path *before* looking up its attributes (dir.c:
/// match_pathspec_item() hands the shortened name to match_pathspec_attrs()), so with a non-empty common prefix the attributes of a
/// different path are consulted (`git -C a ls-files ':(attr:y)'` asks for the attributes of `b`, not `a/b`). Oracle unusable.
fn git_attr_prefix_bug(specs: &[String], cwd: &str) -> bool {
    let Some(items) = specs.iter().map(|s| git_item(s, cwd)).collect::<Option<Vec<_>>>() else { return false };
    items.iter().any(|i| i.attr) && !items.iter().all(|i| i.exclude) && git_max_prefix(&items) > 0
}

/// The index paths gix_pathspec selects (matched and not excluded) for `specs` given in the working directory `cwd`.
fn gix_select(root: &Path, cwd: &str, specs: &[String]) -> Result<BTreeSet<String>, String> {
    let parsed: Result<Vec<_>, _> = specs.iter().map(|s| gix_pathspec::parse(s.as_bytes(), Default::default())).collect();
    let mut search = parsed
        .map_err(|e| e.to_string())
        .and_then(|p| gix_pathspec::Search::from_specs(p, (!cwd.is_empty()).then(|| Path::new(cwd)), root).map_err(|e| e.to_string()))?;
    let mut collection = Default::default();
    let attrs = match gix_attributes::Search::new_globals(Some(root.join(".gitattributes")), &mut Vec::new(), &mut collection) {
        Ok(a) => a,
        Err(e) => vkit::machinery!("cannot read fixture attributes: {e}"),
    };
    let mut ours = BTreeSet::new();
    for p in PATHS {
        let rela: &BStr = p.into();
        let selected = search
            .pattern_matching_relative_path(rela, Some(false), &mut |rela_path, case, is_dir, out| {
                out.initialize(&collection);
                attrs.pattern_matching_relative_path(rela_path, case, Some(is_dir), out)
            })
            .map_or(false, |m| !m.is_excluded());
        if selected {
            ours.insert(p.to_string());
        }
    }
    Ok(ours)
}

fn eval(root: &Path, c: &SpecCase) -> Verdict {
    // ---- outside the domain ----
    let is_exclude = |s: &String| s.starts_with(":!") || (s.starts_with(":(") && s[..s.find(')').unwrap_or(0)].contains("exclude"));
    if !c.cwd.is_empty() && c.specs.iter().all(is_exclude) {
        OUTSIDE_DOMAIN.fetch_add(1, Ordering::Relaxed);
        return ok_trivial("outside-domain:exclude-only-from-subdirectory");
    }
    if git_exclude_prefix_bug(&c.specs, &c.cwd) {
        OUTSIDE_DOMAIN.fetch_add(1, Ordering::Relaxed);
        return ok_trivial("outside-domain:git-reads-past-exclude-item");
    }
    if git_attr_prefix_bug(&c.specs, &c.cwd) {
        OUTSIDE_DOMAIN.fetch_add(1, Ordering::Relaxed);
        return ok_trivial("outside-domain:git-looks-up-attributes-of-prefix-stripped-path");
    }
    // ---- git ----
    let mut args: Vec<&str> = vec!["ls-files", "-z", "--full-name", "--"];
    args.extend(c.specs.iter().map(String::as_str));
    let out = vkit::git::try_git(&root.join(&c.cwd), &args);
    GIT_CALLS.fetch_add(1, Ordering::Relaxed);
    let git: Option<BTreeSet<String>> =
        out.ok.then(|| out.stdout.split(|b| *b == 0).filter(|s| !s.is_empty()).map(|s| s.to_str_lossy().into_owned()).collect());
    if let Some(g) = &git {
        if let Some(unknown) = g.iter().find(|p| !PATHS.contains(&p.as_str())) {
            vkit::machinery!("git ls-files listed {unknown:?} which is not in the fixture");
        }
    } else if out.code != Some(128) {
        vkit::machinery!("git ls-files {:?} died unexpectedly ({:?}): {}", c.specs, out.code, out.err_text());
    }

    // ---- gitoxide ----
    let ours = match (gix_select(root, &c.cwd, &c.specs), &git) {
        (Ok(s), Some(_)) => s,
        (Err(_), None) => {
            GIT_REFUSED.fetch_add(1, Ordering::Relaxed);
            return ok_trivial("both-refuse");
        }
        (Ok(_), None) => {
            // git is stricter about what it accepts (e.g. a spec that matches nothing is fine, one leaving the repository is not);
            // selection cannot be compared.
            GIT_REFUSED.fetch_add(1, Ordering::Relaxed);
            return ok_trivial("git-refuses");
        }
        (Err(e), Some(g)) => {
            return bad("refused", format!("specs {:?} from cwd {:?}: git lists {g:?}, gitoxide refuses the specs: {e}", c.specs, c.cwd));
        }
    };
    let git = git.expect("handled above");
    // the selected set must not depend on the order of the specs (it never does in git)
    if (2..=3).contains(&c.specs.len()) {
        let mut other: Option<(Vec<String>, BTreeSet<String>)> = None;
        vkit::enumerate::permutations(&c.specs, |perm| {
            if other.is_none() && perm != c.specs.as_slice() {
                if let Ok(sel) = gix_select(root, &c.cwd, perm) {
                    if sel != ours {
                        other = Some((perm.to_vec(), sel));
                    }
                }
            }
        });
        PERMUTATIONS.fetch_add(if c.specs.len() == 2 { 1 } else { 5 }, Ordering::Relaxed);
        if let Some((perm, sel)) = other {
            return bad(
                "order-dependent",
                format!("from cwd {:?}: specs {:?} select {ours:?} but the same specs in the order {perm:?} select {sel:?} (git ls-files: {git:?})", c.cwd, c.specs),
            );
        }
    }
    PATH_DECISIONS.fetch_add(PATHS.len() as u64, Ordering::Relaxed);
    SELECTED.fetch_add(git.len() as u64, Ordering::Relaxed);
    if ours != git {
        let extra: Vec<_> = ours.difference(&git).collect();
        let missing: Vec<_> = git.difference(&ours).collect();
        // Open known finding: `(` directly after short magic (`:!(icase)A`). git ends the short form there and takes `(icase)A` as the
        // path, gix_pathspec continues with long magic (its own parse test pins `:!(literal)some/*path`). Own class for such lists.
        let short_then_paren = c.specs.iter().any(|s| {
            let b = s.as_bytes();
            b.len() > 2 && b[0] == b':' && matches!(b[1], b'!' | b'^' | b'/') && b[1..].iter().position(|c| !matches!(c, b'!' | b'^' | b'/')).map_or(false, |i| b[1 + i] == b'(')
        });
        let class = match (short_then_paren, extra.is_empty(), missing.is_empty()) {
            (true, _, _) => "paren-after-short-magic",
            (false, false, true) => "selects-more",
            (false, true, false) => "selects-less",
            _ => "selects-different",
        };
        if std::env::var_os("C39_DEBUG").is_some() {
            eprintln!("DEBUG {class} {:?} cwd={:?} extra={extra:?} missing={missing:?}", c.specs, c.cwd);
        }
        return bad(
            class,
            format!(
                "specs {:?} from cwd {:?}: gitoxide additionally selects {extra:?} and misses {missing:?} (git ls-files: {git:?})",
                c.specs, c.cwd
            ),
        );
    }
    if git.is_empty() {
        return ok_trivial("selects-nothing");
    }
    if git.len() == PATHS.len() {
        return ok_trivial("selects-everything");
    }
    let mut kinds: Vec<&str> = Vec::new();
    let any = |f: &dyn Fn(&str) -> bool| c.specs.iter().any(|s| f(s));
    if any(&|s| s.contains("exclude") || s.starts_with(":!")) {
        kinds.push("exclude");
    }
    if any(&|s| s.contains("glob")) {
        kinds.push("glob");
    }
    if any(&|s| s.contains("icase")) {
        kinds.push("icase");
    }
    if any(&|s| s.contains("literal")) {
        kinds.push("literal");
    }
    if any(&|s| s.contains("attr")) {
        kinds.push("attr");
    }
    if any(&|s| s.contains("top") || s.starts_with(":/")) {
        kinds.push("top");
    }
    if any(&|s| !s.starts_with(':') && s.contains(['*', '?', '['])) {
        kinds.push("wildcard");
    }
    if kinds.is_empty() {
        kinds.push("plain");
    }
    ok(format!("{}{}", kinds.join("+"), if c.cwd.is_empty() { "" } else { "@a/" }))
}

pub fn run(run: &'static Run) {
    let specs: Vec<&str> = if run.quick() { SPECS[..QUICK_SPECS].to_vec() } else { SPECS.to_vec() };
    run.rule(format!(
        "index paths (fixed, all selected/not-selected decisions are per path): {PATHS:?}; root .gitattributes = {ATTRIBUTES:?}. pathspec lists: every ordered list of 1..2 specs \
         from {specs:?}{}, each run from the repository root and from the sub-directory a/. Compared: the set of index paths selected (matched and not excluded) by \
         gix_pathspec::Search::pattern_matching_relative_path with the set printed by `git ls-files --full-name -- <specs>`. non-trivial = git selects some but not all paths",
        format!(
            ", plus every ordered list of 3 specs from {PREFIX_SPECS:?}{}; for every list of 2..3 specs all permutations must select the same set in gitoxide",
            if run.quick() { String::new() } else { format!(" and from {TRIPLE_SPECS:?}") }
        )
    ));
    run.assume("git 2.39.5 `ls-files` as oracle; lists git refuses (exit 128, e.g. a spec leaving the repository) are not compared");
    run.assume("every index entry is a regular file at stage 0 (is_dir = false for all queries)");
    run.assume(
        "outside the domain: lists consisting only of exclude specs, run from a sub-directory. What they are implicitly relative to is a per-command policy in git \
         (PATHSPEC_PREFER_CWD for ls-files: the working directory; PATHSPEC_PREFER_FULL e.g. for diff/log: the whole tree); gix_pathspec::Search implements the latter",
    );
    run.assume(
        "outside the domain (oracle unusable): lists with an `attr:` spec whose positive specs share a non-empty directory prefix (e.g. any such list run from a/ without a \
         `:(top)`/`../` spec): git 2.39 looks up the attributes of the path with that prefix cut off (`git -C a ls-files ':(attr:y)'` misses a/b although `a/* y` applies)",
    );
    run.assume(
        "outside the domain (oracle unusable): lists whose positive specs share a directory prefix that an exclude spec does not start with, e.g. `git ls-files a/ ':!b'`: \
         git 2.39 skips that prefix in the exclude item too and reads past its end (it then lists nothing at all). The condition is computed by a transcription of dir.c:common_prefix_len()",
    );
    run.budget_secs(run.pick(300.0, 2400.0)); // ~1 s / ~5 s of work on an idle 16-core box (one git process per case); headroom because the box is shared

    // ---- shared read-only fixture ----
    let fixture = vkit::scratch::Dir::new("c39");
    let root = fixture.path().to_path_buf();
    vkit::git::init(&root);
    std::fs::write(root.join(".gitattributes"), ATTRIBUTES).unwrap_or_else(|e| vkit::machinery!("write: {e}"));
    std::fs::create_dir_all(root.join("a")).unwrap_or_else(|e| vkit::machinery!("mkdir: {e}"));
    vkit::git::git(&root, &["add", ".gitattributes"]);
    let empty = vkit::git::git_in(&root, &["hash-object", "-w", "--stdin"], b"");
    let empty = String::from_utf8_lossy(&empty).trim().to_string();
    let mut input = Vec::new();
    for p in PATHS.iter().filter(|p| **p != ".gitattributes") {
        input.extend_from_slice(format!("100644 {empty} {}\t{p}", if STAGE1.contains(p) { 1 } else { 0 }).as_bytes());
        input.push(0);
    }
    vkit::git::git_in(&root, &["update-index", "-z", "--index-info"], &input);
    let listed = vkit::git::git(&root, &["ls-files", "-z"]);
    let listed: BTreeSet<String> = listed.split(|b| *b == 0).filter(|s| !s.is_empty()).map(|s| s.to_str_lossy().into_owned()).collect();
    if listed != PATHS.iter().map(|s| s.to_string()).collect::<BTreeSet<_>>() {
        vkit::machinery!("fixture index holds {listed:?}");
    }

    let root_ref = &root;
    run.sub_with(
        "ls-files",
        vkit::Opts::default().chunk(128),
        |emit| {
            for n in 1..=2usize {
                vkit::enumerate::seqs(&specs, n, n, |list| {
                    for cwd in ["", "a"] {
                        emit(SpecCase { cwd: cwd.into(), specs: list.iter().map(|s| s.to_string()).collect() });
                    }
                });
            }
            vkit::enumerate::seqs(&PREFIX_SPECS, 3, 3, |list| {
                for cwd in ["", "a"] {
                    emit(SpecCase { cwd: cwd.into(), specs: list.iter().map(|s| s.to_string()).collect() });
                }
            });
            if !run.quick() {
                vkit::enumerate::seqs(&TRIPLE_SPECS, 3, 3, |list| {
                    for cwd in ["", "a"] {
                        emit(SpecCase { cwd: cwd.into(), specs: list.iter().map(|s| s.to_string()).collect() });
                    }
                });
            }
        },
        |c: &SpecCase| eval(root_ref, c),
    );
    drop(fixture);
    if !run.is_replay() {
        run.cov("path_decisions_compared", PATH_DECISIONS.load(Ordering::Relaxed));
        run.cov("paths_selected_by_git", SELECTED.load(Ordering::Relaxed));
        run.cov("lists_refused_by_git", GIT_REFUSED.load(Ordering::Relaxed));
        run.cov("permutations_checked_for_order_independence", PERMUTATIONS.load(Ordering::Relaxed));
        run.cov("lists_outside_domain", OUTSIDE_DOMAIN.load(Ordering::Relaxed));
        run.cov("oracle_calls_git", GIT_CALLS.load(Ordering::Relaxed));
        run.require("git selected paths", SELECTED.load(Ordering::Relaxed) > 100);
    }
}
