//! C29 — packet-line framing is exact and never panics (E1: bounded-exhaustive inputs + API scripts against a reference model).
use gix_packetline::{
    decode::{self, Stream},
    encode,
    read::ProgressAction,
    BandRef, Channel, ErrorRef, PacketLineRef, StreamingPeekableIter, TextRef, Writer,
};
use serde::{Deserialize, Serialize};
use std::io::{self, BufRead, Read, Write};
use vkit::{bad, enumerate, ok, ok_trivial, Run, Verdict, B};

const MAX_DATA: usize = 65516;
const MAX_LINE: usize = 65520;

// ---------------------------------------------------------------------------------------------
// reference model (written from git's Documentation/technical/protocol-common: pkt-line format)
// ---------------------------------------------------------------------------------------------

#[derive(Clone, PartialEq, Eq, Debug)]
enum L {
    Data(Vec<u8>),
    Flush,
    Delim,
    End,
}
impl L {
    fn of(l: PacketLineRef<'_>) -> L {
        match l {
            PacketLineRef::Data(d) => L::Data(d.to_vec()),
            PacketLineRef::Flush => L::Flush,
            PacketLineRef::Delimiter => L::Delim,
            PacketLineRef::ResponseEnd => L::End,
        }
    }
    fn short(&self) -> String {
        match self {
            L::Data(d) if d.len() > 24 => format!("Data({} bytes, starts {:?})", d.len(), B::new(&d[..8])),
            L::Data(d) => format!("Data({:?})", B::new(d)),
            o => format!("{o:?}"),
        }
    }
}

/// What one call of read_line()/peek_line() yields.
#[derive(Clone, PartialEq, Eq, Debug)]
enum Ev {
    None,
    Line(L),
    /// decode error: the prefix was not acceptable (class name)
    Decode(&'static str),
    /// an `ERR ` line turned into an io error carrying the message
    ErrLine(Vec<u8>),
    /// premature end of the stream
    Eof,
    /// some other io error
    Io(String),
}
impl Ev {
    fn short(&self) -> String {
        match self {
            Ev::Line(l) => l.short(),
            o => format!("{o:?}"),
        }
    }
}

fn ev_of(r: Option<io::Result<Result<PacketLineRef<'_>, decode::Error>>>) -> Ev {
    match r {
        None => Ev::None,
        Some(Err(e)) => {
            if let Some(inner) = e.get_ref().and_then(|i| i.downcast_ref::<gix_packetline::read::Error>()) {
                Ev::ErrLine(inner.message.to_vec())
            } else if e.kind() == io::ErrorKind::UnexpectedEof {
                Ev::Eof
            } else {
                Ev::Io(format!("{:?}", e.kind()))
            }
        }
        Some(Ok(Err(e))) => Ev::Decode(decode_class(&e)),
        Some(Ok(Ok(l))) => {
            if let Some(d) = l.as_slice() {
                if l.as_text().map(|t| t.0) != Some(strip_nl(d)) {
                    return Ev::Io(format!("as_text() of {:?} is {:?}: not the line minus exactly one trailing LF", B::new(d), l.as_text().map(|t| B::new(t.0))));
                }
            }
            Ev::Line(L::of(l))
        }
    }
}

fn decode_class(e: &decode::Error) -> &'static str {
    match e {
        decode::Error::HexDecode { .. } => "hex",
        decode::Error::DataLengthLimitExceeded { .. } => "oversized",
        decode::Error::DataIsEmpty => "empty",
        decode::Error::InvalidLineLength => "len3",
        decode::Error::Line { .. } => "line",
        decode::Error::NotEnoughData { .. } => "not-enough",
    }
}

fn hexval(c: u8) -> Option<u32> {
    match c {
        b'0'..=b'9' => Some((c - b'0') as u32),
        b'a'..=b'f' => Some((c - b'a' + 10) as u32),
        b'A'..=b'F' => Some((c - b'A' + 10) as u32),
        _ => None,
    }
}

/// Classification of a four byte prefix.
#[derive(Clone, Copy, PartialEq, Eq, Debug)]
enum Pfx {
    Flush,
    Delim,
    End,
    Bad(&'static str),
    /// number of payload bytes that follow
    Want(usize),
}
fn classify(p: &[u8]) -> Pfx {
    let mut v = 0u32;
    for &c in p {
        match hexval(c) {
            Some(d) => v = v * 16 + d,
            None => return Pfx::Bad("hex"),
        }
    }
    match v {
        0 => Pfx::Flush,
        1 => Pfx::Delim,
        2 => Pfx::End,
        3 => Pfx::Bad("len3"),
        4 => Pfx::Bad("empty"),
        v if v as usize > MAX_LINE => Pfx::Bad("oversized"),
        v => Pfx::Want(v as usize - 4),
    }
}

/// Reference model of `StreamingPeekableIter` over a byte stream.
struct Model<'a> {
    bytes: &'a [u8],
    pos: usize,
    peeked: Option<L>,
    done: bool,
    stopped_at: Option<L>,
    delims: Vec<L>,
    fail_on_err: bool,
}
impl<'a> Model<'a> {
    fn new(bytes: &'a [u8], delims: Vec<L>, fail_on_err: bool) -> Self {
        Model { bytes, pos: 0, peeked: None, done: false, stopped_at: None, delims, fail_on_err }
    }
    fn next(&mut self) -> Ev {
        self.done = false;
        self.stopped_at = None;
        let rest = &self.bytes[self.pos..];
        if rest.len() < 4 {
            self.pos = self.bytes.len();
            return Ev::Eof;
        }
        self.pos += 4;
        let line = match classify(&rest[..4]) {
            Pfx::Flush => L::Flush,
            Pfx::Delim => L::Delim,
            Pfx::End => L::End,
            Pfx::Bad(c) => return Ev::Decode(c),
            Pfx::Want(n) => {
                if rest.len() - 4 < n {
                    self.pos = self.bytes.len();
                    return Ev::Eof;
                }
                self.pos += n;
                L::Data(rest[4..4 + n].to_vec())
            }
        };
        if self.delims.contains(&line) {
            self.done = true;
            self.stopped_at = Some(line);
            return Ev::None;
        }
        if self.fail_on_err {
            if let L::Data(d) = &line {
                if d.starts_with(b"ERR ") {
                    self.done = true;
                    return Ev::ErrLine(d[4..].to_vec());
                }
            }
        }
        Ev::Line(line)
    }
    fn read(&mut self) -> Ev {
        if self.done {
            return Ev::None;
        }
        if let Some(l) = self.peeked.take() {
            return Ev::Line(l);
        }
        self.next()
    }
    fn peek(&mut self) -> Ev {
        if self.done {
            return Ev::None;
        }
        if let Some(l) = &self.peeked {
            return Ev::Line(l.clone());
        }
        let ev = self.next();
        if let Ev::Line(l) = &ev {
            self.peeked = Some(l.clone());
        }
        ev
    }
    fn reset(&mut self) {
        self.done = false;
        self.stopped_at = None;
    }
}

fn ref_encode(payload: &[u8]) -> Vec<u8> {
    let mut v = format!("{:04x}", payload.len() + 4).into_bytes();
    v.extend_from_slice(payload);
    v
}

/// A reader that hands out the stream in pieces: never across a cut position, never more than `chunk` bytes.
struct Pieces<'a> {
    data: &'a [u8],
    pos: usize,
    chunk: usize,
    cuts: &'a [usize],
}
impl Read for Pieces<'_> {
    fn read(&mut self, buf: &mut [u8]) -> io::Result<usize> {
        let mut n = buf.len().min(self.data.len() - self.pos).min(self.chunk);
        if let Some(&c) = self.cuts.iter().find(|&&c| c > self.pos) {
            n = n.min(c - self.pos);
        }
        buf[..n].copy_from_slice(&self.data[self.pos..self.pos + n]);
        self.pos += n;
        Ok(n)
    }
}

fn payload(len: usize, pat: u8) -> Vec<u8> {
    let mut v = match pat {
        0 => vec![b'a'; len],
        1 => {
            let mut v = vec![b'x'; len];
            for (d, s) in v.iter_mut().zip(b"ERR ") {
                *d = *s;
            }
            v
        }
        2 => {
            let mut v = vec![b'l'; len];
            if let Some(l) = v.last_mut() {
                *l = b'\n';
            }
            v
        }
        3 => {
            let mut v = vec![0u8; len];
            if let Some(f) = v.first_mut() {
                *f = 1;
            }
            v
        }
        4 => vec![b'\n'; len],
        // endings around the text terminator: "...x\r", "...\r\r", "...\r\n" (len 1: "\r", "\r", "\n")
        6 | 7 | 8 => {
            let tail: &[u8] = [&b"x\r"[..], b"\r\r", b"\r\n"][(pat - 6) as usize];
            let mut v = vec![b'c'; len];
            let n = tail.len().min(len);
            v[len - n..].copy_from_slice(&tail[tail.len() - n..]);
            v
        }
        _ => enumerate::lcg_bytes(len, len as u64 + 5),
    };
    v.truncate(len);
    v
}

// ---------------------------------------------------------------------------------------------
// sub "line": one line through every encoder and every decoder
// ---------------------------------------------------------------------------------------------
#[derive(Serialize, Deserialize, Hash, Clone, Debug)]
struct LineCase {
    /// 0 data, 1 text, 2 ERR, 3 band 1, 4 band 2, 5 band 3
    kind: u8,
    len: usize,
    pattern: u8,
}

static NO_DELIMS: &[PacketLineRef<'static>] = &[];
static FLUSH_ONLY: &[PacketLineRef<'static>] = &[PacketLineRef::Flush];
static ALL_CTRL: &[PacketLineRef<'static>] = &[PacketLineRef::Flush, PacketLineRef::Delimiter, PacketLineRef::ResponseEnd];

fn eval_line(c: &LineCase) -> Verdict {
    let data = payload(c.len, c.pattern);
    let (prefix, suffix): (&[u8], &[u8]) = match c.kind {
        0 => (b"", b""),
        1 => (b"", b"\n"),
        2 => (b"ERR ", b""),
        3 => (&[1], b""),
        4 => (&[2], b""),
        _ => (&[3], b""),
    };
    let chan = |k: u8| [Channel::Data, Channel::Progress, Channel::Error][(k - 3) as usize];
    let mut whole = prefix.to_vec();
    whole.extend_from_slice(&data);
    whole.extend_from_slice(suffix);
    let must_fail = data.is_empty() || whole.len() > MAX_DATA;
    let expect = ref_encode(&whole);

    // every encoder entry point
    let mut outs: Vec<(&str, io::Result<usize>, Vec<u8>)> = Vec::new();
    {
        let mut o = Vec::new();
        let r = match c.kind {
            0 => encode::data_to_write(&data, &mut o),
            1 => encode::text_to_write(&data, &mut o),
            2 => encode::error_to_write(&data, &mut o),
            k => encode::band_to_write(chan(k), &data, &mut o),
        };
        outs.push(("encode::*_to_write", r, o));
        let mut o = Vec::new();
        let r = match c.kind {
            0 => PacketLineRef::Data(&data).write_to(&mut o),
            1 => TextRef(&data).write_to(&mut o),
            2 => ErrorRef(&data).write_to(&mut o),
            3 => BandRef::Data(&data).write_to(&mut o),
            4 => BandRef::Progress(&data).write_to(&mut o),
            _ => BandRef::Error(&data).write_to(&mut o),
        };
        outs.push(("*Ref::write_to", r, o));
    }
    for (what, r, o) in &outs {
        match r {
            Err(_) if must_fail => {
                if !o.is_empty() {
                    return bad("refused-but-wrote", format!("{what}: error returned but {} bytes were written", o.len()));
                }
            }
            Err(e) => return bad("refused", format!("{what}: a {}-byte line was refused: {e}", whole.len())),
            Ok(_) if must_fail => {
                return bad("accepted-unencodable", format!("{what}: payload of {} bytes accepted, wrote prefix {:?}", whole.len(), B::new(&o[..4.min(o.len())])))
            }
            Ok(n) => {
                if o != &expect {
                    return bad(
                        "encoding",
                        format!("{what}: wrote {} bytes starting {:?}, expected {} bytes starting {:?}", o.len(), B::new(&o[..o.len().min(12)]), expect.len(), B::new(&expect[..12.min(expect.len())])),
                    );
                }
                if *n != expect.len() {
                    return bad("written-count", format!("{what}: returned {n}, wrote {}", expect.len()));
                }
            }
        }
    }
    if must_fail {
        return ok_trivial(if data.is_empty() { "refused-empty" } else { "refused-too-long" });
    }
    let enc = &outs[0].2;

    // decoders: streaming on every interesting cut, all_at_once, blocking reader (read / peek+read)
    for k in [0usize, 1, 2, 3, 4, 5.min(enc.len() - 1), enc.len() - 1] {
        match decode::streaming(&enc[..k]) {
            Ok(Stream::Incomplete { bytes_needed }) => {
                let want = if k < 4 { 4 - k } else { enc.len() - k };
                if bytes_needed != want {
                    return bad("incomplete-count", format!("streaming() of the first {k} of {} bytes needs {bytes_needed}, expected {want}", enc.len()));
                }
            }
            other => return bad("incomplete", format!("streaming() of the first {k} of {} bytes: {other:?}", enc.len())),
        }
    }
    let mut longer = enc.clone();
    longer.extend_from_slice(b"0000");
    for (what, input) in [("exact", enc), ("with-trailing-bytes", &longer)] {
        match decode::streaming(input) {
            Ok(Stream::Complete { line, bytes_consumed }) => {
                if L::of(line) != L::Data(whole.clone()) || bytes_consumed != enc.len() {
                    return bad("streaming", format!("{what}: decoded {} consuming {bytes_consumed}, wrote {} bytes", L::of(line).short(), enc.len()));
                }
            }
            other => return bad("streaming", format!("{what}: {other:?}")),
        }
        match decode::all_at_once(input) {
            Ok(line) if L::of(line) == L::Data(whole.clone()) => {}
            other => return bad("all_at_once", format!("{what}: {:?}", other.map(|l| L::of(l).short()))),
        }
    }
    for peek_first in [false, true] {
        let mut it = StreamingPeekableIter::new(&longer[..], NO_DELIMS, false);
        if peek_first {
            for _ in 0..2 {
                let ev = ev_of(it.peek_line());
                if ev != Ev::Line(L::Data(whole.clone())) {
                    return bad("peek_line", format!("got {}", ev.short()));
                }
            }
        }
        let r = it.read_line();
        // interpretation of the decoded line gives back exactly what was passed to the encoder
        let line = match r {
            Some(Ok(Ok(l))) => l,
            other => return bad("read_line", format!("peek_first={peek_first}: {}", ev_of(other).short())),
        };
        if L::of(line) != L::Data(whole.clone()) {
            return bad("read_line", format!("peek_first={peek_first}: got {}", L::of(line).short()));
        }
        let back: Option<Vec<u8>> = match c.kind {
            0 => line.as_slice().map(<[u8]>::to_vec),
            1 => line.as_text().map(|t| t.0.to_vec()),
            2 => line.check_error().map(|e| e.0.to_vec()),
            k => match (k, line.decode_band()) {
                (3, Ok(BandRef::Data(d))) | (4, Ok(BandRef::Progress(d))) | (5, Ok(BandRef::Error(d))) => Some(d.to_vec()),
                _ => None,
            },
        };
        if back.as_deref() != Some(&data[..]) {
            return bad("interpretation", format!("kind {} line of {} bytes reads back as {:?}", c.kind, data.len(), back.map(|b| B::new(&b[..b.len().min(16)]))));
        }
        let ev = ev_of(it.read_line());
        if ev != Ev::Line(L::Flush) {
            return bad("read_line", format!("line after the data line should be flush, got {}", ev.short()));
        }
        let ev = ev_of(it.read_line());
        if ev != Ev::Eof {
            return bad("read_line", format!("end of stream gives {}", ev.short()));
        }
    }
    ok(format!("kind{}-{}", c.kind, if c.len > 1000 { "long" } else { "short" }))
}

// ---------------------------------------------------------------------------------------------
// sub "writer": the `Writer` splits/frames arbitrary writes
// ---------------------------------------------------------------------------------------------
#[derive(Serialize, Deserialize, Hash, Clone, Debug)]
struct WriterCase {
    text: bool,
    len: usize,
    pattern: u8,
}
fn eval_writer(c: &WriterCase) -> Verdict {
    let data = payload(c.len, c.pattern);
    let mut w = Writer::new(Vec::new());
    if c.text {
        w.enable_text_mode();
    }
    let r = w.write(&data);
    let out = w.into_inner();
    match r {
        Err(_) => {
            // refused: whatever was written before the refusal must still be well-formed complete lines
            let mut m = Model::new(&out, vec![], false);
            while m.pos < out.len() {
                match m.next() {
                    Ev::Line(_) => {}
                    other => return bad("writer-garbage", format!("refused write left undecodable output: {}", other.short())),
                }
            }
            if data.is_empty() {
                ok_trivial("writer-refused-empty")
            } else if c.text && data.len() >= MAX_DATA {
                ok_trivial("writer-refused-text-at-limit")
            } else {
                bad("writer-refused", format!("write of {} bytes (text={}) refused", data.len(), c.text))
            }
        }
        Ok(n) => {
            if n != data.len() {
                return bad("writer-count", format!("write() of {} bytes returned {n}", data.len()));
            }
            // decode with the real reader and concatenate
            let mut it = StreamingPeekableIter::new(&out[..], NO_DELIMS, false);
            let mut cat = Vec::new();
            let mut lines = 0;
            loop {
                match it.read_line() {
                    Some(Ok(Ok(l))) => {
                        lines += 1;
                        let piece = if c.text { l.as_text().map(|t| t.0) } else { l.as_slice() };
                        match piece {
                            Some(p) => cat.extend_from_slice(p),
                            None => return bad("writer-line", "non-data line in writer output"),
                        }
                    }
                    other => {
                        let ev = ev_of(other);
                        if ev == Ev::Eof {
                            break;
                        }
                        return bad("writer-decode", format!("writer output does not decode: {}", ev.short()));
                    }
                }
            }
            if cat != data {
                return bad("writer-roundtrip", format!("{} bytes written, {} bytes read back in {lines} lines", data.len(), cat.len()));
            }
            ok(format!("writer-{}-lines{}", if c.text { "text" } else { "binary" }, lines.min(3)))
        }
    }
}

// ---------------------------------------------------------------------------------------------
// sub "prefix": every four byte prefix through every decoder
// ---------------------------------------------------------------------------------------------
#[derive(Serialize, Deserialize, Hash, Clone, Debug)]
struct PrefixCase {
    prefix: B,
    /// first payload byte (band designator position)
    first: u8,
    /// 0: as many payload bytes as the prefix asks for, then a flush; 1: one byte less, then end of stream; 2: end of stream after the prefix
    avail: u8,
}

fn filler() -> &'static [u8] {
    static F: std::sync::OnceLock<Vec<u8>> = std::sync::OnceLock::new();
    F.get_or_init(|| (0..65535usize).map(|i| ((i * 31 + 7) % 256) as u8).collect())
}

thread_local! {
    static SCRATCH: std::cell::Cell<Vec<u8>> = const { std::cell::Cell::new(Vec::new()) };
}

fn strip_nl(d: &[u8]) -> &[u8] {
    match d.split_last() {
        Some((b'\n', rest)) => rest,
        _ => d,
    }
}

fn eval_prefix(c: &PrefixCase) -> Verdict {
    if c.prefix.len() != 4 {
        vkit::machinery!("prefix case needs 4 bytes");
    }
    let class = classify(&c.prefix);
    let fill = filler();
    // asked = payload bytes the prefix asks for (also for oversized prefixes: the sender would send them)
    let asked = match class {
        Pfx::Want(n) => n,
        Pfx::Bad("oversized") => {
            let v = c.prefix.iter().fold(0usize, |a, &ch| a * 16 + hexval(ch).unwrap_or(0) as usize);
            v - 4
        }
        _ => 0,
    };
    let have = match c.avail {
        0 => asked,
        1 => asked.saturating_sub(1),
        _ => 0,
    };
    let mut stream = c.prefix.to_vec();
    stream.extend_from_slice(&fill[..have]);
    if have > 0 {
        stream[4] = c.first;
    }
    if c.avail == 0 {
        stream.extend_from_slice(b"0000");
    }
    let complete = have == asked;
    let data = &stream[4..4 + have];

    // --- slice decoders
    let exp_line = match class {
        Pfx::Flush => Some(L::Flush),
        Pfx::Delim => Some(L::Delim),
        Pfx::End => Some(L::End),
        Pfx::Want(_) if complete => Some(L::Data(data.to_vec())),
        _ => None,
    };
    let s = decode::streaming(&stream);
    let a = decode::all_at_once(&stream);
    match (class, &s, &a) {
        (Pfx::Bad(cl), Err(e), Err(e2)) => {
            if decode_class(e) != cl || decode_class(e2) != cl {
                return bad("error-kind", format!("prefix is {cl}, streaming says {e:?}, all_at_once says {e2:?}"));
            }
        }
        (Pfx::Bad(cl), s, a) => {
            return bad("accepted-malformed", format!("prefix is {cl} but streaming -> {:?}, all_at_once -> {:?}", s.as_ref().map(|_| "ok"), a.as_ref().map(|l| L::of(*l).short())))
        }
        (_, Ok(Stream::Complete { line, bytes_consumed }), Ok(line2)) if exp_line.is_some() => {
            let want_consumed = 4 + if matches!(class, Pfx::Want(_)) { asked } else { 0 };
            if Some(L::of(*line)) != exp_line || Some(L::of(*line2)) != exp_line || *bytes_consumed != want_consumed {
                return bad("decode", format!("streaming -> {} consumed {bytes_consumed}; expected {} consumed {want_consumed}", L::of(*line).short(), exp_line.as_ref().unwrap().short()));
            }
        }
        (Pfx::Want(n), Ok(Stream::Incomplete { bytes_needed }), Err(decode::Error::NotEnoughData { bytes_needed: b2 })) if !complete => {
            if *bytes_needed != n - have || b2 != bytes_needed {
                return bad("incomplete-count", format!("needs {bytes_needed}/{b2}, expected {}", n - have));
            }
        }
        (_, s, a) => return bad("decode", format!("class {class:?} complete={complete}: streaming -> {s:?}, all_at_once -> {:?}", a.as_ref().map(|l| L::of(*l).short()))),
    }

    // --- blocking reader: read_line, peek_line+read_line, with and without delimiters
    let exp_first = |delims: &[L]| -> (Ev, Option<L>) {
        match (&exp_line, class) {
            (Some(l), _) if delims.contains(l) => (Ev::None, Some(l.clone())),
            (Some(l), _) => (Ev::Line(l.clone()), None),
            (None, Pfx::Bad(cl)) => (Ev::Decode(cl), None),
            (None, _) => (Ev::Eof, None),
        }
    };
    for (delims, dl) in [(NO_DELIMS, vec![]), (ALL_CTRL, vec![L::Flush, L::Delim, L::End])] {
        let (want, want_stop) = exp_first(&dl);
        for peek in [false, true] {
            let mut it = StreamingPeekableIter::new(&stream[..], delims, false);
            let got = if peek { ev_of(it.peek_line()) } else { ev_of(it.read_line()) };
            let acceptable = got == want
                // an oversized prefix must be *an error*; which one (decode error or io error) is not prescribed
                || (class == Pfx::Bad("oversized") && matches!(got, Ev::Decode(_) | Ev::Io(_) | Ev::Eof));
            if !acceptable {
                return bad(
                    if peek { "peek_line" } else { "read_line" },
                    format!("delimiters={}: got {}, expected {}", dl.len(), got.short(), want.short()),
                );
            }
            let stop = it.stopped_at().map(L::of);
            if stop != want_stop {
                return bad("stopped_at", format!("got {stop:?}, expected {want_stop:?}"));
            }
            if peek && matches!(want, Ev::Line(_)) {
                let again = ev_of(it.read_line());
                if again != want {
                    return bad("read-after-peek", format!("got {}, expected {}", again.short(), want.short()));
                }
            }
            // what follows a complete data line is the flush we appended
            if c.avail == 0 && matches!(want, Ev::Line(L::Data(_))) {
                let next = ev_of(it.read_line());
                let want_next = if dl.is_empty() { Ev::Line(L::Flush) } else { Ev::None };
                if next != want_next {
                    return bad("following-line", format!("got {}, expected {}", next.short(), want_next.short()));
                }
            }
        }
    }

    // --- sideband reader (with progress handler: band demultiplexing; without: raw lines)
    for with_handler in [true, false] {
        let mut it = StreamingPeekableIter::new(&stream[..], FLUSH_ONLY, false);
        let mut progress: Vec<(bool, Vec<u8>)> = Vec::new();
        let mut buf = SCRATCH.with(|s| s.take());
        buf.resize(70000, 0);
        let (r1, r2);
        if with_handler {
            let mut rd = it.as_read_with_sidebands(|is_err: bool, t: &[u8]| {
                progress.push((is_err, t.to_vec()));
                ProgressAction::Continue
            });
            r1 = rd.read(&mut buf).map(|n| buf[..n].to_vec());
            r2 = if r1.is_ok() { Some(rd.read(&mut [0u8; 16])) } else { None };
        } else {
            let mut rd = it.as_read();
            r1 = rd.read(&mut buf).map(|n| buf[..n].to_vec());
            r2 = if r1.is_ok() { Some(rd.read(&mut [0u8; 16])) } else { None };
        }
        SCRATCH.with(|s| s.set(buf));
        // expected
        #[derive(Debug, PartialEq)]
        enum X {
            Data(Vec<u8>),
            Error,
        }
        let mut exp_progress: Vec<(bool, Vec<u8>)> = Vec::new();
        let exp = match &exp_line {
            Some(L::Flush) => X::Data(vec![]),
            Some(L::Delim) | Some(L::End) => X::Error,
            Some(L::Data(d)) if !with_handler => X::Data(d.clone()),
            Some(L::Data(d)) => match d[0] {
                1 => X::Data(d[1..].to_vec()), // empty band-1 payload: skipped, then the flush -> end of data
                b @ (2 | 3) => {
                    exp_progress.push((b == 3, strip_nl(&d[1..]).to_vec()));
                    X::Data(vec![]) // then the flush
                }
                _ => X::Error,
            },
            None => X::Error,
        };
        let got = match &r1 {
            Ok(d) => X::Data(d.clone()),
            Err(_) => X::Error,
        };
        if got != exp {
            let show = |x: &X| match x {
                X::Data(d) => format!("{} data bytes", d.len()),
                X::Error => "error".into(),
            };
            return bad("sideband", format!("handler={with_handler}: got {}, expected {}", show(&got), show(&exp)));
        }
        if with_handler && progress != exp_progress {
            return bad("sideband-progress", format!("got {:?}, expected {:?}", progress.iter().map(|(e, t)| (*e, t.len())).collect::<Vec<_>>(), exp_progress.iter().map(|(e, t)| (*e, t.len())).collect::<Vec<_>>()));
        }
        if let (X::Data(d), Some(r2)) = (&exp, r2) {
            // after the data (or directly) comes the flush: end of data, and it stays that way
            let _ = d;
            if !matches!(r2, Ok(0)) {
                return bad("sideband-end", format!("handler={with_handler}: second read did not report end of data"));
            }
        }
    }

    match class {
        Pfx::Bad(cl) => ok(format!("prefix-{cl}")),
        Pfx::Want(_) if !complete => ok("prefix-data-truncated"),
        Pfx::Want(n) => ok(format!(
            "prefix-data-{}",
            match c.first {
                1..=3 if n == 1 => "empty-band".to_string(),
                1..=3 => format!("band{}", c.first),
                _ => "noband".into(),
            }
        )),
        _ => ok("prefix-control"),
    }
}

// ---------------------------------------------------------------------------------------------
// sub "stream": line sequences x API scripts x chunkings x configuration against the model
// ---------------------------------------------------------------------------------------------
#[derive(Serialize, Deserialize, Hash, Clone, Debug)]
struct StreamCase {
    /// token indexes, see `token_bytes`
    tokens: Vec<u8>,
    /// R = read_line, P = peek_line, X = reset
    script: String,
    /// 0 none, 1 flush, 2 flush+delim+response-end
    delims: u8,
    fail_on_err: bool,
    chunk: usize,
    cuts: Vec<usize>,
    /// drop this many bytes from the end of the stream
    truncate: usize,
}

const TOKENS: usize = 17;
fn token_bytes(t: u8) -> &'static [u8] {
    static T: std::sync::OnceLock<Vec<Vec<u8>>> = std::sync::OnceLock::new();
    &T.get_or_init(|| (0..TOKENS as u8).map(token_bytes_uncached).collect())[t as usize]
}
fn token_bytes_uncached(t: u8) -> Vec<u8> {
    let enc = |f: &dyn Fn(&mut Vec<u8>) -> io::Result<usize>| {
        let mut v = Vec::new();
        f(&mut v).expect("token encodes");
        v
    };
    match t {
        0 => enc(&|o| encode::data_to_write(b"a", o)),
        1 => enc(&|o| encode::flush_to_write(o)),
        2 => enc(&|o| encode::delim_to_write(o)),
        3 => enc(&|o| encode::response_end_to_write(o)),
        4 => enc(&|o| encode::text_to_write(b"t", o)),
        5 => enc(&|o| encode::error_to_write(b"e", o)),
        6 => enc(&|o| encode::band_to_write(Channel::Data, b"d", o)),
        7 => enc(&|o| encode::band_to_write(Channel::Progress, b"p\n", o)),
        8 => b"0004".to_vec(),
        9 => b"0003".to_vec(),
        10 => b"000g".to_vec(),
        11 => enc(&|o| encode::data_to_write(&payload(MAX_DATA, 5), o)),
        12 => enc(&|o| encode::error_to_write(&payload(MAX_DATA - 4, 0), o)),
        13 => b"000Aabcdef".to_vec(), // upper-case hex length
        14 => enc(&|o| encode::text_to_write(b"50%\r", o)),
        15 => enc(&|o| encode::error_to_write(b"e\r\n", o)),
        16 => enc(&|o| encode::text_to_write(b"\r", o)),
        _ => vkit::machinery!("unknown token"),
    }
}

fn eval_stream(c: &StreamCase) -> Verdict {
    let mut stream = Vec::new();
    for &t in &c.tokens {
        stream.extend_from_slice(token_bytes(t));
    }
    stream.truncate(stream.len().saturating_sub(c.truncate));
    let (delims, dl): (&'static [PacketLineRef<'static>], Vec<L>) = match c.delims {
        0 => (NO_DELIMS, vec![]),
        1 => (FLUSH_ONLY, vec![L::Flush]),
        _ => (ALL_CTRL, vec![L::Flush, L::Delim, L::End]),
    };
    let rd = Pieces { data: &stream, pos: 0, chunk: c.chunk.max(1), cuts: &c.cuts };
    let mut it = StreamingPeekableIter::new(rd, delims, false);
    it.fail_on_err_lines(c.fail_on_err);
    let mut m = Model::new(&stream, dl, c.fail_on_err);
    let mut lines = 0;
    let mut classes = 0u32;
    for (i, op) in c.script.bytes().enumerate() {
        let (got, want) = match op {
            b'R' => (ev_of(it.read_line()), m.read()),
            b'P' => (ev_of(it.peek_line()), m.peek()),
            b'X' => {
                it.reset();
                m.reset();
                (Ev::None, Ev::None)
            }
            _ => vkit::machinery!("bad script"),
        };
        if got != want {
            return bad(
                match op {
                    b'R' => "read_line",
                    b'P' => "peek_line",
                    _ => "reset",
                },
                format!("step {i} ({}): got {}, model says {}", op as char, got.short(), want.short()),
            );
        }
        let stop = it.stopped_at().map(L::of);
        if stop != m.stopped_at {
            return bad("stopped_at", format!("after step {i} ({}): got {stop:?}, model says {:?}", op as char, m.stopped_at));
        }
        match &got {
            Ev::Line(_) => {
                lines += 1;
                classes |= 1
            }
            Ev::None if op != b'X' => classes |= 2,
            Ev::Decode(_) => classes |= 4,
            Ev::ErrLine(_) => classes |= 8,
            Ev::Eof => classes |= 16,
            _ => {}
        }
    }
    // the unread remainder of the underlying stream is exactly what the model has not consumed
    let rest = it.into_inner();
    if rest.pos != m.pos {
        return bad("consumed", format!("reader consumed {} bytes of the stream, model {}", rest.pos, m.pos));
    }
    if lines == 0 {
        ok_trivial(format!("stream-nolines-{classes:02x}"))
    } else {
        ok(format!("stream-{classes:02x}"))
    }
}

// ---------------------------------------------------------------------------------------------
// sub "sideband": band sequences through WithSidebands (Read with every buffer size class, BufRead, read_line_to_string)
// ---------------------------------------------------------------------------------------------
#[derive(Serialize, Deserialize, Hash, Clone, Debug)]
struct BandCase {
    tokens: Vec<u8>,
    /// 0: io::Read with `bufsize`; 1: fill_buf/consume; 2: read_line_to_string per line; 3: BufRead::read_line
    mode: u8,
    bufsize: usize,
    /// interrupt at the n-th progress callback (0 = never)
    interrupt_at: u8,
    chunk: usize,
    /// false: no progress handler (lines are passed through verbatim)
    handler: bool,
}
const BAND_TOKENS: usize = 18;
fn band_token(t: u8) -> &'static [u8] {
    static T: std::sync::OnceLock<Vec<Vec<u8>>> = std::sync::OnceLock::new();
    &T.get_or_init(|| (0..BAND_TOKENS as u8).map(band_token_uncached).collect())[t as usize]
}
fn band_token_uncached(t: u8) -> Vec<u8> {
    let band = |b: u8, d: &[u8]| {
        let mut p = vec![b];
        p.extend_from_slice(d);
        ref_encode(&p)
    };
    match t {
        0 => band(1, b"d"),
        1 => band(1, b"xy\n"),
        2 => band(2, b"p\n"),
        3 => band(2, b"q"),
        4 => band(3, b"e\n"),
        5 => band(1, b""),
        6 => band(2, b""),
        7 => band(3, b""),
        8 => band(2, b"\n"),
        9 => ref_encode(b"a"),
        10 => b"0001".to_vec(),
        11 => band(1, &payload(MAX_DATA - 1, 5)),
        12 => band(2, &payload(MAX_DATA - 1, 2)),
        13 => band(2, b"50%\r"),
        14 => band(2, b"p\r\n"),
        15 => band(3, b"e\r\r"),
        16 => band(3, b"\r\n"),
        17 => band(2, b"\r"),
        _ => vkit::machinery!("unknown band token"),
    }
}

fn eval_band(c: &BandCase) -> Verdict {
    let mut stream = Vec::new();
    let mut items: Vec<Vec<u8>> = Vec::new(); // payloads incl. band byte; empty vec = delimiter line
    for &t in &c.tokens {
        let b = band_token(t);
        items.push(if t == 10 { vec![] } else { b[4..].to_vec() });
        stream.extend_from_slice(b);
    }
    stream.extend_from_slice(b"0000");
    let tail = ref_encode(b"\x01after-flush");
    stream.extend_from_slice(&tail);

    // model
    let mut exp_data: Vec<u8> = Vec::new();
    let mut exp_progress: Vec<(bool, Vec<u8>, usize)> = Vec::new();
    let mut exp_err = false;
    let mut exp_chunks: Vec<Vec<u8>> = Vec::new(); // what each fill_buf delivers
    for it in &items {
        if it.is_empty() {
            exp_err = true; // a delimiter line where bands (or data lines) are expected
            break;
        }
        if !c.handler {
            exp_data.extend_from_slice(it);
            exp_chunks.push(it.clone());
            continue;
        }
        match it[0] {
            1 => {
                if it.len() > 1 {
                    exp_data.extend_from_slice(&it[1..]);
                    exp_chunks.push(it[1..].to_vec());
                }
            }
            b @ (2 | 3) => {
                exp_progress.push((b == 3, strip_nl(&it[1..]).to_vec(), exp_data.len()));
                if c.interrupt_at as usize == exp_progress.len() {
                    exp_err = true;
                    break;
                }
            }
            _ => {
                exp_err = true;
                break;
            }
        }
    }

    let rd = Pieces { data: &stream, pos: 0, chunk: c.chunk.max(1), cuts: &[] };
    let mut it = StreamingPeekableIter::new(rd, FLUSH_ONLY, false);
    let mut got_data: Vec<u8> = Vec::new();
    let mut got_chunks: Vec<Vec<u8>> = Vec::new();
    let got_progress = std::cell::RefCell::new(Vec::<(bool, Vec<u8>, usize)>::new());
    let delivered = std::cell::Cell::new(0usize);
    let mut got_err = false;
    {
        let handler = |is_err: bool, t: &[u8]| {
            let mut g = got_progress.borrow_mut();
            g.push((is_err, t.to_vec(), delivered.get()));
            if c.interrupt_at as usize == g.len() {
                ProgressAction::Interrupt
            } else {
                ProgressAction::Continue
            }
        };
        let mut rd = if c.handler { it.as_read_with_sidebands(handler) } else { it.as_read_without_sidebands() };
        let mut guard = 0;
        loop {
            guard += 1;
            if guard > 400_000 {
                return bad("sideband-livelock", "reader keeps returning data beyond the stream length");
            }
            match c.mode {
                0 => {
                    let mut buf = vec![0u8; c.bufsize.max(1)];
                    match rd.read(&mut buf) {
                        Ok(0) => break,
                        Ok(n) => {
                            got_data.extend_from_slice(&buf[..n]);
                            delivered.set(got_data.len());
                        }
                        Err(_) => {
                            got_err = true;
                            break;
                        }
                    }
                }
                1 => match rd.fill_buf() {
                    Ok([]) => break,
                    Ok(b) => {
                        let n = b.len();
                        got_data.extend_from_slice(b);
                        got_chunks.push(b.to_vec());
                        delivered.set(got_data.len());
                        rd.consume(n);
                    }
                    Err(_) => {
                        got_err = true;
                        break;
                    }
                },
                2 => {
                    let mut s = String::new();
                    match rd.read_line_to_string(&mut s) {
                        Ok(0) => break,
                        Ok(n) => {
                            if n != s.len() {
                                return bad("read_line_to_string", format!("returned {n} for {} bytes", s.len()));
                            }
                            got_data.extend_from_slice(s.as_bytes());
                            got_chunks.push(s.into_bytes());
                            delivered.set(got_data.len());
                        }
                        Err(_) => {
                            got_err = true;
                            break;
                        }
                    }
                }
                _ => {
                    let mut s = String::new();
                    match BufRead::read_line(&mut rd, &mut s) {
                        Ok(0) => break,
                        Ok(_) => {
                            got_data.extend_from_slice(s.as_bytes());
                            delivered.set(got_data.len());
                        }
                        Err(_) => {
                            got_data.extend_from_slice(s.as_bytes());
                            got_err = true;
                            break;
                        }
                    }
                }
            }
        }
    }
    let mut got_progress = got_progress.into_inner();
    if c.mode == 3 {
        // BufRead::read_line spans several packet lines per call: the delivery offset seen by the callback is not observable
        for (g, e) in got_progress.iter_mut().zip(&exp_progress) {
            g.2 = e.2;
        }
    }
    // modes 2/3 need utf-8 text; the long tokens are binary -> a conversion error there is legitimate
    let binary = c.tokens.iter().any(|&t| t == 11 || (t == 12 && !c.handler));
    if binary && c.mode >= 2 {
        return if got_err || got_data == exp_data { ok_trivial("sideband-binary-as-text") } else { bad("sideband-data", "binary data through text reader neither failed nor round-tripped") };
    }
    if got_progress != exp_progress {
        let f = |v: &[(bool, Vec<u8>, usize)]| v.iter().map(|(e, t, at)| format!("({e},{:?},@{at})", B::new(&t[..t.len().min(8)]))).collect::<Vec<_>>().join(",");
        return bad("sideband-progress", format!("progress calls [{}], expected [{}]", f(&got_progress), f(&exp_progress)));
    }
    if got_data != exp_data {
        return bad("sideband-data", format!("delivered {} bytes {:?}.., expected {} bytes {:?}..", got_data.len(), B::new(&got_data[..got_data.len().min(12)]), exp_data.len(), B::new(&exp_data[..exp_data.len().min(12)])));
    }
    if got_err != exp_err {
        return bad("sideband-end", format!("ended with error={got_err}, expected error={exp_err}"));
    }
    if (c.mode == 1 || c.mode == 2) && got_chunks != exp_chunks {
        return bad("sideband-lines", format!("delivered {} pieces, expected one per data line = {}", got_chunks.len(), exp_chunks.len()));
    }
    if !got_err {
        // the reader stopped at the flush and left the rest of the stream untouched (WithSidebands resets the parent on drop)
        let ev = ev_of(it.read_line());
        if ev != Ev::Line(L::Data(tail[4..].to_vec())) {
            return bad("sideband-after-flush", format!("line after the flush reads as {}", ev.short()));
        }
    }
    let cls = format!("sideband-d{}-p{}-{}", exp_chunks.len().min(2), exp_progress.len().min(2), if exp_err { "err" } else { "eof" });
    if exp_data.is_empty() && exp_progress.is_empty() {
        ok_trivial(cls)
    } else {
        ok(cls)
    }
}

// ---------------------------------------------------------------------------------------------
// sub "blocking-crate-text": the generated copy gix-packetline-blocking: text / progress / error payloads around CR and LF
// ---------------------------------------------------------------------------------------------
#[derive(Serialize, Deserialize, Hash, Clone, Debug)]
struct CopyCase {
    /// 1 text line, 4 band 2 (progress), 5 band 3 (error)
    kind: u8,
    text: B,
}
static FLUSH_ONLY_COPY: &[gix_packetline_blocking::PacketLineRef<'static>] = &[gix_packetline_blocking::PacketLineRef::Flush];
fn eval_copy(c: &CopyCase) -> Verdict {
    use gix_packetline_blocking as pb;
    let d = &c.text.0[..];
    let mut out = Vec::new();
    if c.kind == 1 {
        if let Err(e) = pb::TextRef(d).write_to(&mut out) {
            return bad("refused", format!("text line {:?} refused: {e}", c.text));
        }
        let mut want = d.to_vec();
        want.push(b'\n');
        if out != ref_encode(&want) {
            return bad("encoding", format!("text {:?} written as {:?}", c.text, B::new(&out)));
        }
        return match pb::decode::all_at_once(&out) {
            Ok(line) if line.as_text().map(|t| t.0) == Some(d) => ok("copy-text"),
            Ok(line) => bad("interpretation", format!("text {:?} written as {:?} reads back as {:?}", c.text, B::new(&out), line.as_text().map(|t| B::new(t.0)))),
            Err(e) => bad("decode", format!("{:?} does not decode: {e}", B::new(&out))),
        };
    }
    let band = if c.kind == 4 { pb::BandRef::Progress(d) } else { pb::BandRef::Error(d) };
    if let Err(e) = band.write_to(&mut out) {
        return bad("refused", format!("band payload {:?} refused: {e}", c.text));
    }
    out.extend_from_slice(b"0000");
    let mut it = pb::StreamingPeekableIter::new(&out[..], FLUSH_ONLY_COPY, false);
    let mut seen: Vec<(bool, Vec<u8>)> = Vec::new();
    let res = {
        let mut rd = it.as_read_with_sidebands(|is_err: bool, t: &[u8]| {
            seen.push((is_err, t.to_vec()));
            pb::read::ProgressAction::Continue
        });
        let mut sink = Vec::new();
        rd.read_to_end(&mut sink).map(|_| sink)
    };
    let want = vec![(c.kind == 5, strip_nl(d).to_vec())];
    match res {
        Ok(data) if data.is_empty() && seen == want => ok(if c.kind == 4 { "copy-progress" } else { "copy-error" }),
        Ok(data) => bad("sideband-progress", format!("payload {:?}: handler saw {:?}, expected {:?} ({} data bytes)", c.text, seen.iter().map(|(e, t)| (*e, B::new(t))).collect::<Vec<_>>(), want.iter().map(|(e, t)| (*e, B::new(t))).collect::<Vec<_>>(), data.len())),
        Err(e) => bad("sideband-end", format!("payload {:?}: {e}", c.text)),
    }
}

pub fn run(run: &'static Run) {
    run.rule(
        "line: 6 kinds (data,text,ERR,band1..3) x payload lengths {0..6, 65505..65520} x 9 byte patterns (incl. 'ERR ' start, trailing LF, band-byte start, endings x CR, CR CR, CR LF) through encode::*_to_write, *Ref::write_to, \
         decode::streaming (7 cuts), all_at_once, read_line, peek_line+read_line; writer: binary/text x lengths around 1x and 2x the limit; \
         prefix: ALL 65536 lower-case + all upper-case four-hex-digit prefixes + non-hex bytes at each position, x first payload byte {1,2,3,'a'} x {full payload+flush, one byte short, nothing} through streaming, all_at_once, \
         read_line, peek_line (with and without delimiters) and WithSidebands with/without progress handler; \
         stream: all sequences <=3 of 17 line tokens (incl. 65516-byte lines, malformed 0003/0004/000g, upper-case hex, text/ERR lines ending in CR / CR LF; as_text() of every line read is checked) x all read/peek/reset scripts up to the bound x delimiters {none,flush,all} x fail_on_err x chunkings (all 1- and 2-cut splits of short streams, fixed sizes otherwise) x truncations, against a reference model; \
         blocking-crate-text: gix-packetline-blocking (generated copy) text lines and band-2/3 payloads = all strings <=3 over {x, CR, LF, 50%} through TextRef/BandRef::write_to, as_text() and WithSidebands; sideband: all sequences of 18 band tokens (empty payloads, LF-only, progress/error ending in CR, CR CR, CR LF, max-size, non-band, delimiter) x Read buffer sizes/BufRead/read_line_to_string x interrupt position. \
         non-trivial = at least one line was accepted and compared byte-for-byte (or, for prefixes, the prefix class was decided by every decoder)",
    );
    if run.quick() {
        run.rule("quick tier: every prefix once with full payload (band byte rotating) and only boundary prefixes (<=40, >=65480, 2^k, 2^k+-1, malformed) in all combinations; three-token streams with 4 full-read scripts and one configuration; read/peek/reset scripts <=4 (thorough <=5 for streams of <=2 tokens); band sequences <=3 (thorough <=4)");
    }
    run.assume("reference framing rules transcribed from git's protocol-common documentation: 4 hex digits (either case) = total length, 0000/0001/0002 control, 0003/0004 invalid, max 65520");
    run.assume("for a refused (malformed/oversized) prefix the blocking reader is expected to have consumed just the 4 prefix bytes");
    run.budget_secs(run.pick(40.0, 600.0));
    let quick = run.quick();
    // every reader owns a 64 KiB line buffer: keep freed memory in the allocator instead of returning it to the kernel each time
    unsafe {
        libc::mallopt(libc::M_TRIM_THRESHOLD, 1 << 30);
        libc::mallopt(libc::M_MMAP_THRESHOLD, 1 << 30);
    }

    // ---- line ----
    let lens: Vec<usize> = (0..=6).chain(65505..=65520).collect();
    run.sub(
        "line",
        |emit| {
            for &len in &lens {
                for kind in 0..6u8 {
                    for pattern in 0..9u8 {
                        emit(LineCase { kind, len, pattern });
                    }
                }
            }
        },
        eval_line,
    );
    run.sub(
        "writer",
        |emit| {
            for text in [false, true] {
                for len in [0usize, 1, 2, 65514, 65515, 65516, 65517, 131031, 131032, 131033, 196549] {
                    for pattern in [0u8, 2, 5] {
                        emit(WriterCase { text, len, pattern });
                    }
                }
            }
        },
        eval_writer,
    );

    // ---- the generated copy of the crate ----
    run.sub(
        "blocking-crate-text",
        |emit| {
            let toks: [&[u8]; 4] = [b"x", b"\r", b"\n", b"50%"];
            for kind in [1u8, 4, 5] {
                enumerate::strings(&toks, 1, 3, |t| emit(CopyCase { kind, text: B::new(t) }));
            }
        },
        eval_copy,
    );

    // ---- prefix ----
    run.sub_with(
        "prefix",
        vkit::Opts::default().chunk(16384),
        |emit| {
            let firsts: &[u8] = &[1, 2, 3, b'a'];
            let mut prefixes: Vec<Vec<u8>> = Vec::new();
            for v in 0..=0xffffu32 {
                prefixes.push(format!("{v:04x}").into_bytes());
            }
            for v in 0..=0xffffu32 {
                let s = format!("{v:04X}");
                if s.bytes().any(|b| b.is_ascii_uppercase()) {
                    prefixes.push(s.into_bytes());
                }
            }
            for pos in 0..4 {
                for bad in [b'g', b'G', b' ', b'-', b'+', 0u8, 0xff, b'/', b':', b'@', b'`', b'\n', b'x'] {
                    for base in [&b"0005"[..], b"ffff", b"0000"] {
                        let mut p = base.to_vec();
                        p[pos] = bad;
                        prefixes.push(p);
                    }
                }
            }
            prefixes.push(b"0x10".to_vec());
            prefixes.push(b" 010".to_vec());
            prefixes.push(b"+010".to_vec());
            prefixes.push(b"-001".to_vec());
            for (i, p) in prefixes.iter().enumerate() {
                let cl = classify(p);
                let wants = matches!(cl, Pfx::Want(_) | Pfx::Bad("oversized"));
                let v = p.iter().fold(0usize, |a, &ch| a * 16 + hexval(ch).unwrap_or(0) as usize);
                let boundary = !wants || v <= 40 || v >= 65480 || (v & (v - 1)) == 0 || ((v + 1) & v) == 0 || ((v - 1) & (v - 2)) == 0;
                for (fi, &first) in firsts.iter().enumerate() {
                    for avail in 0..3u8 {
                        // without payload all three availabilities describe nearly the same stream: keep 0 and 2, and one band byte
                        if !wants && (avail == 1 || first != 1) {
                            continue;
                        }
                        // quick tier: every prefix once (full payload, band byte rotating), boundary prefixes in every combination
                        if quick && !boundary && (avail != 0 || fi != i % 4) {
                            continue;
                        }
                        emit(PrefixCase { prefix: B(p.clone()), first, avail });
                    }
                }
            }
        },
        eval_prefix,
    );
    run.require("oversized prefixes fff1..ffff were presented", run.outcome_count("prefix-oversized") >= 15);
    run.require("empty band payloads were presented", run.outcome_count("prefix-data-empty-band") >= 3);

    // ---- stream ----
    let max_script = run.pick(4, 5);
    let mut scripts: Vec<String> = Vec::new();
    enumerate::seqs(&[b'R', b'P', b'X'], 1, max_script, |s| scripts.push(String::from_utf8(s.to_vec()).unwrap()));
    run.sub_with(
        "stream",
        vkit::Opts::default().chunk(65536),
        |emit| {
            let toks: Vec<u8> = (0..TOKENS as u8).collect();
            let mut seqs: Vec<Vec<u8>> = Vec::new();
            enumerate::seqs(&toks, 0, 3, |s| seqs.push(s.to_vec()));
            for tokens in &seqs {
                let long = tokens.iter().filter(|&&t| t == 11 || t == 12).count();
                let len: usize = tokens.iter().map(|&t| token_bytes(t).len()).sum();
                // scripts: long streams and 3-token streams get the scripts without reset only in the quick tier
                for script in &scripts {
                    if long > 0 && (script.len() > 4 || script.contains('X') && quick) {
                        continue;
                    }
                    // three-token streams: scripts up to 4 calls (quick: the four scripts that read everything, one configuration)
                    if tokens.len() == 3 && script.len() > 4 {
                        continue;
                    }
                    if quick && tokens.len() == 3 {
                        if ["RRRR", "PRPR", "PPRX", "RXRR"].contains(&script.as_str()) {
                            emit(StreamCase { tokens: tokens.clone(), script: script.clone(), delims: 1, fail_on_err: true, chunk: usize::MAX, cuts: vec![], truncate: 0 });
                        }
                        continue;
                    }
                    for delims in 0..3u8 {
                        for fail_on_err in [false, true] {
                            if long > 1 && !(delims == 1 && fail_on_err) {
                                continue;
                            }
                            let chunks: &[usize] = if long > 0 { &[3, 65519, 65520, 65521, usize::MAX] } else if quick { &[1, usize::MAX] } else { &[1, 3, 4, 5, usize::MAX] };
                            for &chunk in chunks {
                                if long > 0 && chunk == 3 && script.len() > 2 {
                                    continue;
                                }
                                emit(StreamCase { tokens: tokens.clone(), script: script.clone(), delims, fail_on_err, chunk, cuts: vec![], truncate: 0 });
                            }
                        }
                    }
                }
                // every 1- and 2-cut split and every truncation of short streams, with the two scripts that read everything
                if long == 0 && len > 0 && len <= 24 && !(quick && tokens.len() == 3) {
                    for script in ["RRRR", "PRPRPRPR", "PPRRX"] {
                        enumerate::cuts(len, 2, |cuts| {
                            if cuts.is_empty() {
                                return;
                            }
                            emit(StreamCase { tokens: tokens.clone(), script: script.into(), delims: 1, fail_on_err: true, chunk: usize::MAX, cuts: cuts.to_vec(), truncate: 0 });
                        });
                        for truncate in 1..=len.min(12) {
                            emit(StreamCase { tokens: tokens.clone(), script: script.into(), delims: 0, fail_on_err: false, chunk: usize::MAX, cuts: vec![], truncate });
                        }
                    }
                }
            }
        },
        eval_stream,
    );
    run.require("ERR lines were turned into errors", run.outcome_count("stream-09") + run.outcome_count("stream-0b") > 0);

    // ---- sideband ----
    let max_band = run.pick(3, 4);
    run.sub_with(
        "sideband",
        vkit::Opts::default().watchdog(30.0),
        |emit| {
            let toks: Vec<u8> = (0..BAND_TOKENS as u8).collect();
            let mut seqs: Vec<Vec<u8>> = Vec::new();
            enumerate::seqs(&toks, 0, max_band, |s| seqs.push(s.to_vec()));
            for tokens in &seqs {
                let long = tokens.iter().filter(|&&t| t == 11 || t == 12).count();
                if long > 2 || (long > 0 && tokens.len() > 3) {
                    continue;
                }
                let nprog = tokens.iter().filter(|&&t| matches!(t, 2 | 3 | 4 | 6 | 7 | 8 | 12..=17)).count() as u8;
                for handler in [true, false] {
                    for mode in 0..4u8 {
                        let sizes: &[usize] = if mode != 0 {
                            &[0]
                        } else if long > 0 {
                            &[4096, 65514, 65515, 65516, 70000]
                        } else {
                            &[1, 2, 3, 70000]
                        };
                        for &bufsize in sizes {
                            for interrupt_at in 0..=(if handler { nprog.min(2) } else { 0 }) {
                                if tokens.len() == 4 && (interrupt_at > 0 || !handler || (mode == 0 && bufsize == 2)) {
                                    continue;
                                }
                                for chunk in [usize::MAX, 1] {
                                    if chunk == 1 && (long > 0 || tokens.len() > 2) {
                                        continue;
                                    }
                                    emit(BandCase { tokens: tokens.clone(), mode, bufsize, interrupt_at, chunk, handler });
                                }
                            }
                        }
                    }
                }
            }
        },
        eval_band,
    );
}
