//! C32 — refspec matching never panics and agrees with git's rules (E1: all spec lists x all remote ref sets).
use bstr::ByteSlice;
use gix_refspec::{
    match_group::{Item, SourceRef},
    parse::Operation,
    MatchGroup,
};
use serde::{Deserialize, Serialize};
use std::collections::BTreeSet;
use vkit::{bad, enumerate, ok, ok_trivial, Run, Verdict};

// ----------------------------------------------------------------------------------------------
// reference: transcription of git's remote.c (get_fetch_map, get_expanded_map, match_name_with_pattern,
// find_ref_by_name_abbrev/refname_match, get_local_ref, apply_negative_refspecs)
// ----------------------------------------------------------------------------------------------
#[derive(Clone, Debug, PartialEq, Eq, PartialOrd, Ord)]
enum Src {
    Name(String),
    Oid(String),
}
type Map = BTreeSet<(Src, Option<String>)>;

struct Spec<'a> {
    negative: bool,
    src: &'a str,
    dst: Option<&'a str>,
}
fn split(spec: &str) -> Spec<'_> {
    let (negative, rest) = match spec.as_bytes().first() {
        Some(b'^') => (true, &spec[1..]),
        Some(b'+') => (false, &spec[1..]),
        _ => (false, spec),
    };
    match rest.split_once(':') {
        Some((s, d)) => Spec { negative, src: s, dst: Some(d) },
        None => Spec { negative, src: rest, dst: None },
    }
}

/// git: match_name_with_pattern(); returns the part matched by '*'
fn match_name_with_pattern<'n>(key: &str, name: &'n str) -> Option<&'n str> {
    let klen = key.find('*')?;
    let suffix = &key[klen + 1..];
    if name.as_bytes().starts_with(key[..klen].as_bytes()) && name.len() >= klen + suffix.len() && name.ends_with(suffix) {
        Some(&name[klen..name.len() - suffix.len()])
    } else {
        None
    }
}

/// git: refname_match() score, higher is better, 0 = no match
fn refname_match(abbrev: &str, full: &str) -> usize {
    let rules: [(&str, &str); 6] = [("", ""), ("refs/", ""), ("refs/tags/", ""), ("refs/heads/", ""), ("refs/remotes/", ""), ("refs/remotes/", "/HEAD")];
    for (i, (pre, post)) in rules.iter().enumerate() {
        if full.len() == pre.len() + abbrev.len() + post.len() && full.starts_with(pre) && full[pre.len()..].starts_with(abbrev) && full.ends_with(post) {
            return rules.len() - i;
        }
    }
    0
}
fn find_ref_by_name_abbrev<'n>(names: &[&'n str], abbrev: &str) -> Option<&'n str> {
    let mut best = None;
    let mut best_score = 0;
    for n in names {
        let s = refname_match(abbrev, n);
        if best_score < s {
            best = Some(*n);
            best_score = s;
        }
    }
    best
}
/// git: get_local_ref()
fn get_local_ref(name: &str) -> String {
    if name.starts_with("refs/") {
        name.to_string()
    } else if name.starts_with("heads/") || name.starts_with("tags/") || name.starts_with("remotes/") {
        format!("refs/{name}")
    } else {
        format!("refs/heads/{name}")
    }
}
fn is_hex40(s: &str) -> bool {
    s.len() == 40 && s.bytes().all(|b| b.is_ascii_hexdigit())
}

fn git_rules(specs: &[String], names: &[&str]) -> Map {
    let mut out = Map::new();
    for s in specs.iter().map(|s| split(s)).filter(|s| !s.negative) {
        if s.src.contains('*') {
            for n in names.iter().filter(|n| !n.contains('^')) {
                if let Some(m) = match_name_with_pattern(s.src, n) {
                    out.insert((Src::Name(n.to_string()), s.dst.map(|d| d.replacen('*', m, 1))));
                }
            }
        } else if is_hex40(s.src) {
            out.insert((Src::Oid(s.src.to_string()), s.dst.map(get_local_ref)));
        } else {
            let name = if s.src.is_empty() { "HEAD" } else { s.src };
            if let Some(n) = find_ref_by_name_abbrev(names, name) {
                out.insert((Src::Name(n.to_string()), s.dst.map(get_local_ref)));
            }
        }
    }
    for neg in specs.iter().map(|s| split(s)).filter(|s| s.negative) {
        out.retain(|(src, _)| match src {
            Src::Oid(_) => true,
            Src::Name(n) => {
                if neg.src.contains('*') {
                    match_name_with_pattern(neg.src, n).is_none()
                } else {
                    neg.src != n
                }
            }
        });
    }
    out
}

// ----------------------------------------------------------------------------------------------

#[derive(Serialize, Deserialize, Hash, Clone, Debug)]
struct Case {
    specs: Vec<String>,
    names: Vec<String>,
}

const HEX: &str = "1111111111111111111111111111111111111111";
/// a second object id, one that no advertised ref points to (HEX is the target of refs/heads/b)
const HEX2: &str = "2222222222222222222222222222222222222222";
const SPECS: &[&str] = &[
    "refs/heads/*:refs/remotes/o/*",
    "refs/heads/a*a:refs/remotes/x/a*a",
    "refs/h*s/a:refs/remotes/y/*",
    "+refs/heads/*:refs/remotes/o/*",
    "^refs/heads/b",
    "a",
    "tags/t",
    HEX,
    "refs/heads/a:refs/x",
    "^refs/heads/a",
    "refs/heads/*a:refs/remotes/z/*a",
    "refs/tags/*:refs/tags/*",
    "HEAD:refs/remotes/o/HEAD",
    "a:b",
    "b:heads/c",
    "refs/heads/ab*ba:refs/remotes/w/x*y",
    "1111111111111111111111111111111111111111:refs/heads/pinned",
    // abbreviated destinations that merely start with the words heads / tags / remotes
    "a:tags-old",
    "a:headstrong",
    "b:remotes2/x",
    "a:tags",
    "a:heads",
    // object-id sources: two different ids (HEX = tip of refs/heads/b, HEX2 = not advertised) without / with equal destinations
    HEX2,
    "1111111111111111111111111111111111111111:refs/heads/x",
    "2222222222222222222222222222222222222222:refs/heads/x",
    "1111111111111111111111111111111111111111:x",
    "2222222222222222222222222222222222222222:x",
    "+1111111111111111111111111111111111111111:refs/heads/x",
    "+2222222222222222222222222222222222222222:refs/heads/x",
];
const NAMES: &[&str] = &["HEAD", "refs/heads/a", "refs/heads/aa", "refs/heads/aba", "refs/heads/ab", "refs/heads/b", "refs/heads/abba", "refs/tags/t"];

fn oid_for(i: usize, name: &str) -> gix_hash::ObjectId {
    if name == "refs/heads/b" {
        return gix_hash::ObjectId::from_hex(HEX.as_bytes()).expect("valid hex");
    }
    let mut b = [0u8; 20];
    b[0] = 0xa0;
    b[19] = i as u8 + 1;
    gix_hash::ObjectId::from(b)
}

/// what `Outcome::validated()` says: Ok(number of mappings kept) or Err(set of destinations with conflicting sources)
type Validated = Result<usize, BTreeSet<String>>;

/// git dies with "Cannot fetch both X and Y to Z" when two different sources map to one destination (ref_remove_duplicates)
fn conflicts_of(want: &Map) -> BTreeSet<String> {
    let mut out = BTreeSet::new();
    for (s, d) in want {
        if let Some(d) = d {
            if want.iter().any(|(s2, d2)| d2.as_deref() == Some(d.as_str()) && s2 != s) {
                out.insert(d.clone());
            }
        }
    }
    out
}
fn check_validated(want: &Map, got: &Validated) -> Result<(), String> {
    let conflicts = conflicts_of(want);
    match got {
        Err(dests) if *dests == conflicts && !conflicts.is_empty() => Ok(()),
        Err(dests) => Err(format!("validated() reports conflicts for {dests:?}, expected conflicts for {conflicts:?}")),
        Ok(_) if !conflicts.is_empty() => Err(format!("validated() accepted mappings with conflicting destinations {conflicts:?}")),
        Ok(n) if *n == want.len() => Ok(()),
        Ok(n) => Err(format!("validated() kept {n} of {} mappings although all destinations are full ref names", want.len())),
    }
}

fn gitoxide(specs: &[String], names: &[&str]) -> Result<Result<(Vec<(Src, Option<String>)>, Validated), String>, String> {
    let parsed: Result<Vec<_>, _> = specs.iter().map(|s| gix_refspec::parse(s.as_bytes().as_bstr(), Operation::Fetch)).collect();
    let parsed = match parsed {
        Ok(p) => p,
        Err(e) => return Ok(Err(e.to_string())),
    };
    let ids: Vec<_> = names.iter().enumerate().map(|(i, n)| oid_for(i, n)).collect();
    let items: Vec<Item<'_>> = names.iter().zip(&ids).map(|(n, id)| Item { full_ref_name: n.as_bytes().as_bstr(), target: id, object: None }).collect();
    let group = MatchGroup::from_fetch_specs(parsed.iter().copied());
    let out = group.match_remotes(items.iter().copied());
    let mut v = Vec::new();
    for m in &out.mappings {
        let src = match m.lhs {
            SourceRef::FullName(n) => Src::Name(n.to_string()),
            SourceRef::ObjectId(id) => Src::Oid(id.to_string()),
        };
        if let (Some(i), Src::Name(n)) = (m.item_index, &src) {
            if names.get(i).copied() != Some(n.as_str()) {
                return Err(format!("item_index {i} does not name {n}"));
            }
        }
        if m.spec_index >= specs.len() {
            return Err(format!("spec_index {} out of range", m.spec_index));
        }
        v.push((src, m.rhs.as_ref().map(|r| r.to_string())));
    }
    let validated = match out.validated() {
        Ok((outcome, _fixes)) => Ok(outcome.mappings.len()),
        Err(err) => Err(err
            .issues
            .iter()
            .map(|i| match i {
                gix_refspec::match_group::validate::Issue::Conflict { destination_full_ref_name, .. } => destination_full_ref_name.to_string(),
            })
            .collect()),
    };
    Ok(Ok((v, validated)))
}

fn eval(c: &Case) -> Verdict {
    let names: Vec<&str> = c.names.iter().map(String::as_str).collect();
    let got = match gitoxide(&c.specs, &names) {
        Err(m) => return bad("mapping-index", m),
        Ok(Err(e)) => return bad("spec-refused", format!("valid fetch refspec refused: {e}")),
        Ok(Ok(v)) => v,
    };
    let (got, validated) = got;
    let want = git_rules(&c.specs, &names);
    let got_set: Map = got.iter().cloned().collect();
    if got_set.len() != got.len() {
        return bad("duplicates", format!("mappings contain duplicates: {got:?}"));
    }
    if got_set != want {
        let extra: Vec<_> = got_set.difference(&want).collect();
        let missing: Vec<_> = want.difference(&got_set).collect();
        return bad("mappings", format!("gitoxide has extra {extra:?}, lacks {missing:?}"));
    }
    if let Err(m) = check_validated(&want, &validated) {
        return bad("validated", m);
    }
    let globs = c.specs.iter().filter(|s| s.contains('*')).count();
    let overlap = c.specs.iter().any(|s| {
        let sp = split(s);
        sp.src.find('*').map_or(false, |k| names.iter().any(|n| n.starts_with(&sp.src[..k]) && n.ends_with(&sp.src[k + 1..]) && n.len() < sp.src.len() - 1))
    });
    if want.is_empty() && !overlap {
        ok_trivial("no-mappings")
    } else {
        ok(format!(
            "m{}-{}{}{}",
            want.len().min(4),
            if globs > 0 { "glob" } else { "plain" },
            if overlap { "-overlap" } else { "" },
            if !conflicts_of(&want).is_empty() {
                "-conflict"
            } else if want.iter().filter(|(s, _)| matches!(s, Src::Oid(_))).count() > 1 {
                "-oids"
            } else if c.specs.iter().any(|s| s.starts_with('^')) {
                "-neg"
            } else {
                ""
            }
        ))
    }
}

// ----------------------------------------------------------------------------------------------
// binding the transcription to git: real `git fetch` of every spec list from a generated remote
// ----------------------------------------------------------------------------------------------
#[derive(Serialize, Deserialize, Hash, Clone, Debug)]
struct GitCase {
    specs: Vec<String>,
}

pub fn run(run: &'static Run) {
    run.rule(format!(
        "specs: all lists of <= {} of {} fetch refspecs (globs incl. prefix/suffix overlapping short names: a*a, ab*ba, h*s, *a; force; negative full-name; partial names; object id with/without destination; partial destinations incl. ones that merely start with heads/tags/remotes: tags-old, headstrong, remotes2/x, tags, heads) \
         x remote refs: all subsets (<= {} names) of {:?}; every single spec (thorough: every unordered pair) is also fetched by real git from a generated remote holding all names, and git's resulting refs are compared with the transcription. \
         non-trivial = at least one mapping results (or an overlapping glob had to be refused)",
        run.pick(2, 3),
        SPECS.len(),
        run.pick(3, 8),
        NAMES
    ));
    run.assume("partial names are unambiguous in the remote ref set (git picks the best-ranked match, gitoxide maps every namespace that matches)");
    run.assume("negative refspecs are full names (git compares a non-glob negative spec with strcmp against the full name; gitoxide's parser deliberately refuses negative glob patterns: Error::NegativeGlobPattern)");
    run.assume("mappings are compared as sets of (source, destination); order and spec index are not part of git's observable result");
    run.budget_secs(run.pick(40.0, 600.0));
    let max_specs = run.pick(2, 3);
    let max_names = run.pick(3, NAMES.len());

    run.sub(
        "match",
        |emit| {
            let mut lists: Vec<Vec<String>> = Vec::new();
            enumerate::seqs(SPECS, 0, max_specs, |s| lists.push(s.iter().map(|s| s.to_string()).collect()));
            let mut sets: Vec<Vec<String>> = Vec::new();
            enumerate::subsets(NAMES, 0, max_names, |s| sets.push(s.iter().map(|s| s.to_string()).collect()));
            for names in &sets {
                for specs in &lists {
                    emit(Case { specs: specs.clone(), names: names.clone() });
                }
            }
        },
        eval,
    );
    let overlaps: u64 = (0..=4).flat_map(|n| ["", "-neg"].map(|s| format!("m{n}-glob-overlap{s}"))).map(|c| run.outcome_count(&c)).sum();
    run.require("an overlapping glob/name pair was explored", overlaps > 0);

    // ---- git binding ----
    let remote = vkit::scratch::Dir::new("c32remote");
    let mut ids: Vec<(String, String)> = Vec::new(); // name -> commit id
    {
        let d = remote.path();
        vkit::git::init(d);
        vkit::git::git(d, &["config", "uploadpack.allowAnySHA1InWant", "true"]);
        vkit::git::git(d, &["checkout", "-q", "-b", "a"]);
        vkit::git::git(d, &["commit", "-q", "--allow-empty", "-m", "a"]);
        for n in NAMES.iter().filter(|n| n.starts_with("refs/") && **n != "refs/heads/a") {
            let short = n.rsplit('/').next().unwrap();
            vkit::git::git(d, &["commit", "-q", "--allow-empty", "-m", short]);
            vkit::git::git(d, &["update-ref", n, "HEAD"]);
        }
        // HEAD -> refs/heads/a, which now points at the last commit; give `a` its own distinct tip
        vkit::git::git(d, &["commit", "-q", "--allow-empty", "-m", "tip-a"]);
        for n in NAMES {
            ids.push((n.to_string(), vkit::git::git_text(d, &["rev-parse", n])));
        }
    }
    let pinned = ids.iter().find(|(n, _)| n == "refs/heads/b").map(|(_, i)| i.clone()).unwrap_or_default();
    // the root commit: reachable, but no ref points at it (needs uploadpack.allowAnySHA1InWant on the served repository)
    let unadvertised = vkit::git::git_text(remote.path(), &["rev-list", "--max-parents=0", "refs/heads/a"]);
    if unadvertised.len() != 40 || ids.iter().any(|(_, i)| *i == unadvertised) {
        vkit::machinery!("fixture: root commit {unadvertised:?} should be a full id that is not a ref target");
    }
    let ids = &ids;
    let pinned = &pinned;
    let unadvertised = &unadvertised;
    let remote_path = remote.path().to_path_buf();
    run.sub_with(
        "git-fetch",
        vkit::Opts::default().chunk(32),
        |emit| {
            // quick: every single spec (a git fetch costs seconds on a loaded machine); thorough: all unordered pairs as well
            let quick = run.quick();
            enumerate::seqs(SPECS, 1, 2, |s| {
                let small = |x: &&str| SPECS.iter().position(|y| y == x).map_or(false, |i| i < 7 || i == 14);
                let _ = small;
                let pos = |x: &str| SPECS.iter().position(|y| *y == x).unwrap_or(0);
                // pairs: unordered (git's result does not depend on the order of the refspecs on the command line)
                // quick: of the pairs only those of two object-id specs
                let both_oid = s.iter().all(|x| is_hex40(split(x).src));
                if s.len() == 2 && (pos(s[0]) > pos(s[1]) || (quick && !both_oid)) {
                    return;
                }
                emit(GitCase { specs: s.iter().map(|s| s.replace(HEX, pinned).replace(HEX2, unadvertised)).collect() })
            });
        },
        |c: &GitCase| -> Verdict {
            let names: Vec<&str> = NAMES.to_vec();
            let want = git_rules(&c.specs, &names);
            // destination -> id according to the transcription
            let id_of = |s: &Src| match s {
                Src::Oid(h) => h.clone(),
                Src::Name(n) => ids.iter().find(|(m, _)| m == n).map(|(_, i)| i.clone()).unwrap_or_default(),
            };
            let mut want_refs: BTreeSet<(String, String)> = BTreeSet::new();
            let conflict = !conflicts_of(&want).is_empty();
            for (s, d) in &want {
                if let Some(d) = d {
                    want_refs.insert((d.clone(), id_of(s)));
                }
            }
            // everything that is fetched ends up in FETCH_HEAD, with or without destination
            let want_fetched: BTreeSet<String> = want.iter().map(|(s, _)| id_of(s)).collect();
            // the same through gitoxide
            let gix = match gitoxide(&c.specs, &names) {
                Ok(Ok((v, validated))) => {
                    if let Err(m) = check_validated(&want, &validated) {
                        return bad("validated", m);
                    }
                    if v.len() != want.len() {
                        return bad("mappings", format!("gitoxide computes {} mappings {v:?}, git's rules give {} distinct (source, destination) pairs {want:?}", v.len(), want.len()));
                    }
                    v.into_iter().collect::<Map>()
                }
                Ok(Err(e)) => return bad("spec-refused", e),
                Err(e) => return bad("mapping-index", e),
            };
            let local = vkit::scratch::Dir::new("c32local");
            vkit::git::init_bare(local.path());
            let mut args: Vec<String> = vec!["fetch".into(), "-q".into(), "--no-tags".into(), remote_path.display().to_string()];
            args.extend(c.specs.iter().cloned());
            let out = vkit::git::try_git(local.path(), &args);
            if !out.ok {
                // git refuses: missing non-pattern source or two sources for one destination
                let missing = c.specs.iter().map(|s| split(s)).any(|s| !s.negative && !s.src.contains('*') && !is_hex40(s.src) && find_ref_by_name_abbrev(&names, s.src).is_none());
                return if conflict || missing {
                    ok_trivial("git-refuses-conflict-or-missing")
                } else {
                    bad("git-oracle", format!("git fetch failed unexpectedly: {}", out.err_text()))
                };
            }
            let listing = vkit::git::git_text(local.path(), &["for-each-ref", "--format=%(refname) %(objectname)"]);
            let git_refs: BTreeSet<(String, String)> = listing.lines().filter_map(|l| l.split_once(' ')).map(|(a, b)| (a.to_string(), b.to_string())).collect();
            if git_refs != want_refs {
                return bad("git-oracle", format!("transcription of git's rules disagrees with git: git created {git_refs:?}, transcription says {want_refs:?}"));
            }
            let fetch_head = std::fs::read_to_string(local.path().join("FETCH_HEAD")).unwrap_or_default();
            let git_fetched: BTreeSet<String> = fetch_head.lines().filter_map(|l| l.split('\t').next()).map(str::to_string).collect();
            if git_fetched != want_fetched {
                return bad("git-oracle", format!("transcription of git's rules disagrees with git: FETCH_HEAD lists {git_fetched:?}, transcription says {want_fetched:?}"));
            }
            if gix != want {
                return bad("mappings", format!("gitoxide {gix:?} != git {want:?}"));
            }
            if want.iter().filter(|(s, _)| matches!(s, Src::Oid(_))).count() > 1 {
                return ok(format!("git-oids{}", want_fetched.len().min(4)));
            }
            if want_refs.is_empty() {
                ok_trivial("git-no-refs")
            } else {
                ok(format!("git-refs{}", want_refs.len().min(4)))
            }
        },
    );
    run.cov_add("oracle_calls_git", run.sub_evaluations("git-fetch") * 3);
}
