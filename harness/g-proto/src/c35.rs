//! C35 — credential helper messages round trip; values with NL/NUL are refused (E1: all field combinations).
use gix_credentials::protocol::Context;
use serde::{Deserialize, Serialize};
use vkit::{bad, ok, ok_trivial, Run, Verdict, B};

#[derive(Serialize, Deserialize, Hash, Clone, Debug)]
struct Case {
    protocol: Option<B>,
    host: Option<B>,
    path: Option<B>,
    username: Option<B>,
    password: Option<B>,
    url: Option<B>,
    #[serde(default)]
    quit: Option<bool>,
}

fn text(v: &Option<B>) -> Option<String> {
    v.as_ref().map(|b| String::from_utf8(b.0.clone()).unwrap_or_else(|_| vkit::machinery!("text field must be utf-8")))
}

fn eval(c: &Case) -> Verdict {
    let ctx = Context {
        protocol: text(&c.protocol),
        host: text(&c.host),
        path: c.path.as_ref().map(|b| b.0.clone().into()),
        username: text(&c.username),
        password: text(&c.password),
        url: c.url.as_ref().map(|b| b.0.clone().into()),
        quit: c.quit,
    };
    // `quit` is an attribute helpers send to git; write_to() never sends it, so it must come back unset and must not change the message
    let expect = Context { quit: None, ..ctx.clone() };
    let fields: Vec<(&str, &B)> = [("protocol", &c.protocol), ("host", &c.host), ("path", &c.path), ("username", &c.username), ("password", &c.password), ("url", &c.url)]
        .into_iter()
        .filter_map(|(k, v)| v.as_ref().map(|v| (k, v)))
        .collect();
    let forbidden = fields.iter().any(|(_, v)| v.contains(&b'\n') || v.contains(&0));
    let has_cr = fields.iter().any(|(_, v)| v.contains(&b'\r'));
    let mut out = Vec::new();
    let res = ctx.write_to(&mut out);

    // whatever reached the helper, read the way a helper reads it (split on LF, key up to the first '='):
    // every attribute must be one of the fields of the context, verbatim, each at most once
    let mut seen: Vec<&str> = Vec::new();
    if !out.is_empty() {
        if out.last() != Some(&b'\n') {
            return bad("unterminated", format!("output {:?} does not end with a newline", B::new(&out)));
        }
        for line in out[..out.len() - 1].split(|b| *b == b'\n') {
            let mut it = line.splitn(2, |b| *b == b'=');
            let (k, v) = (it.next().unwrap_or_default(), it.next());
            if line.is_empty() {
                return bad("empty-line", format!("the message contains an empty line (= end of message for a helper) before its end: {:?}", B::new(&out)));
            }
            match fields.iter().find(|(fk, _)| fk.as_bytes() == k) {
                Some((fk, fv)) if v == Some(&fv.0[..]) && !seen.contains(fk) => seen.push(fk),
                _ => return bad("forged-attribute", format!("helper would read attribute line {:?} which is not a field of the context (output {:?})", B::new(line), B::new(&out))),
            }
        }
    }
    match res {
        Err(_) if forbidden => ok_trivial("refused-nl-or-nul"),
        // git >= 2.48 (credential.protectProtocol) refuses carriage returns as well; refusing is allowed, mangling is not
        Err(_) if has_cr => ok_trivial("refused-cr"),
        Err(e) => bad("refused", format!("context without NL/NUL refused: {e}")),
        Ok(()) if forbidden => bad("accepted-forbidden", format!("a value with NL/NUL was written: {:?}", B::new(&out))),
        Ok(()) => {
            if seen.len() != fields.len() {
                return bad("missing-attribute", format!("only {seen:?} written of {} fields", fields.len()));
            }
            match Context::from_bytes(&out) {
                Err(e) => bad("decode", format!("{:?} does not decode: {e}", B::new(&out))),
                Ok(back) if back == expect => {
                    if fields.is_empty() {
                        ok_trivial("empty-context")
                    } else {
                        ok(format!("roundtrip-{}{}", fields.len(), if has_cr { "-cr" } else { "" }))
                    }
                }
                Ok(back) => bad("roundtrip", format!("wrote {:?}, decoded {back:?}, expected {expect:?}", B::new(&out))),
            }
        }
    }
}

pub fn run(run: &'static Run) {
    let quick = run.quick();
    // plain values (harmless), and special values: each of LF, NUL, CR alone, first, in the middle and LAST
    let plain: Vec<&[u8]> = if quick { vec![b"a"] } else { vec![b"a", b"a=b", b""] };
    let mut special: Vec<&[u8]> = vec![b"\n", b"\na", b"a\nb", b"a\n", b"\0", b"\0a", b"a\0b", b"a\0", b"\r", b"\ra", b"a\rb", b"a\r"];
    // whitespace alone, leading and trailing (blank, TAB, form feed, NBSP): valid values that must come back byte for byte
    special.extend([&b" "[..], b"\t", b"\x0c", "\u{a0}".as_bytes(), b"a ", b" a", b"a\t", "a\u{a0}".as_bytes(), b"a \t"]);
    if quick {
        special.extend([&b"a=b"[..], b""]);
    } else {
        special.extend([&b"="[..], "é".as_bytes(), b"\r\n", b"a\r\n", b"\n\n", b"a\nhost=x"]);
    }
    // path and url are byte strings: a non-UTF-8 byte alone and together with each separator (validation must look at the bytes)
    let mut special_bytes = special.clone();
    special_bytes.extend([&b"\xff"[..], b"\xff\nhost=x", b"\xff\0", b"a\xff\r", b"\xff\n"]);
    let max_special = run.pick(2usize, 3);
    run.rule(format!(
        "six fields protocol/host/path/username/password/url; every combination in which at most 2 fields take a special value (thorough: also exactly {max_special} fields over the core special values: LF/NUL/CR at every position, blank/TAB/NBSP alone or trailing) and the others are absent or one of {:?}; \
         special values (text fields) = LF, NUL, CR each alone / first / inner / LAST byte, whitespace (blank, TAB, form feed, NBSP) alone / leading / trailing, plus others: {:?}; path/url additionally {:?}; x quit {{unset, true, false}}. \
         oracle: the bytes written never contain an empty line before their end, every attribute line a helper reads is a verbatim field, a value with LF/NUL is refused, and an accepted context decodes to the same context (all fields). \
         non-trivial = context accepted and fully round-tripped",
        plain.iter().map(|v| B::new(v)).collect::<Vec<_>>(),
        special.iter().map(|v| B::new(v)).collect::<Vec<_>>(),
        special_bytes[special.len()..].iter().map(|v| B::new(v)).collect::<Vec<_>>()
    ));
    run.assume("`quit` is a helper-to-git attribute and is never written by write_to(): it is expected back unset whatever it was set to");
    run.assume("a context whose value contains CR may be refused (as git >= 2.48 does) but must never be sent in a form that decodes differently");
    run.budget_secs(run.pick(40.0, 600.0));
    run.sub(
        "context",
        |emit| {
            // field order: protocol, host, path, username, password, url; path (2) and url (5) are byte strings
            fn rec(i: usize, n_special: usize, max: usize, cur: &mut Vec<Option<B>>, plain: &[&[u8]], special: &[&[u8]], special_bytes: &[&[u8]], thorough: bool, emit: &mut dyn FnMut(Case)) {
                if i == 6 {
                    let quits: &[Option<bool>] = if thorough && n_special > 2 { &[None] } else { &[None, Some(true), Some(false)] };
                    for &quit in quits {
                        emit(Case { protocol: cur[0].clone(), host: cur[1].clone(), path: cur[2].clone(), username: cur[3].clone(), password: cur[4].clone(), url: cur[5].clone(), quit });
                    }
                    return;
                }
                cur.push(None);
                rec(i + 1, n_special, max, cur, plain, special, special_bytes, thorough, emit);
                for v in plain {
                    cur[i] = Some(B::new(v));
                    rec(i + 1, n_special, max, cur, plain, special, special_bytes, thorough, emit);
                }
                if n_special < max {
                    for v in if i == 2 || i == 5 { special_bytes } else { special } {
                        cur[i] = Some(B::new(v));
                        rec(i + 1, n_special + 1, max, cur, plain, special, special_bytes, thorough, emit);
                    }
                }
                cur.pop();
            }
            // all combinations with at most two special fields over the full special alphabet
            rec(0, 0, 2, &mut Vec::new(), &plain, &special, &special_bytes, !quick, emit);
            if max_special > 2 {
                // thorough: additionally exactly three special fields over the core special values
                // (LF / NUL / CR at every position, and blank / TAB / NBSP alone or trailing)
                let core: Vec<&[u8]> = special.iter().copied().filter(|v| v.len() <= 3 && (v.iter().any(|b| b"\n\0\r".contains(b)) || [&b" "[..], b"a ", b"\t", "a\u{a0}".as_bytes()].contains(v))).filter(|v| *v != b"\n\n" && *v != b"\r\n").collect();
                let mut core_bytes = core.clone();
                core_bytes.extend([&b"\xff"[..], b"\xff\n"]);
                let mut only_three = |c: Case| {
                    let n = [&c.protocol, &c.host, &c.path, &c.username, &c.password, &c.url].iter().filter(|v| v.as_ref().map_or(false, |v| !plain.contains(&&v.0[..]))).count();
                    if n == 3 {
                        emit(c)
                    }
                };
                rec(0, 0, 3, &mut Vec::new(), &plain, &core, &core_bytes, true, &mut only_three);
            }
        },
        eval,
    );
    run.require("values with NL/NUL were refused", run.outcome_count("refused-nl-or-nul") > 0);
    run.require("values with CR were presented", run.outcome_count("refused-cr") + run.outcome_count("roundtrip-1-cr") > 0);
    run.require("contexts were accepted and round-tripped", run.outcome_count("roundtrip-6") > 0 && run.outcome_count("roundtrip-2") > 0);
}
