//! C35 — credential helper messages round trip; values with NL/NUL are refused (E1: all field combinations).
use gix_credentials::protocol::Context;
use serde::{Deserialize, Serialize};
use vkit::{bad, ok, ok_trivial, Run, Verdict, B};

#[derive(Serialize, Deserialize, Hash, Clone, Debug)]
struct Case {
    protocol: Option<B>,
    host: Option<B>,
    path: Option<B>,
    username: Option<B>,
    password: Option<B>,
    url: Option<B>,
}

fn text(v: &Option<B>) -> Option<String> {
    v.as_ref().map(|b| String::from_utf8(b.0.clone()).unwrap_or_else(|_| vkit::machinery!("text field must be utf-8")))
}

fn eval(c: &Case) -> Verdict {
    let ctx = Context {
        protocol: text(&c.protocol),
        host: text(&c.host),
        path: c.path.as_ref().map(|b| b.0.clone().into()),
        username: text(&c.username),
        password: text(&c.password),
        url: c.url.as_ref().map(|b| b.0.clone().into()),
        quit: None,
    };
    let fields: Vec<(&str, &B)> = [("protocol", &c.protocol), ("host", &c.host), ("path", &c.path), ("username", &c.username), ("password", &c.password), ("url", &c.url)]
        .into_iter()
        .filter_map(|(k, v)| v.as_ref().map(|v| (k, v)))
        .collect();
    let forbidden = fields.iter().any(|(_, v)| v.contains(&b'\n') || v.contains(&0));
    let has_cr = fields.iter().any(|(_, v)| v.contains(&b'\r'));
    let mut out = Vec::new();
    let res = ctx.write_to(&mut out);

    // whatever reached the helper, read the way a helper reads it (split on LF, key up to the first '='):
    // every attribute must be one of the fields of the context, verbatim, each at most once
    let mut seen: Vec<&str> = Vec::new();
    if !out.is_empty() {
        if out.last() != Some(&b'\n') {
            return bad("unterminated", format!("output {:?} does not end with a newline", B::new(&out)));
        }
        for line in out[..out.len() - 1].split(|b| *b == b'\n') {
            let mut it = line.splitn(2, |b| *b == b'=');
            let (k, v) = (it.next().unwrap_or_default(), it.next());
            match fields.iter().find(|(fk, _)| fk.as_bytes() == k) {
                Some((fk, fv)) if v == Some(&fv.0[..]) && !seen.contains(fk) => seen.push(fk),
                _ => return bad("forged-attribute", format!("helper would read attribute line {:?} which is not a field of the context (output {:?})", B::new(line), B::new(&out))),
            }
        }
    }
    match res {
        Err(_) if forbidden => ok_trivial("refused-nl-or-nul"),
        // git >= 2.48 (credential.protectProtocol) refuses carriage returns as well; refusing is allowed, mangling is not
        Err(_) if has_cr => ok_trivial("refused-cr"),
        Err(e) => bad("refused", format!("context without NL/NUL refused: {e}")),
        Ok(()) if forbidden => bad("accepted-forbidden", format!("a value with NL/NUL was written: {:?}", B::new(&out))),
        Ok(()) => {
            if seen.len() != fields.len() {
                return bad("missing-attribute", format!("only {seen:?} written of {} fields", fields.len()));
            }
            match Context::from_bytes(&out) {
                Err(e) => bad("decode", format!("{:?} does not decode: {e}", B::new(&out))),
                Ok(back) if back == ctx => {
                    if fields.is_empty() {
                        ok_trivial("empty-context")
                    } else {
                        ok(format!("roundtrip-{}{}", fields.len(), if has_cr { "-cr" } else { "" }))
                    }
                }
                Ok(back) => bad("roundtrip", format!("wrote {:?}, decoded {back:?}, expected {ctx:?}", B::new(&out))),
            }
        }
    }
}

pub fn run(run: &'static Run) {
    let text_vals: Vec<&[u8]> = if run.quick() {
        vec![b"a", b"a=b", b"a\nb", b"a\rb", b"a\r", b"a\0b", b""]
    } else {
        vec![b"a", b"a=b", b"=", b"a\nb", b"a\rb", b"a\r", b"a\0b", "é".as_bytes(), b" ", b"", b"\r", b"\n"]
    };
    let mut bytes_vals = text_vals.clone();
    bytes_vals.push(b"\xff"); // path and url are byte strings
    // a non-UTF-8 byte together with each separator: validation must look at the bytes, not at a (failed) string conversion
    bytes_vals.push(b"\xff\nhost=x");
    bytes_vals.push(b"\xff\0");
    bytes_vals.push(b"a\xff\r");
    run.rule(format!(
        "each of protocol/host/username/password in {{absent}} + {} values, path/url additionally a non-UTF-8 byte: {:?}; all combinations of the six fields. \
         non-trivial = context accepted, every attribute line seen by a helper is a verbatim field, and from_bytes() returns the same context",
        text_vals.len(),
        bytes_vals.iter().map(|v| B::new(v)).collect::<Vec<_>>()
    ));
    run.assume("`quit` is a helper-to-git attribute and is never written by write_to(); it is left unset");
    run.assume("a context whose value contains CR may be refused (as git >= 2.48 does) but must never be sent in a form that decodes differently");
    run.budget_secs(run.pick(40.0, 600.0));
    run.sub(
        "context",
        |emit| {
            let opt = |vals: &[&[u8]]| -> Vec<Option<B>> { std::iter::once(None).chain(vals.iter().map(|v| Some(B::new(v)))).collect() };
            let t = opt(&text_vals);
            let b = opt(&bytes_vals);
            for protocol in &t {
                for host in &t {
                    for path in &b {
                        for username in &t {
                            for password in &t {
                                for url in &b {
                                    emit(Case { protocol: protocol.clone(), host: host.clone(), path: path.clone(), username: username.clone(), password: password.clone(), url: url.clone() });
                                }
                            }
                        }
                    }
                }
            }
        },
        eval,
    );
    run.require("values with NL/NUL were refused", run.outcome_count("refused-nl-or-nul") > 0);
    run.require("values with CR were presented", run.outcome_count("refused-cr") + run.outcome_count("roundtrip-1-cr") > 0);
}
