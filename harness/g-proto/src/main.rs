mod c29;
mod c32;
mod c33;
mod c34;
mod c35;
use vkit::{Check, Level};
fn main() {
    let checks: &[Check] = &[
        Check { id: "C29", level: Level::Exploration, run: c29::run },
        Check { id: "C32", level: Level::Exploration, run: c32::run },
        Check { id: "C33", level: Level::Exploration, run: c33::run },
        Check { id: "C34", level: Level::Exploration, run: c34::run },
        Check { id: "C35", level: Level::Exploration, run: c35::run },
    ];
    vkit::main(checks);
}
