mod c29;
use vkit::{Check, Level};
fn main() {
    let checks: &[Check] = &[Check { id: "C29", level: Level::Exploration, run: c29::run }];
    vkit::main(checks);
}
