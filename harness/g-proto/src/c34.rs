//! C34 — no URL can inject arguments into spawned transport programs (E1: URL grammar x program kinds, observed by really spawning a recording program).
use bstr::ByteSlice;
use gix_transport::{
    client::{ssh, Transport},
    Protocol, Service,
};
use serde::{Deserialize, Serialize};
use std::{
    os::unix::fs::PermissionsExt,
    path::{Path, PathBuf},
    sync::atomic::{AtomicUsize, Ordering},
};
use vkit::{bad, ok, ok_trivial, Run, Verdict, B};

#[derive(Serialize, Deserialize, Hash, Clone, Debug)]
struct Case {
    url: B,
    /// 0 ssh, 1 plink, 2 putty, 3 tortoiseplink, 4 simple
    kind: u8,
    v1: bool,
    disallow_shell: bool,
}

static NEXT: AtomicUsize = AtomicUsize::new(0);
const POOL: usize = 64;
thread_local! {
    static SLOT: std::cell::Cell<Option<usize>> = const { std::cell::Cell::new(None) };
}

/// Recording programs standing in for ssh/plink/...: each writes its arguments NUL-terminated to `args<i>`, then evaluates its
/// last two arguments (service and quoted path) the way a remote login shell would after ssh joined them with a blank, and
/// writes the resulting words to `words<i>`. All are created up-front (writing a script while other threads fork gives ETXTBSY).
fn make_recorders(dir: &Path) {
    for i in 0..POOL {
        let prog = dir.join(format!("recorder{i}"));
        let script = format!(
            "#!/bin/sh\nfor a in \"$@\"; do printf '%s\\0' \"$a\"; done > '{d}/args{i}'\nif [ $# -ge 2 ]; then\n  eval \"svc=\\${{$(($#-1))}}; q=\\${{$#}}\"\n  eval \"set -- $svc $q\" 2> '{d}/err{i}'\n  for a in \"$@\"; do printf '%s\\0' \"$a\"; done > '{d}/words{i}'\nfi\n",
            d = dir.display()
        );
        if std::fs::write(&prog, script).is_err() || std::fs::set_permissions(&prog, std::fs::Permissions::from_mode(0o755)).is_err() {
            vkit::machinery!("cannot create recorder script {}", prog.display());
        }
    }
}
/// (program, args file, words file, stderr file) for the calling thread; threads alive at the same time never share one.
fn recorder(dir: &Path) -> (PathBuf, PathBuf, PathBuf, PathBuf) {
    let i = SLOT.with(|s| match s.get() {
        Some(i) => i,
        None => {
            let i = NEXT.fetch_add(1, Ordering::Relaxed) % POOL;
            s.set(Some(i));
            i
        }
    });
    (dir.join(format!("recorder{i}")), dir.join(format!("args{i}")), dir.join(format!("words{i}")), dir.join(format!("err{i}")))
}

fn expected_remote_path(path: &[u8]) -> Vec<u8> {
    // "/~user/x" addresses user's home: the leading slash is dropped; everything else is verbatim
    if path.starts_with(b"/~") {
        let mut segs = path[1..].split(|b| *b == b'/');
        let first = segs.next().unwrap_or_default().to_vec();
        let rest: Vec<&[u8]> = segs.collect();
        let mut out = first;
        out.push(b'/');
        out.extend_from_slice(&rest.join(&b'/'));
        out
    } else {
        path.to_vec()
    }
}

fn eval(dir: &Path, c: &Case) -> Verdict {
    let url = match gix_url::parse(c.url.as_bstr()) {
        Ok(u) => u,
        Err(_) => return ok_trivial("unparsable"),
    };
    if url.scheme != gix_url::Scheme::Ssh {
        return ok_trivial("not-ssh");
    }
    let (prog, out, words_file, err_file) = recorder(dir);
    for f in [&out, &words_file, &err_file] {
        let _ = std::fs::remove_file(f);
    }
    let kind = [ssh::ProgramKind::Ssh, ssh::ProgramKind::Plink, ssh::ProgramKind::Putty, ssh::ProgramKind::TortoisePlink, ssh::ProgramKind::Simple][c.kind as usize % 5];
    let opts = ssh::connect::Options { command: Some(prog.clone().into()), disallow_shell: c.disallow_shell, kind: Some(kind) };
    let mut transport = match ssh::connect(url.clone(), if c.v1 { Protocol::V1 } else { Protocol::V2 }, opts, false) {
        Ok(t) => t,
        Err(_) => return ok_trivial("connect-refused"),
    };
    let res = transport.handshake(Service::UploadPack, &[]);
    let refused = match &res {
        Err(e) => Some(e.to_string()),
        Ok(_) => None,
    };
    drop(res);
    drop(transport);
    let dash = |s: Option<&str>| s.map_or(false, |s| s.starts_with('-'));
    let path_dash = url.path.trim().first() == Some(&b'-');
    let args_raw = std::fs::read(&out).ok();
    let Some(args_raw) = args_raw else {
        // nothing was spawned: must be a documented refusal
        let why = refused.unwrap_or_default();
        let legit = dash(url.user()) || (dash(url.host()) && url.user().is_none()) || path_dash || (kind == ssh::ProgramKind::Simple && url.port.is_some());
        return if legit { ok(format!("refused-{}", if path_dash { "path" } else if dash(url.user()) { "user" } else if dash(url.host()) { "host" } else { "port" })) } else { bad("not-spawned", format!("no program was run for a harmless URL: {why}")) };
    };
    let args: Vec<&[u8]> = args_raw.split(|b| *b == 0).collect();
    let args = &args[..args.len().saturating_sub(1)]; // trailing empty piece after the last NUL
    // option arguments the transport may add on its own, per kind; nothing URL-derived may appear among them
    let mut i = 0;
    while i < args.len() {
        let a = args[i];
        let digits = |b: &[u8]| !b.is_empty() && b.iter().all(u8::is_ascii_digit);
        let fixed = match kind {
            ssh::ProgramKind::Ssh => a == b"-o" || a == b"SendEnv=GIT_PROTOCOL" || (a.starts_with(b"-p") && digits(&a[2..])),
            ssh::ProgramKind::Simple => false,
            _ => a == b"-batch" || a == b"-P" || (i > 0 && args[i - 1] == b"-P" && digits(a)),
        };
        if !fixed {
            break;
        }
        i += 1;
    }
    // args[i] must be the destination: [user@]host, not startable with '-'
    let want_dest = match (url.user(), url.host()) {
        (Some(u), Some(h)) => format!("{u}@{h}"),
        (None, Some(h)) => h.to_string(),
        _ => return bad("no-host", "ssh url without host was connected"),
    };
    let Some(dest) = args.get(i) else { return bad("args", format!("no destination argument in {:?}", args.iter().map(|a| B::new(a)).collect::<Vec<_>>())) };
    if dest.first() == Some(&b'-') {
        return bad("option-injection", format!("destination argument {:?} would be read as an option by the ssh program", B::new(dest)));
    }
    // an empty user name carries no information: `@host` and `host` are both fine as long as the argument cannot be an option
    if *dest != want_dest.as_bytes() && !(url.user() == Some("") && Some(*dest) == url.host().map(str::as_bytes)) {
        return bad("destination", format!("destination argument {:?}, expected {want_dest:?}", B::new(dest)));
    }
    if path_dash {
        return bad("dash-path-spawned", format!("a path starting with '-' was handed to the program: {:?}", args.iter().map(|a| B::new(a)).collect::<Vec<_>>()));
    }
    let remote = &args[i + 1..];
    if remote.len() != 2 || remote[0] != b"git-upload-pack" {
        return bad("remote-command", format!("remote command words are {:?}", remote.iter().map(|a| B::new(a)).collect::<Vec<_>>()));
    }
    // ssh joins the remaining words with blanks and gives them to the remote login shell: the recorder evaluated them like that
    let joined = B::new(remote.join(&b' '));
    let words_raw = std::fs::read(&words_file).unwrap_or_default();
    let stderr = std::fs::read(&err_file).unwrap_or_default();
    let words: Vec<&[u8]> = words_raw.split(|b| *b == 0).collect();
    let words = &words[..words.len().saturating_sub(1)];
    let want_path = expected_remote_path(&url.path);
    if words.len() != 2 || words[0] != b"git-upload-pack" || words[1] != &want_path[..] || !stderr.is_empty() {
        return bad(
            "remote-shell",
            format!(
                "remote shell reads {joined:?} as {:?} (stderr {:?}), expected exactly [git-upload-pack, {:?}]",
                words.iter().map(|a| B::new(a)).collect::<Vec<_>>(),
                B::new(&stderr),
                B::new(&want_path)
            ),
        );
    }
    let special = url.path.iter().any(|b| b"'\"!$ ;`\n\t\\*&|<>()#~".contains(b));
    ok(format!("spawned-kind{}-{}{}", c.kind, if special { "special" } else { "plain" }, if dash(url.host()) { "-dashhost" } else { "" }))
}

/// The argument vector of `ProgramKind::prepare_invocation()` (through the verif hook), without spawning anything.
fn eval_invocation(c: &Case) -> Verdict {
    use std::os::unix::ffi::OsStrExt;
    let url = match gix_url::parse(c.url.as_bstr()) {
        Ok(u) => u,
        Err(_) => return ok_trivial("unparsable"),
    };
    if url.scheme != gix_url::Scheme::Ssh || url.host().is_none() {
        return ok_trivial("not-ssh"); // ssh::connect() refuses these before an invocation is prepared
    }
    let kind = [ssh::ProgramKind::Ssh, ssh::ProgramKind::Plink, ssh::ProgramKind::Putty, ssh::ProgramKind::TortoisePlink, ssh::ProgramKind::Simple][c.kind as usize % 5];
    let dash = |s: Option<&str>| s.map_or(false, |s| s.starts_with('-'));
    let prep = match kind.verif_prepare_invocation(std::ffi::OsStr::new("/nonexistent/ssh-program"), &url, if c.v1 { Protocol::V1 } else { Protocol::V2 }, c.disallow_shell) {
        Ok(p) => p,
        Err(e) => {
            let legit = dash(url.user()) || (dash(url.host()) && url.user().is_none()) || (kind == ssh::ProgramKind::Simple && url.port.is_some());
            return if legit {
                ok(format!("inv-refused-{}", if dash(url.user()) { "user" } else if dash(url.host()) { "host" } else { "port" }))
            } else {
                bad("refused", format!("harmless URL refused: {e}"))
            };
        }
    };
    if prep.command.as_bytes() != b"/nonexistent/ssh-program" {
        return bad("command", format!("program to run became {:?}", prep.command));
    }
    let args: Vec<&[u8]> = prep.args.iter().map(|a| a.as_bytes()).collect();
    let show = || format!("{:?}", args.iter().map(|a| B::new(a)).collect::<Vec<_>>());
    let digits = |b: &[u8]| !b.is_empty() && b.iter().all(u8::is_ascii_digit);
    let mut i = 0;
    while i < args.len() {
        let a = args[i];
        let fixed = match kind {
            ssh::ProgramKind::Ssh => a == b"-o" || a == b"SendEnv=GIT_PROTOCOL" || (a.starts_with(b"-p") && digits(&a[2..])),
            ssh::ProgramKind::Simple => false,
            _ => a == b"-batch" || a == b"-P" || (i > 0 && args[i - 1] == b"-P" && digits(a)),
        };
        if !fixed {
            break;
        }
        i += 1;
    }
    let want_dest = match (url.user(), url.host()) {
        (Some(u), Some(h)) => format!("{u}@{h}"),
        (None, Some(h)) => h.to_string(),
        _ => return bad("no-host", "unreachable"),
    };
    if i + 1 != args.len() {
        return bad("args", format!("expected the kind's own options followed by exactly one destination, got {}", show()));
    }
    let dest = args[i];
    if dest.first() == Some(&b'-') {
        return bad("option-injection", format!("destination argument {:?} would be read as an option by the ssh program (all args {})", B::new(dest), show()));
    }
    if dest != want_dest.as_bytes() && !(url.user() == Some("") && Some(dest) == url.host().map(str::as_bytes)) {
        return bad("destination", format!("destination argument {:?}, expected {want_dest:?}", B::new(dest)));
    }
    // the port must be the URL's port
    if let Some(port) = url.port {
        let p = port.to_string();
        let found = args[..i].iter().any(|a| *a == p.as_bytes() || (a.starts_with(b"-p") && &a[2..] == p.as_bytes()));
        if !found {
            return bad("port", format!("port {port} not among {}", show()));
        }
    }
    ok(format!(
        "inv-kind{}{}{}",
        c.kind,
        if dash(url.host()) { "-dashhost" } else { "" },
        match url.user() {
            Some("") => "-emptyuser",
            Some(_) => "-user",
            None => "",
        }
    ))
}

#[derive(Serialize, Deserialize, Hash, Clone, Debug)]
struct LocalCase {
    path: B,
}

pub fn run(run: &'static Run) {
    let quick = run.quick();
    // indexes 4.. : userinfo variants with empty user and/or password (`:pw@` is the only way to get user == Some(""))
    let users: Vec<&str> = vec!["", "u@", "-u@", "-oProxyCommand=x@", ":pw@", ":@", "@", "u:@", "u:pw@", ":-pw@"];
    let hosts: Vec<&str> = vec!["h", "-h", "-oProxyCommand=x", "-F/x"];
    let ports: Vec<&str> = vec!["", ":22"];
    let mut paths: Vec<&str> = vec![
        "/p", "p", "-p", "/-p", " -p", "--upload-pack=x", "/a'b", "/a'", "'", "/a\"b", "/a!b", "/a$HOME", "/a b", "/a;echo INJECTED", "/a`echo INJECTED`", "/$(echo INJECTED)", "/a\nb", "/~u/p", "/~/p", "~u/p",
        "/a\\b", "/a'\\''b", "/a&b|c", "/*", "/a#b", "'; echo INJECTED; '", "/a\\'; echo INJECTED #",
        // surrounding / interior whitespace must arrive unchanged (survives parsing in scp-like form and for local paths)
        " /p", "/p ", "/p\t", "/a  b", " /p ", "/p \t ", "  p", "\t/p",
    ];
    if !quick {
        paths.extend(["/a''b", "/!", "/a\\", "/a\tb", "/'$(echo INJECTED)'", "/a>b", "/(a)", "/-", "-", "/a%27b", "/é"]);
    }
    run.rule(format!(
        "urls: {{ssh://[user@]host[:port]/path, [user@]host:path}} with user {users:?} x host {hosts:?} x port {ports:?} x path {paths:?} x program kind {{ssh,plink,putty,tortoiseplink,simple}} (quick: full grid for ssh without port, one path for the other kinds; thorough: full grid, ssh kind also with protocol v1 and with the shell wrapper disallowed); \
         each accepted URL is connected with a recording program in place of ssh and the handshake is started, so the real argument vector is observed; the recording program joins the words after the destination with a blank and lets /bin/sh split them like a remote login shell would. \
         invocation: ProgramKind::prepare_invocation called directly (verif hook, nothing spawned) for userinfo {users:?} x 9 hosts x ports {{none,22,0,65535}} x 5 kinds x v1/v2 x shell allowed/disallowed x both URL forms: own options, then exactly one destination == [user@]host that does not start with '-'; \
         local transport: the same paths through client::file::connect with a recording git-upload-pack first in PATH. \
         non-trivial = a program was spawned and every argument was accounted for, or the URL was refused for a leading '-'"
    ));
    run.assume("/bin/sh stands in for the remote login shell; the recording program stands in for ssh/plink/putty");
    run.assume("'/~user/x' is sent as '~user/x' (home-relative addressing), every other path verbatim");
    run.budget_secs(run.pick(40.0, 600.0));
    let dir = vkit::scratch::Dir::new("c34");
    let dirp = dir.path().to_path_buf();
    make_recorders(&dirp);

    run.sub_with(
        "ssh",
        vkit::Opts::default().chunk(64).watchdog(60.0),
        |emit| {
            for kind in 0..5u8 {
                // thorough: the ssh kind under protocol v1/v2 and with/without the shell wrapper, the other kinds (which differ only in their own options) once
                let modes: &[(bool, bool)] = if quick || kind != 0 { &[(false, false)] } else { &[(false, false), (true, false), (false, true)] };
                for &(v1, disallow_shell) in modes {
                    for (ui, user) in users.iter().enumerate() {
                        for (hi, host) in hosts.iter().enumerate() {
                            for port in &ports {
                                for (pi, path) in paths.iter().enumerate() {
                                    if quick {
                                        // quick: ssh kind with users {none,u,-u} x hosts {h,-h} x all paths, no port; other kinds: first path, both ports; userinfo variants: all kinds
                                        let keep = if ui >= 4 {
                                            // userinfo variants: every kind, hosts {h,-h,-oProxyCommand=x}, first path
                                            ui < 8 && hi < 3 && pi == 0 && port.is_empty()
                                        } else if kind == 0 {
                                            ui < 3 && hi < 2 && port.is_empty()
                                        } else {
                                            ui < 2 && hi < 2 && pi == 0
                                        };
                                        if !keep {
                                            continue;
                                        }
                                    }
                                    // thorough: the userinfo variants do not interact with the path: four paths for them
                                    if !quick && ui >= 4 && pi >= 4 {
                                        continue;
                                    }
                                    let sep = if path.starts_with('/') { "" } else { "/" };
                                    emit(Case { url: B::new(format!("ssh://{user}{host}{port}{sep}{path}").as_bytes()), kind, v1, disallow_shell });
                                    // (the scp-like form cannot carry a password: not repeated for the userinfo variants in quick)
                                    if port.is_empty() && !(quick && ui >= 4) {
                                        emit(Case { url: B::new(format!("{user}{host}:{path}").as_bytes()), kind, v1, disallow_shell });
                                    }
                                }
                            }
                        }
                    }
                }
            }
        },
        |c: &Case| eval(&dirp, c),
    );
    // ---- prepare_invocation directly (verif hook): full userinfo x host x port grid for every kind, nothing is spawned ----
    run.sub(
        "invocation",
        |emit| {
            let more_hosts = ["h", "-h", "-oProxyCommand=x", "-F/x", "--", "-", "h-", "@h", "-o@x"];
            for kind in 0..5u8 {
                for v1 in [false, true] {
                    for disallow_shell in [false, true] {
                        for user in &users {
                            for host in &more_hosts {
                                for port in ["", ":22", ":0", ":65535"] {
                                    emit(Case { url: B::new(format!("ssh://{user}{host}{port}/p").as_bytes()), kind, v1, disallow_shell });
                                    if port.is_empty() {
                                        emit(Case { url: B::new(format!("{user}{host}:p").as_bytes()), kind, v1, disallow_shell });
                                    }
                                }
                            }
                        }
                    }
                }
            }
        },
        eval_invocation,
    );
    run.require("an empty user name in front of a dash-leading host was explored", run.outcome_count("inv-kind0-dashhost-emptyuser") > 0 && run.outcome_count("inv-kind4-dashhost-emptyuser") > 0);
    run.require("paths with shell metacharacters reached the recording program", run.outcome_count("spawned-kind0-special") > 0);
    run.require("leading-dash users/hosts/paths were refused", run.outcome_count("refused-user") > 0 && run.outcome_count("refused-host") > 0 && run.outcome_count("refused-path") > 0);

    // ---- local (file) transport: a fake git-upload-pack first in PATH records its arguments ----
    let bin = dir.path().join("bin");
    let rec_out = dir.path().join("local-args");
    let script = format!("#!/bin/sh\nfor a in \"$@\"; do printf '%s\\0' \"$a\"; done > '{}'\n", rec_out.display());
    if std::fs::create_dir_all(&bin).is_err()
        || std::fs::write(bin.join("git-upload-pack"), script).is_err()
        || std::fs::set_permissions(bin.join("git-upload-pack"), std::fs::Permissions::from_mode(0o755)).is_err()
    {
        vkit::machinery!("cannot create fake git-upload-pack");
    }
    let old_path = std::env::var_os("PATH").unwrap_or_default();
    let mut new_path = bin.clone().into_os_string();
    new_path.push(":");
    new_path.push(&old_path);
    std::env::set_var("PATH", &new_path);
    let rec_out = &rec_out;
    run.sub_with(
        "local",
        vkit::Opts::default().serial().chunk(64).watchdog(30.0),
        |emit| {
            for p in &paths {
                emit(LocalCase { path: B::new(p.as_bytes()) });
            }
        },
        |c: &LocalCase| -> Verdict {
            let _ = std::fs::remove_file(rec_out);
            let mut t = match gix_transport::client::file::connect(c.path.0.clone(), Protocol::V2, false) {
                Ok(t) => t,
                Err(_) => return bad("connect", "infallible connect failed"),
            };
            let res = t.handshake(Service::UploadPack, &[]);
            let err = res.as_ref().err().map(ToString::to_string);
            drop(res);
            drop(t);
            let dash = c.path.trim().first() == Some(&b'-');
            match std::fs::read(rec_out) {
                Err(_) if dash => ok("local-refused-dash"),
                Err(_) => bad("not-spawned", format!("git-upload-pack was not run for {:?}: {err:?}", c.path)),
                Ok(_) if dash => bad("dash-path-spawned", format!("git-upload-pack was run with path {:?}", c.path)),
                Ok(raw) => {
                    let args: Vec<&[u8]> = raw.split(|b| *b == 0).collect();
                    let args = &args[..args.len().saturating_sub(1)];
                    if args.len() == 1 && args[0] == &c.path.0[..] {
                        ok("local-one-verbatim-argument")
                    } else {
                        bad("local-args", format!("git-upload-pack received {:?} for path {:?}", args.iter().map(|a| B::new(a)).collect::<Vec<_>>(), c.path))
                    }
                }
            }
        },
    );
    std::env::set_var("PATH", &old_path);
}
