//! C33 — every URL gitoxide parses serializes to a string that parses back to an equal URL (E1: token grammar).
use bstr::ByteSlice;
use serde::{Deserialize, Serialize};
use vkit::{bad, ok, ok_trivial, Run, Verdict, B};

#[derive(Serialize, Deserialize, Hash, Clone, Debug)]
struct Case {
    input: B,
}

fn eval(c: &Case) -> Verdict {
    let url = match gix_url::parse(c.input.as_bstr()) {
        Ok(u) => u,
        Err(_) => return ok_trivial("unparsable"),
    };
    let text = url.to_bstring();
    let back = match gix_url::parse(text.as_bstr()) {
        Ok(u) => u,
        Err(e) => return bad("reparse-fails", format!("{:?} parses to {url:?}, which serializes to {:?}, which is refused: {e}", c.input, B::new(&text))),
    };
    if back != url {
        return bad("roundtrip", format!("{:?} parses to {url:?}, serializes to {:?}, which parses to {back:?}", c.input, B::new(&text)));
    }
    let text2 = back.to_bstring();
    if text2 != text {
        return bad("unstable", format!("second serialization {:?} differs from the first {:?}", B::new(&text2), B::new(&text)));
    }
    let form = if c.input.find("://").is_some() {
        "url"
    } else if url.scheme == gix_url::Scheme::Ssh {
        "scp"
    } else {
        "local"
    };
    ok(format!(
        "{}-{}{}{}{}",
        form,
        url.scheme.as_str(),
        if url.user().is_some() { "-user" } else { "" },
        if url.password().is_some() { "-pw" } else { "" },
        if url.port.is_some() { "-port" } else { "" }
    ))
}

pub fn run(run: &'static Run) {
    let thorough = !run.quick();
    let schemes: Vec<&str> = vec!["ssh://", "git://", "http://", "https://", "file://", "foo://", "SSH://", "ssh+git://"];
    let mut users: Vec<&str> = vec!["", "u@", "u%40@", "-u@", "u:pw@", "u:@", ":pw@", "@"];
    let first_percent_user = users.len();
    // percent-escapes of the userinfo delimiters (and of '%' itself, and a literal '%') in user and password
    users.extend([
        "a%2Fb@", "dom%2Fu@", "%3A@", "u%3Av@", "u%25@", "u%2540@", "u%@", "%40@", "%2F:%3A@", "u:%2F@", "u:to%2Fk%3Aen@", "u:%3Apw@", "u:p%40w@", "u:100%2540@", "u:%25@", "u:p%w@", "a%2Fb:c%40d@",
    ]);
    let end_percent_user = users.len();
    let mut hosts: Vec<&str> = vec!["h", "[::1]", "-h", "", "H.example", "h."];
    // every scheme's default port (ssh 22, git 9418, http 80, https 443) with both neighbours, the extremes, and an empty port
    let mut ports: Vec<&str> = vec!["", ":0", ":21", ":22", ":23", ":79", ":80", ":81", ":442", ":443", ":444", ":9417", ":9418", ":9419", ":65535", ":"];
    let mut paths: Vec<&str> =
        vec!["/p", "p", "~u/p", "/~u/p", "/", "", "/a b", "/a%20b", "/a:b", "a:b", "/p/", "//p", "/p?q=1", "/p#f", "/é", "/-p", "-p"];
    // line terminators as leading / inner / trailing path bytes, up to three in a row (forms that keep the path verbatim must keep them all)
    paths.extend([
        "/p\n", "/p\n\n", "/p\n\n\n", "/p\r", "/p\r\r", "/p\r\n", "/p\r\n\n", "/p\n\r\n", "/p\r\n\r\n", "p\n\n", "\n/p", "\n\n/p", "\r/p", "\r\n/p", "/a\nb", "/a\n\nb", "/a\r\nb", "/a\rb", "\n", "\n\n", "\r\n\n",
    ]);
    let wraps: Vec<(&str, &str)> = if thorough { vec![("", ""), (" ", ""), ("", "\n"), ("", " ")] } else { vec![("", "")] };
    if thorough {
        users.extend(["u%3a:p%40w@", "é@", "u u@"]);
        hosts.extend(["h:", "1.2.3.4", "h%20x", "ex ample"]);
        ports.extend([":65536", ":022", ":x"]);
        paths.extend(["/%", "/a\tb", "/a\\b", "/..", "/./p", "/p/../q", "/~", "/~/p", "/p.git", "/a'b", "/a\"b", "/a;b", "/a$b"]);
    }
    let locals: Vec<&[u8]> = vec![
        b"/p", b"p", b"./a:b", b"a/b:c", b" p", b"p ", b"~/p", b"../p", b"C:/p", b"-p", "é".as_bytes(), b"a b", b"\xff", b"/a\xffb", b"", b".", b"/", b"a\nb", b"./-p", b"a/b://c", b"/a://b",
        b"/p\n", b"/p\n\n", b"/p\n\n\n", b"/p\r\n", b"/p\r\n\n", b"/p\n\r\n", b"/p\r", b"/p\r\r", b"p\n\n", b"\n/p", b"\n\n/p", b"\r\n/p", b"\n", b"\n\n", b"\r\n\n", b"/a\n\nb", b"/a\r\nb",
    ];
    run.rule(format!(
        "inputs = {{{} schemes + scp-like (no scheme)}} x user {:?} x host {:?} x port {:?} x path {:?} x whitespace wrap {:?}, plus {} local-path forms (incl. non-UTF-8, ':' after '/', '://' after '/', leading/inner/trailing LF and CR runs up to 3). \
         non-trivial = the input parses, and parse(to_bstring(u)) == u with a stable second serialization",
        schemes.len(),
        users,
        hosts,
        ports,
        paths,
        wraps,
        locals.len()
    ));
    run.assume("the URL is taken exactly as parse() returned it; serialize_alternate_form() toggles are a different value and not part of the statement");
    run.budget_secs(run.pick(40.0, 600.0));
    run.sub(
        "grammar",
        |emit| {
            for l in &locals {
                emit(Case { input: B::new(l) });
            }
            for (pre, post) in &wraps {
                for scheme in schemes.iter().copied().chain(std::iter::once("")) {
                    for (ui, user) in users.iter().enumerate() {
                        let percent_user = (first_percent_user..end_percent_user).contains(&ui);
                        for host in &hosts {
                            for (pti, port) in ports.iter().enumerate() {
                                for (pi, path) in paths.iter().enumerate() {
                                    // the percent-escaped userinfo forms do not interact with the line-terminator paths: the 17 plain paths for them,
                                    // and in the quick tier the ports {none, 22}
                                    if percent_user && (pi >= 17 || (!thorough && pti != 0 && pti != 3)) {
                                        continue;
                                    }
                                    let s = if scheme.is_empty() {
                                        // scp-like: [user@]host[:port-looking]:path
                                        format!("{pre}{user}{host}{port}:{path}{post}")
                                    } else {
                                        format!("{pre}{scheme}{user}{host}{port}{path}{post}")
                                    };
                                    emit(Case { input: B::new(s.as_bytes()) });
                                }
                            }
                        }
                    }
                }
            }
        },
        eval,
    );
    for class in ["scp-ssh", "local-file", "url-ssh-user-pw-port", "url-file", "url-http"] {
        run.require(&format!("outcome class {class} was reached"), run.outcome_count(class) > 0);
    }
}
