//! C16, sub-check `concurrent-transactions` (E3): two real threads, each with a `file::Store` of its own on one git directory,
//! run one transaction each under the controlled scheduler (harness/vsched/src/c16s.rs). Every pair of transactions of a small
//! alphabet that is forced to collide (same ref, same new ref, a ref and HEAD pointing to it, loose and packed-only refs with a
//! packed-refs file that has to be rewritten), ALL interleavings with at most b preemptions of the file-system steps of the lock
//! protocol. Oracle: linearizability with aborts, against sequential runs of the real code (which the BFS part of this check
//! compares with the reference model). One process per scenario: gix-tempfile's registry is a process-wide static.
use serde::{Deserialize, Serialize};
use vkit::{bad, ok, ok_trivial, Run, Verdict};

#[derive(Serialize, Deserialize, Hash, Clone, Debug, PartialEq, Eq)]
struct Txn {
    label: String,
    name: String,
    new: Option<usize>,
    expected: String,
    deref: bool,
}

#[derive(Serialize, Deserialize, Hash, Clone, Debug)]
struct Scn {
    t1: Txn,
    t2: Txn,
    packed: bool,
    bound: usize,
    secs: u64,
    schedule: Option<Vec<usize>>,
}

#[derive(Deserialize, Debug)]
struct Report {
    executions: u64,
    decisions: u64,
    max_steps: usize,
    complete: bool,
    outcomes: std::collections::BTreeMap<String, u64>,
    failure: Option<(Vec<usize>, String)>,
    per_bound: Vec<(usize, u64)>,
    sequential: Vec<String>,
}

static PER_CASE: std::sync::Mutex<Vec<String>> = std::sync::Mutex::new(Vec::new());

fn tx(label: &str, name: &str, new: Option<usize>, expected: &str, deref: bool) -> Txn {
    Txn { label: label.into(), name: name.into(), new, expected: expected.into(), deref }
}

pub fn concurrent(run: &'static Run) {
    run.rule("concurrent transactions: every unordered pair (with repetition) of 13 single-edit transactions {a:=1|2 if a==0, a:=1, a:=2 if a==1, a:=1 if absent-or-0, delete a (if 0 | any), \
        HEAD(deref):=2 if 0, delete through HEAD(deref), create refs/heads/n/x :=1|2 if absent, delete / update the packed-only ref p if 0}, without and with a packed-refs file (stale copy of a, packed-only p), \
        run by two threads with a Store each (Fail::Immediately) under the controlled scheduler: ALL interleavings with at most b preemptions (b = 0,1,2; thorough 3) of the scheduling points \
        {each directory creation/removal step, lock-file creation, rename, removal, registry and id counter of gix-tempfile}; oracle: (result T1, result T2, final refs seen by a fresh store, no lock file left) \
        equals what the real code gives for T1;T2 or T2;T1 run one after the other, where a transaction that could not get a lock counts as not run (linearizability with aborts)");
    run.assume("concurrent-transactions: refusals are compared with their error variant; lock acquisition failures (LockAcquire, PackedTransactionAcquire) are aborts; \
        the fixture's packed-refs file gets an old modification time so that noticing a rewritten file does not depend on the clock tick (FileSnapshot compares modification times)");
    let a = "refs/heads/a";
    let alphabet = vec![
        tx("a:=1 if 0", a, Some(1), "match:0", false),
        tx("a:=2 if 0", a, Some(2), "match:0", false),
        tx("a:=1", a, Some(1), "any", false),
        tx("a:=2 if 1", a, Some(2), "match:1", false),
        tx("a:=1 if absent-or-0", a, Some(1), "existing-match:0", false),
        tx("del a if 0", a, None, "match:0", false),
        tx("del a", a, None, "any", false),
        tx("HEAD(deref):=2 if 0", "HEAD", Some(2), "match:0", true),
        tx("del HEAD(deref)", "HEAD", None, "any", true),
        tx("n/x:=1 if absent", "refs/heads/n/x", Some(1), "must-not-exist", false),
        tx("n/x:=2 if absent", "refs/heads/n/x", Some(2), "must-not-exist", false),
        tx("del p if 0", "refs/heads/p", None, "match:0", false),
        tx("p:=1 if 0", "refs/heads/p", Some(1), "match:0", false),
    ];
    let bound = run.pick(2, 3);
    let secs = run.pick(30, 900) as u64;
    let mut cases = Vec::new();
    for (i, t1) in alphabet.iter().enumerate() {
        for t2 in &alphabet[i..] {
            for packed in [false, true] {
                if !packed && (t1.name.ends_with("/p") || t2.name.ends_with("/p")) {
                    continue;
                }
                cases.push(Scn { t1: t1.clone(), t2: t2.clone(), packed, bound, secs, schedule: None });
            }
        }
    }
    run.sub_with("concurrent-transactions", vkit::Opts::default().chunk(64), |emit| cases.into_iter().for_each(|c| emit(c)), |c: &Scn| eval(run, c));
    let mut per = PER_CASE.lock().unwrap().clone();
    per.sort();
    run.cov("concurrent_transaction_explorations", per);
    run.require(
        "concurrent transactions: some execution had a transaction aborted by a held lock and some had a refused expectation",
        run.over_budget() || (run.outcome_count("conc:aborts+refusals") + run.outcome_count("conc:aborts") > 0 && run.outcome_count("conc:aborts+refusals") + run.outcome_count("conc:refusals") > 0),
    );
}

fn eval(run: &Run, c: &Scn) -> Verdict {
    let bin = std::env::var_os("VERIF_BIN_VSCHED").unwrap_or_else(|| vkit::machinery!("VERIF_BIN_VSCHED is not set (./check builds vsched with the scheduler shim and sets it)"));
    let json = serde_json::to_string(c).unwrap();
    let mut cmd = std::process::Command::new(&bin);
    cmd.arg("--c16-sched").arg(&json).stdin(std::process::Stdio::null());
    if c.schedule.is_some() {
        cmd.env("VSCHED_TRACE", "1");
    }
    let out = cmd.output().unwrap_or_else(|e| vkit::machinery!("cannot run {bin:?}: {e}"));
    let stdout = String::from_utf8_lossy(&out.stdout);
    let Some(line) = stdout.lines().find_map(|l| l.strip_prefix("C16S-REPORT ")) else {
        let err = String::from_utf8_lossy(&out.stderr);
        let tail: String = err.chars().rev().take(1500).collect::<String>().chars().rev().collect();
        vkit::machinery!("scheduler child gave no report (status {:?}): {tail}", out.status)
    };
    let rep: Report = serde_json::from_str(line).unwrap_or_else(|e| vkit::machinery!("bad report: {e}"));
    run.mc_transitions(rep.decisions);
    run.mc_validated(rep.executions);
    let distinct = rep.per_bound.last().map_or(0, |x| x.1);
    run.mc_states_bulk((0..distinct).map(|i| vkit::hash_of(&("conc", c, i))));
    for (b, n) in &rep.per_bound {
        run.cov_add(&format!("concurrent_transaction_executions_bound_{b}"), *n);
    }
    PER_CASE.lock().unwrap().push(format!(
        "{} || {}{}: executions per bound={:?} decisions={} max_steps={} complete={} outcomes={} of {} sequentially possible",
        c.t1.label, c.t2.label, if c.packed { " [packed-refs]" } else { "" }, rep.per_bound, rep.decisions, rep.max_steps, rep.complete, rep.outcomes.len(), rep.sequential.len()
    ));
    if let Some((schedule, what)) = rep.failure {
        if what.starts_with("MACHINERY") {
            vkit::machinery!("{what}");
        }
        let class = what.split(':').next().unwrap_or("violation").to_string();
        let msg = format!("{what} | packed-refs file: {} | schedule={schedule:?} (choice indices)", c.packed);
        if c.schedule.is_some() {
            if run.is_replay() {
                eprintln!("{}", String::from_utf8_lossy(&out.stderr));
            }
            return bad(&class, msg);
        }
        if schedule.is_empty() {
            // failure of the sequential reference run (no schedule to fix)
            run.violation("concurrent-transactions", c, format!("{class}: {msg}"));
            return ok_trivial("conc:violation-recorded");
        }
        let mut with_schedule = c.clone();
        with_schedule.schedule = Some(schedule);
        // the same schedule must fail the same way when it is run again on its own
        return match eval(run, &with_schedule) {
            Err(_) => {
                run.violation("concurrent-transactions", &with_schedule, format!("{class}: {msg}"));
                ok_trivial("conc:violation-recorded")
            }
            Ok(_) => vkit::machinery!("schedule {:?} failed during exploration but not when replayed: {what}", with_schedule.schedule),
        };
    }
    if c.schedule.is_some() {
        return ok("conc:replayed-without-failure");
    }
    if !rep.complete {
        run.cap_hit(format!("concurrent-transactions {} || {} not finished within {} s ({} executions done)", c.t1.label, c.t2.label, c.secs, rep.executions));
        return ok("conc:capped");
    }
    if rep.outcomes.is_empty() {
        return bad("vacuous", "no execution completed");
    }
    let aborts = rep.outcomes.keys().any(|k| k.split('|').take(2).any(|r| r == "lock"));
    let refusals = rep.outcomes.keys().any(|k| k.split('|').take(2).any(|r| r.starts_with("refused")));
    ok(match (aborts, refusals) {
        (true, true) => "conc:aborts+refusals",
        (true, false) => "conc:aborts",
        (false, true) => "conc:refusals",
        (false, false) => "conc:independent",
    })
}
