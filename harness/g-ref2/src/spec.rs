//! Shared by C16 and C17: the transaction alphabet, the fixture (objects + initial stores), state snapshots,
//! running one transaction on the real `gix_ref::file::Store`, and observation through gitoxide and git.
use gix_hash::ObjectId;
use gix_ref::{
    file,
    transaction::{Change, LogChange, PreviousValue, RefEdit, RefLog},
    FullName, Target,
};
use serde::{Deserialize, Serialize};
use std::collections::BTreeMap;
use std::path::{Path, PathBuf};

/// The name universe. `refs/heads/a` vs `refs/heads/a/b` is the directory/file pair.
pub const NAMES: [&str; 4] = ["HEAD", "refs/heads/a", "refs/heads/a/b", "refs/tags/t"];
pub const HEAD: u8 = 0;
pub const A: u8 = 1;
pub const AB: u8 = 2;
pub const T: u8 = 3;
/// lock universe: `<NAMES[i]>.lock` for i in 0..4, index 4 = `packed-refs.lock`
pub const LOCK_PACKED: u8 = 4;

pub fn lock_rel_path(i: u8) -> String {
    if i == LOCK_PACKED {
        "packed-refs.lock".into()
    } else {
        format!("{}.lock", NAMES[i as usize])
    }
}

/// A ref value: `Id(k)` = k-th fixture object (0 = commit c1, 1 = commit c2, 2 = annotated tag of c1), `Sym(n)` = symbolic to NAMES[n].
#[derive(Serialize, Deserialize, Hash, Clone, Copy, Debug, PartialEq, Eq, PartialOrd, Ord)]
pub enum Val {
    Id(u8),
    Sym(u8),
}

#[derive(Serialize, Deserialize, Hash, Clone, Copy, Debug, PartialEq, Eq, PartialOrd, Ord)]
pub enum Exp {
    Any,
    MustExist,
    MustNotExist,
    MustExistAndMatch(Val),
    ExistingMustMatch(Val),
}

#[derive(Serialize, Deserialize, Hash, Clone, Copy, Debug, PartialEq, Eq, PartialOrd, Ord)]
pub enum Chg {
    Update { new: Val, expected: Exp },
    Delete { expected: Exp },
}

#[derive(Serialize, Deserialize, Hash, Clone, Copy, Debug, PartialEq, Eq, PartialOrd, Ord)]
pub struct EditSpec {
    pub name: u8,
    pub chg: Chg,
    pub deref: bool,
    /// `RefLog::Only` instead of `RefLog::AndReference`
    pub log_only: bool,
}

#[derive(Serialize, Deserialize, Hash, Clone, Debug, PartialEq, Eq, PartialOrd, Ord)]
pub struct TxSpec {
    pub edits: Vec<EditSpec>,
    /// 0 DeletionsOnly, 1 DeletionsAndNonSymbolicUpdates, 2 DeletionsAndNonSymbolicUpdatesRemoveLooseSourceReference
    pub packed: u8,
}

/// name index -> value
pub type Map = BTreeMap<u8, Val>;

/// In-memory object database for packed-ref peeling.
#[derive(Clone)]
pub struct Objs(pub std::sync::Arc<Vec<(ObjectId, gix_object::Kind, Vec<u8>)>>);
impl gix_object::Find for Objs {
    fn try_find<'a>(
        &self,
        id: &gix_hash::oid,
        buffer: &'a mut Vec<u8>,
    ) -> Result<Option<gix_object::Data<'a>>, gix_object::find::Error> {
        for (oid, kind, data) in self.0.iter() {
            if oid.as_ref() == id {
                buffer.clear();
                buffer.extend_from_slice(data);
                return Ok(Some(gix_object::Data { kind: *kind, data: buffer }));
            }
        }
        Ok(None)
    }
}

/// Directory tree content without `objects/`: relative path -> None (directory) | Some(bytes)
pub type Snap = BTreeMap<String, Option<Vec<u8>>>;

pub fn snapshot(root: &Path) -> Snap {
    fn walk(root: &Path, dir: &Path, out: &mut Snap) {
        let rd = match std::fs::read_dir(dir) {
            Ok(rd) => rd,
            Err(e) => vkit::machinery!("read_dir {}: {e}", dir.display()),
        };
        for e in rd {
            let e = e.unwrap_or_else(|e| vkit::machinery!("read_dir entry: {e}"));
            let p = e.path();
            let rel = p.strip_prefix(root).unwrap().to_string_lossy().into_owned();
            let md = std::fs::symlink_metadata(&p).unwrap_or_else(|e| vkit::machinery!("stat {}: {e}", p.display()));
            if md.is_dir() {
                out.insert(rel, None);
                walk(root, &p, out);
            } else {
                let bytes = std::fs::read(&p).unwrap_or_else(|e| vkit::machinery!("read {}: {e}", p.display()));
                out.insert(rel, Some(bytes));
            }
        }
    }
    let mut out = Snap::new();
    walk(root, root, &mut out);
    out
}

pub fn materialize(snap: &Snap, root: &Path) {
    std::fs::create_dir_all(root).unwrap_or_else(|e| vkit::machinery!("mkdir {}: {e}", root.display()));
    for (rel, v) in snap {
        let p = root.join(rel);
        let r = match v {
            None => std::fs::create_dir(&p),
            Some(bytes) => std::fs::write(&p, bytes),
        };
        if let Err(e) = r {
            vkit::machinery!("materialize {}: {e}", p.display());
        }
    }
}

/// The part of a snapshot that determines future behaviour: everything, except that reflog *content* is dropped
/// (a reflog is only ever appended to or removed; its presence is kept).
pub fn canonical(snap: &Snap) -> Snap {
    snap.iter()
        .map(|(k, v)| {
            if k.starts_with("logs/") && v.is_some() {
                (k.clone(), Some(Vec::new()))
            } else {
                (k.clone(), v.clone())
            }
        })
        .collect()
}

pub fn lock_files(snap: &Snap) -> Vec<String> {
    snap.iter().filter(|(k, v)| v.is_some() && k.ends_with(".lock")).map(|(k, _)| k.clone()).collect()
}

pub fn snap_diff(a: &Snap, b: &Snap) -> String {
    let mut out = Vec::new();
    for (k, v) in a {
        match b.get(k) {
            None => out.push(format!("-{k}")),
            Some(w) if w != v => out.push(format!(
                "~{k}: {:?} -> {:?}",
                v.as_deref().map(|x| String::from_utf8_lossy(x).into_owned()),
                w.as_deref().map(|x| String::from_utf8_lossy(x).into_owned())
            )),
            _ => {}
        }
    }
    for k in b.keys() {
        if !a.contains_key(k) {
            out.push(format!("+{k}"));
        }
    }
    out.join("; ")
}

pub struct Fixture {
    pub ids: [ObjectId; 3],
    pub objects_dir: PathBuf,
    pub objs: Objs,
    /// initial states: (snapshot, model map)
    pub initial: Vec<(Snap, Map)>,
}

fn git_at(dir: &Path, objects: &Path) -> std::process::Command {
    let mut c = vkit::git::cmd(dir);
    c.env("GIT_DIR", dir).env("GIT_OBJECT_DIRECTORY", objects);
    c
}

/// Run git on a state directory (bare layout, shared object directory). Any outcome is returned.
pub fn git_try(dir: &Path, objects: &Path, args: &[&str]) -> vkit::git::Out {
    let mut c = git_at(dir, objects);
    c.args(args);
    vkit::git::run_cmd(c, None)
}
/// Run git on a state directory; failure is a machinery error (fixture construction).
pub fn git_must(dir: &Path, objects: &Path, args: &[&str]) -> String {
    let o = git_try(dir, objects, args);
    if !o.ok {
        vkit::machinery!("git {:?} failed in {}: {}", args, dir.display(), o.err_text());
    }
    o.text()
}

impl Fixture {
    pub fn id(&self, k: u8) -> ObjectId {
        self.ids[k as usize]
    }
    pub fn id_index(&self, id: &gix_hash::oid) -> Option<u8> {
        self.ids.iter().position(|i| i.as_ref() == id).map(|p| p as u8)
    }

    /// Build objects and the three initial stores with git itself.
    pub fn create() -> Fixture {
        let base = vkit::scratch::Dir::new("ref2-fixture").keep();
        let seed = base.join("seed");
        vkit::git::init_bare(&seed);
        let objects_dir = seed.join("objects");
        let g = |args: &[&str]| git_must(&seed, &objects_dir, args);
        let tree = String::from_utf8_lossy(&vkit::git::git_in(&seed, &["mktree"], b"")).trim().to_string();
        let c1 = g(&["commit-tree", &tree, "-m", "c1"]);
        let c2 = g(&["commit-tree", &tree, "-p", &c1, "-m", "c2"]);
        g(&["tag", "-a", "-m", "annotated", "tmp-tag", &c1]);
        let tag = g(&["rev-parse", "refs/tags/tmp-tag"]);
        g(&["tag", "-d", "tmp-tag"]);
        let parse = |s: &str| ObjectId::from_hex(s.as_bytes()).unwrap_or_else(|e| vkit::machinery!("bad id {s}: {e}"));
        let ids = [parse(&c1), parse(&c2), parse(&tag)];
        if ids[0] == ids[1] || ids[0] == ids[2] || ids[1] == ids[2] {
            vkit::machinery!("fixture ids are not distinct");
        }
        let mut objs = Vec::new();
        for (hex, kind, ty) in [
            (&c1, gix_object::Kind::Commit, "commit"),
            (&c2, gix_object::Kind::Commit, "commit"),
            (&tag, gix_object::Kind::Tag, "tag"),
            (&tree, gix_object::Kind::Tree, "tree"),
        ] {
            let data = vkit::git::git(&seed, &["cat-file", ty, hex]);
            objs.push((parse(hex), kind, data));
        }
        let fresh = |tag: &str| -> PathBuf {
            let d = base.join(tag);
            std::fs::create_dir_all(d.join("refs/heads")).and_then(|_| std::fs::create_dir_all(d.join("refs/tags"))).unwrap_or_else(|e| vkit::machinery!("mkdir: {e}"));
            std::fs::write(d.join("HEAD"), "ref: refs/heads/a\n").unwrap_or_else(|e| vkit::machinery!("write HEAD: {e}"));
            std::fs::write(d.join("config"), "[core]\n\trepositoryformatversion = 0\n\tfilemode = true\n\tbare = true\n")
                .unwrap_or_else(|e| vkit::machinery!("write config: {e}"));
            d
        };
        let mut initial = Vec::new();
        // S0: empty store, HEAD -> refs/heads/a (unborn)
        let s0 = fresh("s0");
        git_must(&s0, &objects_dir, &["for-each-ref"]);
        initial.push((snapshot(&s0), Map::from([(HEAD, Val::Sym(A))])));
        // S1: refs/heads/a packed at c1 and loose at c2 (stale packed copy), refs/tags/t packed only (annotated, with peeled line)
        let s1 = fresh("s1");
        git_must(&s1, &objects_dir, &["update-ref", "refs/heads/a", &c1]);
        git_must(&s1, &objects_dir, &["update-ref", "refs/tags/t", &tag]);
        git_must(&s1, &objects_dir, &["pack-refs", "--all"]);
        git_must(&s1, &objects_dir, &["update-ref", "refs/heads/a", &c2]);
        initial.push((snapshot(&s1), Map::from([(HEAD, Val::Sym(A)), (A, Val::Id(1)), (T, Val::Id(2))])));
        // S2: two-hop symbolic chain HEAD -> refs/tags/t -> refs/heads/a = c1 (loose)
        let s2 = fresh("s2");
        git_must(&s2, &objects_dir, &["update-ref", "refs/heads/a", &c1]);
        git_must(&s2, &objects_dir, &["symbolic-ref", "refs/tags/t", "refs/heads/a"]);
        git_must(&s2, &objects_dir, &["symbolic-ref", "HEAD", "refs/tags/t"]);
        initial.push((snapshot(&s2), Map::from([(HEAD, Val::Sym(T)), (T, Val::Sym(A)), (A, Val::Id(0))])));
        Fixture { ids, objects_dir, objs: Objs(std::sync::Arc::new(objs)), initial }
    }

    pub fn target(&self, v: Val) -> Target {
        match v {
            Val::Id(k) => Target::Object(self.id(k)),
            Val::Sym(n) => Target::Symbolic(full_name(n)),
        }
    }
    fn previous(&self, e: Exp) -> PreviousValue {
        match e {
            Exp::Any => PreviousValue::Any,
            Exp::MustExist => PreviousValue::MustExist,
            Exp::MustNotExist => PreviousValue::MustNotExist,
            Exp::MustExistAndMatch(v) => PreviousValue::MustExistAndMatch(self.target(v)),
            Exp::ExistingMustMatch(v) => PreviousValue::ExistingMustMatch(self.target(v)),
        }
    }
    pub fn ref_edit(&self, e: &EditSpec) -> RefEdit {
        let mode = if e.log_only { RefLog::Only } else { RefLog::AndReference };
        RefEdit {
            change: match e.chg {
                Chg::Update { new, expected } => Change::Update {
                    log: LogChange { mode, force_create_reflog: false, message: "verif".into() },
                    expected: self.previous(expected),
                    new: self.target(new),
                },
                Chg::Delete { expected } => Change::Delete { expected: self.previous(expected), log: mode },
            },
            name: full_name(e.name),
            deref: e.deref,
        }
    }

    pub fn store(&self, dir: &Path) -> file::Store {
        file::Store::at(
            dir.to_owned(),
            gix_ref::store::init::Options {
                write_reflog: gix_ref::store::WriteReflog::Normal,
                object_hash: gix_hash::Kind::Sha1,
                ..Default::default()
            },
        )
    }

    /// prepare (+ commit) `tx` on `store`.
    pub fn run_tx(&self, store: &file::Store, tx: &TxSpec, mode: gix_lock::acquire::Fail) -> TxOutcome {
        let packed = match tx.packed {
            0 => file::transaction::PackedRefs::DeletionsOnly,
            1 => file::transaction::PackedRefs::DeletionsAndNonSymbolicUpdates(Box::new(self.objs.clone())),
            _ => file::transaction::PackedRefs::DeletionsAndNonSymbolicUpdatesRemoveLooseSourceReference(Box::new(
                self.objs.clone(),
            )),
        };
        let edits: Vec<RefEdit> = tx.edits.iter().map(|e| self.ref_edit(e)).collect();
        let committer = gix_actor::Signature {
            name: "verif".into(),
            email: "verif@example.com".into(),
            time: gix_date::Time { seconds: 1112911993, offset: 0, sign: gix_date::time::Sign::Plus },
        };
        match store.transaction().packed_refs(packed).prepare(edits, mode, mode) {
            Err(e) => TxOutcome::PrepareErr(prepare_class(&e), format!("{e:?}")),
            Ok(t) => match t.commit(Some(committer.to_ref())) {
                Ok(_) => TxOutcome::Committed,
                Err(e) => TxOutcome::CommitErr(commit_class(&e), format!("{e:?}")),
            },
        }
    }
}

pub fn full_name(n: u8) -> FullName {
    FullName::try_from(NAMES[n as usize]).unwrap_or_else(|e| vkit::machinery!("invalid name in universe: {e}"))
}
pub fn name_index(name: &[u8]) -> Option<u8> {
    NAMES.iter().position(|n| n.as_bytes() == name).map(|p| p as u8)
}

#[derive(Debug, Clone, PartialEq, Eq)]
pub enum TxOutcome {
    Committed,
    PrepareErr(&'static str, String),
    CommitErr(&'static str, String),
}

fn prepare_class(e: &file::transaction::prepare::Error) -> &'static str {
    use file::transaction::prepare::Error::*;
    match e {
        Packed(_) => "Packed",
        PackedTransactionAcquire(_) => "PackedTransactionAcquire",
        PackedTransactionPrepare(_) => "PackedTransactionPrepare",
        PackedFind(_) => "PackedFind",
        PreprocessingFailed(_) => "PreprocessingFailed",
        LockAcquire { .. } => "LockAcquire",
        Io(_) => "Io",
        DeleteReferenceMustExist { .. } => "DeleteReferenceMustExist",
        MustNotExist { .. } => "MustNotExist",
        MustExist { .. } => "MustExist",
        ReferenceOutOfDate { .. } => "ReferenceOutOfDate",
        ReferenceDecode(_) => "ReferenceDecode",
    }
}
fn commit_class(e: &file::transaction::commit::Error) -> &'static str {
    use file::transaction::commit::Error::*;
    match e {
        PackedTransactionCommit(_) => "PackedTransactionCommit",
        PreprocessingFailed { .. } => "PreprocessingFailed",
        LockCommit { .. } => "LockCommit",
        DeleteReference { .. } => "DeleteReference",
        DeleteReflog { .. } => "DeleteReflog",
        CreateOrUpdateRefLog(_) => "CreateOrUpdateRefLog",
    }
}

pub static ENOTDIR_LOOKUPS: std::sync::atomic::AtomicU64 = std::sync::atomic::AtomicU64::new(0);

/// What an observer saw: name -> value, with values outside the universe rendered as text.
pub type View = BTreeMap<String, String>;

pub fn show_val(v: Val) -> String {
    match v {
        Val::Id(k) => format!("id{k}"),
        Val::Sym(n) => format!("->{}", NAMES[n as usize]),
    }
}
pub fn view_of_map(m: &Map) -> View {
    m.iter().map(|(n, v)| (NAMES[*n as usize].to_string(), show_val(*v))).collect()
}

impl Fixture {
    fn show_target(&self, t: &Target) -> String {
        match t {
            Target::Object(id) => match self.id_index(id) {
                Some(k) => format!("id{k}"),
                None => format!("unknown-id:{id}"),
            },
            Target::Symbolic(n) => format!("->{}", n.as_bstr()),
        }
    }

    /// `try_find` for every universe name, and `iter().all()`; both must tell the same story. Err = description of an inconsistency
    /// or an error returned by the store.
    pub fn observe_gix(&self, store: &file::Store) -> Result<View, String> {
        let mut by_find = View::new();
        let mut enotdir: Vec<&str> = Vec::new();
        for n in NAMES {
            match store.try_find(n) {
                Ok(Some(r)) => {
                    if r.name.as_bstr() != n.as_bytes() {
                        return Err(format!("try_find({n}) returned a reference named {}", r.name.as_bstr()));
                    }
                    by_find.insert(n.to_string(), self.show_target(&r.target));
                }
                Ok(None) => {}
                // `refs/heads/a/b` while `refs/heads/a` is a loose file: the lookup reports ENOTDIR instead of "not found".
                // That is a property of lookups (C18), not of transactions; iter() is the observer for this name then.
                Err(file::find::Error::ReadFileContents { source, .. }) if source.raw_os_error() == Some(20) => {
                    ENOTDIR_LOOKUPS.fetch_add(1, std::sync::atomic::Ordering::Relaxed);
                    enotdir.push(n);
                }
                Err(e) => return Err(format!("try_find({n}) failed: {e:?}")),
            }
        }
        let mut by_iter = View::new();
        let platform = store.iter().map_err(|e| format!("iter() failed: {e:?}"))?;
        for r in platform.all().map_err(|e| format!("iter().all() failed: {e:?}"))? {
            let r = r.map_err(|e| format!("iter().all() item failed: {e:?}"))?;
            let name = r.name.as_bstr().to_string();
            if by_iter.insert(name.clone(), self.show_target(&r.target)).is_some() {
                return Err(format!("iter().all() yields {name} twice"));
            }
        }
        for n in enotdir {
            if let Some(v) = by_iter.get(n) {
                by_find.insert(n.to_string(), v.clone());
            }
        }
        let mut expect_iter = by_find.clone();
        expect_iter.remove("HEAD");
        if expect_iter != by_iter {
            return Err(format!("try_find says {by_find:?} but iter().all() says {by_iter:?}"));
        }
        Ok(by_find)
    }

    /// git's view: `for-each-ref` (+ `symbolic-ref` for names the caller expects to be symbolic, + HEAD).
    /// `expect` is only used to decide *which* questions to ask; the answers are git's.
    pub fn observe_git(&self, dir: &Path, expect: &Map) -> Result<View, String> {
        let mut view = View::new();
        let o = git_try(dir, &self.objects_dir, &["for-each-ref", "--format=%(refname) %(objectname) %(symref)"]);
        if !o.ok {
            return Err(format!("git for-each-ref failed: {}", o.err_text()));
        }
        for line in o.text().lines() {
            let mut it = line.splitn(3, ' ');
            let (name, id, sym) = (it.next().unwrap_or(""), it.next().unwrap_or(""), it.next().unwrap_or(""));
            let val = if !sym.is_empty() {
                format!("->{sym}")
            } else {
                match ObjectId::from_hex(id.as_bytes()).ok().and_then(|i| self.id_index(&i)) {
                    Some(k) => format!("id{k}"),
                    None => format!("unknown-id:{id}"),
                }
            };
            if view.insert(name.to_string(), val).is_some() {
                return Err(format!("git for-each-ref lists {name} twice"));
            }
        }
        // for-each-ref resolves %(symref) recursively and omits dangling/cyclic symbolic refs: ask `symbolic-ref --no-recurse` for the names
        // the model knows to be symbolic unless for-each-ref's answer is already the immediate target (one hop to a direct ref).
        for (n, v) in expect {
            let name = NAMES[*n as usize];
            if *n == HEAD {
                let s = git_try(dir, &self.objects_dir, &["symbolic-ref", "-q", "--no-recurse", "HEAD"]);
                if s.ok {
                    view.insert("HEAD".into(), format!("->{}", s.text()));
                } else {
                    let o = git_try(dir, &self.objects_dir, &["rev-parse", "--verify", "-q", "HEAD"]);
                    if o.ok {
                        let id = o.text();
                        let val = match ObjectId::from_hex(id.as_bytes()).ok().and_then(|i| self.id_index(&i)) {
                            Some(k) => format!("id{k}"),
                            None => format!("unknown-id:{id}"),
                        };
                        view.insert("HEAD".into(), val);
                    }
                }
            } else if let Val::Sym(t) = v {
                let one_hop_to_direct = matches!(expect.get(t), Some(Val::Id(_)));
                if one_hop_to_direct && view.contains_key(name) {
                    continue;
                }
                let o = git_try(dir, &self.objects_dir, &["symbolic-ref", "-q", "--no-recurse", name]);
                if o.ok {
                    view.insert(name.to_string(), format!("->{}", o.text()));
                } else {
                    view.remove(name);
                }
            }
        }
        Ok(view)
    }
}

// ------------------------------------------------------------------------------------------------------------------
// alphabet

pub fn exps(for_delete: bool) -> Vec<Exp> {
    let mut v = vec![Exp::Any, Exp::MustExist];
    if !for_delete {
        v.push(Exp::MustNotExist); // invalid for deletions by documentation ("MustNotExist variant being invalid")
    }
    for val in [Val::Id(0), Val::Sym(A)] {
        v.push(Exp::MustExistAndMatch(val));
        v.push(Exp::ExistingMustMatch(val));
    }
    v
}

/// All single edits: names x (Update{new, expected} | Delete{expected}) x deref. `rich` adds the new value `Sym(T)`.
pub fn single_edits(rich: bool) -> Vec<EditSpec> {
    let mut news = vec![Val::Id(0), Val::Id(1), Val::Id(2), Val::Sym(A)];
    if rich {
        news.push(Val::Sym(T));
    }
    let mut out = Vec::new();
    for name in 0..NAMES.len() as u8 {
        for deref in [false, true] {
            for expected in exps(true) {
                out.push(EditSpec { name, chg: Chg::Delete { expected }, deref, log_only: false });
            }
            for new in &news {
                for expected in exps(false) {
                    out.push(EditSpec { name, chg: Chg::Update { new: *new, expected }, deref, log_only: false });
                }
            }
        }
    }
    out
}

/// The transaction alphabet: every single edit x 3 packed modes; in `rich` mode additionally `RefLog::Only` variants (expected Any /
/// MustExistAndMatch(id0)) and selected two-edit transactions.
pub fn alphabet(rich: bool) -> Vec<TxSpec> {
    let singles = single_edits(rich);
    let mut out = Vec::new();
    for packed in 0..3u8 {
        for e in &singles {
            out.push(TxSpec { edits: vec![*e], packed });
        }
    }
    // two-edit transactions: first edit on HEAD or refs/heads/a (deref or not), second on refs/heads/a or refs/tags/t:
    // covers "two edits ending on one name" through a split, an update + delete pair, and atomicity when the second fails.
    let firsts = [
        EditSpec { name: HEAD, chg: Chg::Update { new: Val::Id(1), expected: Exp::Any }, deref: true, log_only: false },
        EditSpec { name: HEAD, chg: Chg::Update { new: Val::Id(1), expected: Exp::Any }, deref: false, log_only: false },
        EditSpec { name: HEAD, chg: Chg::Delete { expected: Exp::Any }, deref: true, log_only: false },
        EditSpec { name: T, chg: Chg::Update { new: Val::Id(2), expected: Exp::MustNotExist }, deref: false, log_only: false },
        EditSpec { name: T, chg: Chg::Delete { expected: Exp::MustExist }, deref: true, log_only: false },
    ];
    let seconds = [
        EditSpec { name: A, chg: Chg::Update { new: Val::Id(0), expected: Exp::Any }, deref: false, log_only: false },
        EditSpec { name: A, chg: Chg::Update { new: Val::Id(1), expected: Exp::MustExistAndMatch(Val::Id(0)) }, deref: false, log_only: false },
        EditSpec { name: A, chg: Chg::Delete { expected: Exp::ExistingMustMatch(Val::Id(0)) }, deref: false, log_only: false },
        EditSpec { name: A, chg: Chg::Update { new: Val::Sym(T), expected: Exp::MustNotExist }, deref: true, log_only: false },
    ];
    for packed in 0..3u8 {
        for f in &firsts {
            for s in &seconds {
                out.push(TxSpec { edits: vec![*f, *s], packed });
                if rich {
                    out.push(TxSpec { edits: vec![*s, *f], packed });
                }
            }
        }
    }
    // RefLog::Only probes (also in the plain alphabet): the ref itself must not change, the expectation is still checked against the
    // current value - which may live in packed-refs only
    for packed in 0..3u8 {
        for e in [
            EditSpec { name: T, chg: Chg::Update { new: Val::Id(0), expected: Exp::MustExist }, deref: false, log_only: true },
            EditSpec { name: T, chg: Chg::Delete { expected: Exp::MustExist }, deref: false, log_only: true },
            EditSpec { name: A, chg: Chg::Update { new: Val::Id(1), expected: Exp::MustExistAndMatch(Val::Id(0)) }, deref: false, log_only: true },
            EditSpec { name: HEAD, chg: Chg::Delete { expected: Exp::MustExistAndMatch(Val::Id(0)) }, deref: true, log_only: true },
        ] {
            out.push(TxSpec { edits: vec![e], packed });
        }
    }
    if rich {
        for packed in 0..3u8 {
            for e in &singles {
                let keep = match e.chg {
                    Chg::Update { expected, .. } | Chg::Delete { expected } => {
                        matches!(expected, Exp::Any | Exp::MustExistAndMatch(Val::Id(0)))
                    }
                };
                if keep {
                    out.push(TxSpec { edits: vec![EditSpec { log_only: true, ..*e }], packed });
                }
            }
        }
    }
    let mut seen = std::collections::HashSet::new();
    out.retain(|t| seen.insert(t.clone()));
    out
}

// ------------------------------------------------------------------------------------------------------------------
// reference model (transcribed from the API documentation of RefEdit / PreviousValue / PackedRefs, see DESIGN "C16 model")

#[derive(Debug, Clone, PartialEq, Eq)]
pub enum Predicted {
    /// must succeed with this map
    Ok(Map),
    /// must fail and change nothing
    Fail(&'static str),
    /// a directory/file conflict between `refs/heads/a` and `refs/heads/a/b` is involved: either refused (nothing changes) or
    /// performed with this map (loose storage cannot hold both, packed storage can)
    DirFile(Map),
}

fn is_df_pair(x: u8, y: u8) -> bool {
    (x == A && y == AB) || (x == AB && y == A)
}

pub fn model_apply(map: &Map, tx: &TxSpec) -> Predicted {
    #[derive(Clone, Copy)]
    struct E {
        name: u8,
        chg: Chg,
        deref: bool,
        log_only: bool,
        split_parent: bool,
    }
    let mut edits: Vec<E> =
        tx.edits.iter().map(|e| E { name: e.name, chg: e.chg, deref: e.deref, log_only: e.log_only, split_parent: false }).collect();
    // (1) split: an edit with deref on a symbolic ref is applied to the referent instead, recursively; the symbolic ref itself
    // only gets a reflog entry. More than 5 rounds => assumed cycle => failure.
    let mut first = 0;
    let mut round = 1;
    loop {
        let mut new_edits = Vec::new();
        for e in edits[first..].iter_mut() {
            if !e.deref {
                continue;
            }
            e.deref = false;
            if let Some(Val::Sym(referent)) = map.get(&e.name) {
                new_edits.push(E { name: *referent, chg: e.chg, deref: true, log_only: e.log_only, split_parent: false });
                e.log_only = true;
                e.split_parent = true;
            }
        }
        if new_edits.is_empty() {
            break;
        }
        if round == 5 {
            return Predicted::Fail("cycle");
        }
        round += 1;
        first = edits.len();
        edits.extend(new_edits);
    }
    // (2) one name, one edit
    let mut names: Vec<u8> = edits.iter().map(|e| e.name).collect();
    names.sort();
    if names.windows(2).any(|w| w[0] == w[1]) {
        return Predicted::Fail("duplicate");
    }
    // (3) expectations against the pre-state, on the edits that carry the change (the leafs)
    for e in edits.iter().filter(|e| !e.split_parent) {
        let cur = map.get(&e.name).copied();
        let ok = match e.chg {
            Chg::Update { new, expected } => match expected {
                Exp::Any => true,
                Exp::MustExist => cur.is_some(),
                Exp::MustNotExist => cur.is_none() || cur == Some(new),
                Exp::MustExistAndMatch(v) => cur == Some(v),
                Exp::ExistingMustMatch(v) => cur.is_none() || cur == Some(v),
            },
            Chg::Delete { expected } => match expected {
                Exp::Any => true,
                Exp::MustExist => cur.is_some(),
                Exp::MustNotExist => return Predicted::Fail("invalid"),
                Exp::MustExistAndMatch(v) => cur == Some(v),
                Exp::ExistingMustMatch(v) => cur.is_none() || cur == Some(v),
            },
        };
        if !ok {
            return Predicted::Fail("expectation");
        }
    }
    // (5) directory/file pair: any edit (of any kind, it needs a lock below the other name) on one of the two names while the
    // other one exists or is edited as well
    let mut df = false;
    for e in &edits {
        for other in [A, AB] {
            if is_df_pair(e.name, other) && (map.contains_key(&other) || edits.iter().any(|o| o.name == other)) {
                df = true;
            }
        }
    }
    // (4) apply
    let mut out = map.clone();
    for e in edits.iter().filter(|e| !e.log_only) {
        match e.chg {
            Chg::Update { new, .. } => {
                out.insert(e.name, new);
            }
            Chg::Delete { .. } => {
                out.remove(&e.name);
            }
        }
    }
    if df {
        Predicted::DirFile(out)
    } else {
        Predicted::Ok(out)
    }
}
