//! C17, sub-check `reused-store`: ONE long-lived `file::Store` is used (which loads and caches packed-refs), then another party
//! changes the repository behind its back (git, a second `Store`, a bare `touch`, or a holder of packed-refs.lock that commits while
//! we back off), then the first store is used again. Every call on the first store must return within the deadline.
//! The cached packed-refs snapshot (`gix_fs::SharedFileSnapshotMut`) with its read/write lock is only exercised this way: a fresh
//! store per step (sub-check `contention`, C16's BFS) always takes the "nothing loaded yet" path.
use crate::spec::*;
use serde::{Deserialize, Serialize};
use std::sync::atomic::{AtomicU64, Ordering};
use std::time::{Duration, Instant, SystemTime};
use vkit::{bad, ok, ok_trivial, Run, Verdict};

const CALL_DEADLINE_S: f64 = 20.0; // generous: a loaded machine may deschedule us for seconds; a real hang is caught by the watchdog
/// whole case (3 steps, possibly two git processes on a loaded machine)
const CASE_WATCHDOG_S: f64 = 45.0;

#[derive(Serialize, Deserialize, Hash, Clone, Debug, PartialEq, Eq)]
enum Use {
    TryFind(u8),
    Iter,
    Tx(TxSpec),
}

#[derive(Serialize, Deserialize, Hash, Clone, Debug, PartialEq, Eq)]
enum Other {
    /// control: nobody does anything
    Nothing,
    /// packed-refs content unchanged, modification time newer
    Touch,
    /// `git pack-refs --all`
    GitPackRefs,
    /// `git update-ref --no-deref -d <name>` (rewrites packed-refs if the ref is packed)
    GitDelete(u8),
    /// `git update-ref --no-deref <name> <id>` (loose file only)
    GitUpdate(u8, u8),
    /// a transaction through a second `file::Store`
    Store2(TxSpec),
    /// another party holds packed-refs.lock while the first store starts its call (with back-off), appends a ref and commits 15 ms later
    ReleaseDuringBackoff,
}

#[derive(Serialize, Deserialize, Hash, Clone, Debug)]
struct Case {
    state: u8,
    warm: Use,
    other: Other,
    then: Use,
    backoff: bool,
}

fn one(name: u8, chg: Chg, deref: bool, packed: u8) -> TxSpec {
    TxSpec { edits: vec![EditSpec { name, chg, deref, log_only: false }], packed }
}

fn warmups() -> Vec<Use> {
    vec![
        Use::TryFind(T),
        Use::TryFind(A),
        Use::Iter,
        // creates / rewrites packed-refs through the store itself (which force-refreshes its cache afterwards)
        Use::Tx(one(AB, Chg::Update { new: Val::Id(1), expected: Exp::Any }, false, 1)),
        Use::Tx(one(T, Chg::Update { new: Val::Id(2), expected: Exp::Any }, false, 2)),
        // deletions-only transaction that has to look into packed-refs
        Use::Tx(one(T, Chg::Delete { expected: Exp::MustExistAndMatch(Val::Id(0)) }, false, 0)),
    ]
}

fn others() -> Vec<Other> {
    vec![
        Other::Nothing,
        Other::Touch,
        Other::GitPackRefs,
        Other::GitDelete(T),
        Other::GitUpdate(A, 0),
        Other::Store2(one(A, Chg::Update { new: Val::Id(0), expected: Exp::Any }, false, 1)),
        Other::Store2(one(T, Chg::Delete { expected: Exp::Any }, false, 0)),
        Other::Store2(one(AB, Chg::Update { new: Val::Id(1), expected: Exp::Any }, false, 2)),
        Other::ReleaseDuringBackoff,
    ]
}

fn finals(rich: bool) -> Vec<Use> {
    let mut v = vec![Use::TryFind(HEAD), Use::TryFind(A), Use::TryFind(AB), Use::TryFind(T), Use::Iter];
    for tx in alphabet(false) {
        let keep = rich
            || (tx.edits.len() == 1
                && tx.edits.iter().all(|e| match e.chg {
                    Chg::Update { new, expected } => {
                        matches!(new, Val::Id(0) | Val::Sym(_)) && matches!(expected, Exp::Any | Exp::MustExistAndMatch(Val::Id(0)))
                    }
                    Chg::Delete { expected } => matches!(expected, Exp::Any | Exp::MustExistAndMatch(Val::Id(0))),
                }));
        if keep {
            v.push(Use::Tx(tx));
        }
    }
    v
}

/// Ok(class) when the call returned in time
fn use_store(fx: &Fixture, store: &gix_ref::file::Store, u: &Use, mode: gix_lock::acquire::Fail, calls: &mut u64) -> Result<String, String> {
    let start = Instant::now();
    let class = match u {
        Use::TryFind(n) => {
            *calls += 1;
            match store.try_find(NAMES[*n as usize]) {
                Ok(Some(_)) => "find:some".to_string(),
                Ok(None) => "find:none".to_string(),
                Err(_) => "find:err".to_string(),
            }
        }
        Use::Iter => {
            *calls += 1;
            match store.iter().map_err(|e| e.to_string()).and_then(|p| p.all().map(|it| it.count()).map_err(|e| e.to_string())) {
                Ok(_) => "iter:ok".to_string(),
                Err(_) => "iter:err".to_string(),
            }
        }
        Use::Tx(tx) => match fx.run_tx(store, tx, mode) {
            TxOutcome::Committed => {
                *calls += 2;
                "tx:committed".to_string()
            }
            TxOutcome::PrepareErr(k, _) => {
                *calls += 1;
                format!("tx:prepare-err:{k}")
            }
            TxOutcome::CommitErr(k, _) => {
                *calls += 2;
                format!("tx:commit-err:{k}")
            }
        },
    };
    let el = start.elapsed().as_secs_f64();
    if el >= CALL_DEADLINE_S {
        return Err(format!("returned only after {el:.2}s ({class})"));
    }
    Ok(class)
}

fn set_newer(path: &std::path::Path) {
    if let Ok(f) = std::fs::OpenOptions::new().write(true).open(path) {
        if let Err(e) = f.set_modified(SystemTime::now() + Duration::from_secs(2)) {
            vkit::machinery!("cannot set mtime of {}: {e}", path.display());
        }
    }
}

pub fn reused(run: &'static Run, fx: &Fixture) {
    let rich = !run.quick();
    let (warm, other, then) = (warmups(), others(), finals(rich));
    // second uses combined with the expensive other parties (git, lock holder): quick = 5 lookups + 12 transactions, thorough = the quick list of `finals`
    let then_small: Vec<Use> = if rich {
        finals(false)
    } else {
        let mut v = vec![Use::TryFind(HEAD), Use::TryFind(A), Use::TryFind(AB), Use::TryFind(T), Use::Iter];
        for packed in 0..3u8 {
            v.push(Use::Tx(one(T, Chg::Delete { expected: Exp::Any }, false, packed)));
            v.push(Use::Tx(one(A, Chg::Update { new: Val::Id(0), expected: Exp::Any }, false, packed)));
            v.push(Use::Tx(one(A, Chg::Update { new: Val::Id(1), expected: Exp::MustExistAndMatch(Val::Id(0)) }, false, packed)));
            v.push(Use::Tx(one(HEAD, Chg::Delete { expected: Exp::Any }, true, packed)));
        }
        v
    };
    run.rule(format!(
        "reused-store: 3 initial stores x {} first uses of ONE long-lived Store (try_find of a packed-only / loose ref, iter, transactions that write or read packed-refs) \
         x {} actions of another party (nothing, touch, git pack-refs --all, git update-ref -d of a packed ref, git update-ref, 3 transactions of a second Store, \
         a packed-refs.lock holder that commits 15 ms into our back-off), after which (except for the control) packed-refs (if present) gets a modification time 2 s in the future, \
         x {} second uses of the first store (4 try_find, iter, {} transactions; with git or the lock holder as other party: {} second uses{}) with Fail::Immediately{}; oracle: every call on the first store returns within {CALL_DEADLINE_S}s \
         (case watchdog {CASE_WATCHDOG_S}s), no own lock file is left, and afterwards the first store shows the same refs as a fresh one; non-trivial = the other party did something",
        warm.len(),
        other.len(),
        then.len(),
        then.len() - 5,
        then_small.len(),
        if rich { "" } else { " and 3 of the first uses" },
        if rich { " and AfterDurationWithBackoff(30ms)" } else { " (AfterDurationWithBackoff only for the lock-holder scenario)" },
    ));
    run.assume("reused-store: built with gix-features/parallel (stores are Sync, the packed-refs cache sits behind parking_lot::RwLock as in the gix crate); the forced future mtime removes the dependence on timestamp granularity");
    let reload_candidates = AtomicU64::new(0);
    let after_git_rewrite = AtomicU64::new(0);
    let after_store2_rewrite = AtomicU64::new(0);
    let released_during_backoff = AtomicU64::new(0);
    run.sub_with(
        "reused-store",
        vkit::Opts::default().chunk(run.pick(512, 2048)).watchdog(CASE_WATCHDOG_S).isolate(),
        |emit| {
            for other in &other {
                // git costs a process per case and the lock holder 15 ms: they get the smaller lists
                let expensive = matches!(other, Other::GitPackRefs | Other::GitDelete(_) | Other::GitUpdate(..) | Other::ReleaseDuringBackoff);
                let thens: &Vec<Use> = if expensive { &then_small } else { &then };
                let warms: &[Use] = if expensive && !rich { &warm[2..5] } else { &warm[..] };
                for then in thens {
                    for state in 0..fx.initial.len() as u8 {
                        for warm in warms {
                            let backoffs: &[bool] = match other {
                                Other::ReleaseDuringBackoff => &[true],
                                _ if rich && matches!(then, Use::Tx(_)) => &[false, true],
                                _ => &[false],
                            };
                            for backoff in backoffs {
                                emit(Case { state, warm: warm.clone(), other: other.clone(), then: then.clone(), backoff: *backoff });
                            }
                        }
                    }
                }
            }
        },
        |c: &Case| -> Verdict {
            let Some((snap, _)) = fx.initial.get(c.state as usize) else { vkit::machinery!("bad state index") };
            let dir = vkit::scratch::Dir::new("c17r");
            materialize(snap, dir.path());
            let packed_path = dir.join("packed-refs");
            // an old mtime for the initial file, so that "newer" below never depends on the clock tick
            if let Ok(f) = std::fs::OpenOptions::new().write(true).open(&packed_path) {
                let _ = f.set_modified(SystemTime::now() - Duration::from_secs(10));
            }
            let store = fx.store(dir.path());
            let mut calls = 0u64;
            let w = match use_store(fx, &store, &c.warm, gix_lock::acquire::Fail::Immediately, &mut calls) {
                Ok(w) => w,
                Err(m) => return bad("slow", format!("first use: {m}")),
            };
            let had_packed = packed_path.is_file();
            let mut holder = None;
            let o = match &c.other {
                Other::Nothing => "nothing",
                Other::Touch => "touch",
                Other::GitPackRefs => {
                    std::fs::create_dir_all(dir.join("refs")).ok();
                    if git_try(dir.path(), &fx.objects_dir, &["pack-refs", "--all"]).ok {
                        "git-pack-refs"
                    } else {
                        "git-refused"
                    }
                }
                Other::GitDelete(n) => {
                    std::fs::create_dir_all(dir.join("refs")).ok();
                    if git_try(dir.path(), &fx.objects_dir, &["update-ref", "--no-deref", "-d", NAMES[*n as usize]]).ok {
                        "git-delete"
                    } else {
                        "git-refused"
                    }
                }
                Other::GitUpdate(n, id) => {
                    std::fs::create_dir_all(dir.join("refs")).ok();
                    if git_try(dir.path(), &fx.objects_dir, &["update-ref", "--no-deref", NAMES[*n as usize], &fx.id(*id).to_string()]).ok {
                        "git-update"
                    } else {
                        "git-refused"
                    }
                }
                Other::Store2(tx) => {
                    let second = fx.store(dir.path());
                    match fx.run_tx(&second, tx, gix_lock::acquire::Fail::Immediately) {
                        TxOutcome::Committed => "store2-committed",
                        _ => "store2-refused",
                    }
                }
                Other::ReleaseDuringBackoff => {
                    let lock = match gix_lock::File::acquire_to_update_resource(&packed_path, gix_lock::acquire::Fail::Immediately, None) {
                        Ok(l) => l,
                        Err(e) => vkit::machinery!("other party cannot take packed-refs.lock: {e}"),
                    };
                    let mut content = std::fs::read(&packed_path).unwrap_or_else(|_| b"# pack-refs with: peeled fully-peeled sorted \n".to_vec());
                    content.extend_from_slice(format!("{} refs/tags/zz-other\n", fx.id(0)).as_bytes());
                    holder = Some(std::thread::spawn(move || -> Result<(), String> {
                        let mut lock = lock;
                        std::thread::sleep(Duration::from_millis(15));
                        lock.with_mut(|f| {
                            use std::io::Write;
                            f.write_all(&content)?;
                            f.set_modified(SystemTime::now() + Duration::from_secs(2))
                        })
                        .map_err(|e| e.to_string())?;
                        lock.commit().map(|_| ()).map_err(|e| e.error.to_string())
                    }));
                    "lock-holder-commits"
                }
            };
            if holder.is_none() && c.other != Other::Nothing {
                set_newer(&packed_path);
            }
            let has_packed = packed_path.is_file() || holder.is_some();
            let mode = if c.backoff {
                gix_lock::acquire::Fail::AfterDurationWithBackoff(Duration::from_millis(if holder.is_some() { 300 } else { 30 }))
            } else {
                gix_lock::acquire::Fail::Immediately
            };
            let t = use_store(fx, &store, &c.then, mode, &mut calls);
            if let Some(h) = holder {
                match h.join() {
                    Ok(Ok(())) => {}
                    Ok(Err(e)) => vkit::machinery!("lock holder could not commit: {e}"),
                    Err(_) => vkit::machinery!("lock holder panicked"),
                }
                released_during_backoff.fetch_add(1, Ordering::Relaxed);
            }
            run.mc_state(vkit::hash_of(&(c.state, &c.warm, &c.other)));
            run.mc_transitions(calls);
            run.mc_validated(1);
            let t = match t {
                Ok(t) => t,
                Err(m) => return bad("slow", format!("second use: {m}")),
            };
            let post = snapshot(dir.path());
            let locks = lock_files(&post);
            if !locks.is_empty() {
                return bad("lock-left-behind", format!("{locks:?} after {w} / {o} / {t}"));
            }
            // the long-lived store must not be stale now (it was asked after the file became newer)
            let mine = fx.observe_gix(&store);
            let fresh = fx.observe_gix(&fx.store(dir.path()));
            if mine != fresh {
                return bad("reused-store-stale-view", format!("after {w} / {o} / {t}: long-lived store shows {mine:?}, a fresh store {fresh:?}"));
            }
            if had_packed && has_packed {
                reload_candidates.fetch_add(1, Ordering::Relaxed);
                if o.starts_with("git-pack") || o == "git-delete" {
                    after_git_rewrite.fetch_add(1, Ordering::Relaxed);
                }
                if o == "store2-committed" {
                    after_store2_rewrite.fetch_add(1, Ordering::Relaxed);
                }
            }
            let class = format!("reused/{o}/{}{t}", if c.backoff { "backoff/" } else { "" });
            if c.other == Other::Nothing {
                ok_trivial(class)
            } else {
                ok(class)
            }
        },
    );
    if !run.is_replay() {
        run.cov("reused_store_cases_with_cached_and_newer_packed_refs", reload_candidates.load(Ordering::Relaxed));
        run.cov("reused_store_after_git_rewrote_packed_refs", after_git_rewrite.load(Ordering::Relaxed));
        run.cov("reused_store_after_second_store_committed", after_store2_rewrite.load(Ordering::Relaxed));
        run.cov("reused_store_lock_holder_released_during_backoff", released_during_backoff.load(Ordering::Relaxed));
        run.require("reused store: packed-refs was cached and then newer on disk", reload_candidates.load(Ordering::Relaxed) > 0);
        run.require("reused store: git rewrote packed-refs behind a store that had it cached", after_git_rewrite.load(Ordering::Relaxed) > 0);
        run.require("reused store: a second store rewrote packed-refs behind a store that had it cached", after_store2_rewrite.load(Ordering::Relaxed) > 0);
        run.require("reused store: a lock holder released during back-off", released_during_backoff.load(Ordering::Relaxed) > 0);
    }
}
