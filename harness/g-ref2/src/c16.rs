//! C16 — reference transactions implement compare-and-swap (E2: explicit-state BFS with dedup).
//!
//! State = snapshot of the git directory (refs, packed-refs, HEAD, logs), deduplicated by its canonical form.
//! From every state of the frontier every transaction of the alphabet (and every environment operation performed by git)
//! is executed on a fresh copy with a fresh `file::Store`; the result is compared with a name -> value reference model.
use crate::spec::*;
use serde::{Deserialize, Serialize};
use std::collections::{BTreeMap, HashSet};
use std::sync::atomic::{AtomicU64, AtomicUsize, Ordering};
use std::sync::Mutex;
use vkit::Run;

#[derive(Serialize, Deserialize, Hash, Clone, Debug, PartialEq, Eq, PartialOrd, Ord)]
pub enum EnvOp {
    /// `git pack-refs --all`
    PackRefsAll,
    /// `git update-ref --no-deref <name> <id>`
    UpdateRef { name: u8, id: u8 },
    /// `git update-ref --no-deref -d <name>`
    DeleteRef { name: u8 },
    /// `git symbolic-ref <name> <target>`
    SymbolicRef { name: u8, target: u8 },
}

#[derive(Serialize, Deserialize, Hash, Clone, Debug, PartialEq, Eq, PartialOrd, Ord)]
pub enum Step {
    Tx(TxSpec),
    Env(EnvOp),
}

#[derive(Serialize, Deserialize, Hash, Clone, Debug, PartialEq, Eq, PartialOrd, Ord)]
pub struct History {
    /// index of the initial store
    init: u8,
    steps: Vec<Step>,
}

struct Node {
    snap: Snap,
    map: Map,
    history: History,
    hash: u64,
}

struct StepOk {
    class: String,
    nontrivial: bool,
    /// the successor (None: documented partial commit, not explored further)
    post: Option<(Snap, Map)>,
    api_calls: u64,
    git_observed: bool,
}

fn files(s: &Snap) -> Snap {
    s.iter().filter(|(_, v)| v.is_some()).map(|(k, v)| (k.clone(), v.clone())).collect()
}

/// (has loose file, has packed record) for a universe name
fn storage(snap: &Snap, name: u8) -> (bool, bool) {
    let n = NAMES[name as usize];
    let loose = matches!(snap.get(n), Some(Some(_)));
    let packed = match snap.get("packed-refs") {
        Some(Some(b)) => {
            let needle = format!(" {n}\n");
            b.windows(needle.len()).any(|w| w == needle.as_bytes())
        }
        _ => false,
    };
    (loose, packed)
}

fn env_steps() -> Vec<Step> {
    vec![
        Step::Env(EnvOp::PackRefsAll),
        Step::Env(EnvOp::UpdateRef { name: A, id: 0 }),
        Step::Env(EnvOp::UpdateRef { name: AB, id: 1 }),
        Step::Env(EnvOp::UpdateRef { name: T, id: 2 }),
        Step::Env(EnvOp::DeleteRef { name: A }),
        Step::Env(EnvOp::SymbolicRef { name: HEAD, target: A }),
        Step::Env(EnvOp::SymbolicRef { name: T, target: A }),
    ]
}

/// Execute one step on a copy of `pre`, compare with the model. Err = violation message (`class: detail`).
/// `is_new(canonical hash)` tells whether the successor has to be shown to git (first time this state is seen).
pub static PROF: [AtomicU64; 6] = [AtomicU64::new(0), AtomicU64::new(0), AtomicU64::new(0), AtomicU64::new(0), AtomicU64::new(0), AtomicU64::new(0)];
fn prof(i: usize, t: &mut std::time::Instant) {
    PROF[i].fetch_add(t.elapsed().as_micros() as u64, Ordering::Relaxed);
    *t = std::time::Instant::now();
}

fn step(fx: &Fixture, pre: &Snap, pre_map: &Map, st: &Step, is_new: &dyn Fn(u64) -> bool) -> Result<StepOk, String> {
    let mut t = std::time::Instant::now();
    let dir = vkit::scratch::Dir::new("c16");
    materialize(pre, dir.path());
    prof(0, &mut t);
    let mut api_calls = 0;
    let mut post_of_tx: Option<Snap> = None;
    let (class, nontrivial, post_map): (String, bool, Option<Map>) = match st {
        Step::Tx(tx) => {
            // Domain: a RefLog::Only *update* whose (dereferenced) ref does not exist writes a reflog for a non-existent ref. Such an
            // orphan reflog (git never produces one) is invisible to the name->value model but obstructs sibling names as a
            // directory/file conflict (logs/refs/heads/a vs logs/refs/heads/a/b). Not executed, not expanded.
            if tx.edits.iter().any(|e| {
                let leaf = if e.deref { follow(pre_map, e.name) } else { e.name };
                e.log_only && matches!(e.chg, Chg::Update { .. }) && !pre_map.contains_key(&leaf)
            }) {
                return Ok(StepOk { class: "outside-domain:reflog-only-update-of-absent-ref".into(), nontrivial: false, post: None, api_calls: 0, git_observed: false });
            }
            let predicted = model_apply(pre_map, tx);
            let store = fx.store(dir.path());
            let outcome = fx.run_tx(&store, tx, gix_lock::acquire::Fail::Immediately);
            api_calls += if matches!(outcome, TxOutcome::PrepareErr(..)) { 1 } else { 2 };
            prof(1, &mut t);
            let post = snapshot(dir.path());
            prof(2, &mut t);
            let locks = lock_files(&post);
            if !locks.is_empty() {
                return Err(format!("lock-left-behind: {locks:?} after {outcome:?}"));
            }
            if let TxOutcome::PrepareErr(..) = &outcome {
                let (a, b) = (files(pre), files(&post));
                if a != b {
                    return Err(format!("failed-prepare-changed-store: {} after {outcome:?}", snap_diff(&a, &b)));
                }
            }
            let view_same_store = fx.observe_gix(&store).map_err(|e| format!("gix-view-error: (store that ran the transaction) {e}"))?;
            prof(3, &mut t);
            let pm = format!("p{}", tx.packed);
            let changed = |m: &Map| m != pre_map;
            let (class, nontrivial, post_map) = match (&predicted, &outcome) {
                (Predicted::Ok(m), TxOutcome::Committed) => {
                    (format!("ok:{}:{pm}", if changed(m) { "changed" } else { "noop" }), changed(m), Some(m.clone()))
                }
                (Predicted::Ok(_), TxOutcome::PrepareErr("ReferenceOutOfDate", d))
                    if tx.edits.iter().any(|e| {
                        e.deref
                            && matches!(e.chg, Chg::Delete { expected: Exp::MustExistAndMatch(_) | Exp::ExistingMustMatch(_) })
                            && matches!(pre_map.get(&e.name), Some(Val::Sym(_)))
                    }) =>
                {
                    // narrow failure shape: the value expectation of a dereferencing deletion is (also) applied to the symbolic ref itself
                    return Err(format!(
                        "delete-deref-expectation-on-symbolic-ref: a Delete with deref and a value expectation through a symbolic ref is refused although the referent satisfies it (model: success) from {:?}: {d}",
                        view_of_map(pre_map)
                    ));
                }
                (Predicted::Ok(m), other) => {
                    return Err(format!(
                        "unexpected-failure: model predicts success with {:?} from {:?}, implementation returned {other:?}",
                        view_of_map(m),
                        view_of_map(pre_map)
                    ))
                }
                (Predicted::Fail(why), TxOutcome::Committed) => {
                    return Err(format!(
                        "unexpected-success: model predicts failure ({why}) from {:?}, implementation committed; refs now {view_same_store:?}",
                        view_of_map(pre_map)
                    ))
                }
                (Predicted::Fail(why), TxOutcome::PrepareErr(k, _)) => (format!("fail:{why}:{k}:{pm}"), true, Some(pre_map.clone())),
                (Predicted::Fail(why), TxOutcome::CommitErr(k, d)) => {
                    return Err(format!("late-failure: model predicts failure ({why}) which prepare() must detect, but commit() failed with {k}: {d}"))
                }
                (Predicted::DirFile(m), TxOutcome::Committed) => (format!("dirfile:performed:{pm}"), changed(m), Some(m.clone())),
                (Predicted::DirFile(_), TxOutcome::PrepareErr(k, _)) => (format!("dirfile:refused-in-prepare:{k}:{pm}"), true, Some(pre_map.clone())),
                (Predicted::DirFile(m), TxOutcome::CommitErr(k, _)) => {
                    // documented: a failing commit may be partial. Accept the pre- or the post-map; anything else is not explored further.
                    if view_same_store == view_of_map(pre_map) {
                        (format!("dirfile:refused-in-commit:{k}:{pm}"), true, Some(pre_map.clone()))
                    } else if view_same_store == view_of_map(m) {
                        (format!("dirfile:commit-error-but-performed:{k}:{pm}"), true, Some(m.clone()))
                    } else {
                        (format!("dirfile:partial-commit:{k}:{pm}"), false, None)
                    }
                }
            };
            if let Some(m) = &post_map {
                if view_same_store != view_of_map(m)
                    && tx.packed == 2
                    && outcome == TxOutcome::Committed
                    && !view_same_store.contains_key("HEAD")
                    && tx.edits.iter().any(|e| {
                        e.name == HEAD
                            && matches!(e.chg, Chg::Update { new: Val::Id(_), .. })
                            && !e.log_only
                            && !(e.deref && matches!(pre_map.get(&HEAD), Some(Val::Sym(_))))
                    })
                {
                    // narrow failure shape: HEAD cannot live in packed-refs, yet the loose file is removed in this mode
                    return Err(format!(
                        "unpackable-ref-lost-in-remove-loose-mode: HEAD updated to an object id with DeletionsAndNonSymbolicUpdatesRemoveLooseSourceReference is gone afterwards: model expects {:?}, store shows {view_same_store:?}",
                        view_of_map(m)
                    ));
                }
                if view_same_store != view_of_map(m) {
                    return Err(format!(
                        "gix-view-mismatch: after {outcome:?} the model expects {:?} (from {:?}) but the store that ran the transaction shows {view_same_store:?}",
                        view_of_map(m),
                        view_of_map(pre_map)
                    ));
                }
            }
            post_of_tx = Some(post);
            (class, nontrivial, post_map)
        }
        Step::Env(op) => {
            let args: Vec<String> = match op {
                EnvOp::PackRefsAll => vec!["pack-refs".into(), "--all".into()],
                EnvOp::UpdateRef { name, id } => {
                    vec!["update-ref".into(), "--no-deref".into(), NAMES[*name as usize].into(), fx.id(*id).to_string()]
                }
                EnvOp::DeleteRef { name } => vec!["update-ref".into(), "--no-deref".into(), "-d".into(), NAMES[*name as usize].into()],
                EnvOp::SymbolicRef { name, target } => {
                    vec!["symbolic-ref".into(), NAMES[*name as usize].into(), NAMES[*target as usize].into()]
                }
            };
            let argv: Vec<&str> = args.iter().map(String::as_str).collect();
            ensure_refs_dir(dir.path());
            let o = git_try(dir.path(), &fx.objects_dir, &argv);
            api_calls += 1;
            let mut m = pre_map.clone();
            if o.ok {
                match op {
                    EnvOp::PackRefsAll => {}
                    EnvOp::UpdateRef { name, id } => {
                        m.insert(*name, Val::Id(*id));
                    }
                    EnvOp::DeleteRef { name } => {
                        m.remove(name);
                    }
                    EnvOp::SymbolicRef { name, target } => {
                        m.insert(*name, Val::Sym(*target));
                    }
                }
            }
            let kind = match op {
                EnvOp::PackRefsAll => "pack-refs",
                EnvOp::UpdateRef { .. } => "update-ref",
                EnvOp::DeleteRef { .. } => "delete-ref",
                EnvOp::SymbolicRef { .. } => "symbolic-ref",
            };
            (format!("git:{kind}:{}", if o.ok { "done" } else { "refused" }), o.ok, Some(m))
        }
    };
    let post = post_of_tx.unwrap_or_else(|| snapshot(dir.path()));
    let mut git_observed = false;
    if let Some(m) = &post_map {
        // a fresh store (what the next step and any other process will see)
        let fresh = fx.store(dir.path());
        let view = fx.observe_gix(&fresh).map_err(|e| format!("gix-view-error: (fresh store) {e}"))?;
        if view != view_of_map(m) {
            return Err(format!(
                "gix-view-mismatch: model expects {:?} (from {:?}) but a fresh store shows {view:?} [{class}]",
                view_of_map(m),
                view_of_map(pre_map)
            ));
        }
        if matches!(st, Step::Env(_)) {
            let locks = lock_files(&post);
            if !locks.is_empty() {
                vkit::machinery!("git left lock files behind: {locks:?}");
            }
        }
        let h = vkit::hash_of(&canonical(&post));
        if is_new(h) && m.contains_key(&HEAD) {
            // git refuses to work in a directory without HEAD; such states are observed through gitoxide only
            ensure_refs_dir(dir.path());
            let gview = fx.observe_git(dir.path(), m).map_err(|e| format!("git-view-error: {e} [{class}]"))?;
            if gview != view_of_map(m) {
                return Err(format!("git-view-mismatch: model expects {:?} but git shows {gview:?} [{class}]", view_of_map(m)));
            }
            git_observed = true;
        }
    }
    prof(4, &mut t);
    drop(dir);
    prof(5, &mut t);
    Ok(StepOk { class, nontrivial, post: post_map.map(|m| (post, m)), api_calls, git_observed })
}

/// gitoxide prunes empty directories up to (not including) the git directory, deliberately also `refs/` itself (its test-suite says:
/// "we go all in right now and also remove the refs directory. 'git' might not do that, but it's not a problem either"), while git
/// requires `refs/` to exist to recognise a repository. An absent `refs/` is therefore treated as an empty one before git is asked.
fn ensure_refs_dir(dir: &std::path::Path) {
    if let Err(e) = std::fs::create_dir_all(dir.join("refs")) {
        vkit::machinery!("cannot create refs/: {e}");
    }
}

/// Re-run a whole history from its initial store; every successor is shown to git.
fn replay(fx: &Fixture, h: &History) -> Result<String, String> {
    let Some((snap, map)) = fx.initial.get(h.init as usize) else { vkit::machinery!("bad initial store index") };
    let (mut snap, mut map) = (snap.clone(), map.clone());
    let mut last = String::from("empty history");
    for (i, st) in h.steps.iter().enumerate() {
        let r = step(fx, &snap, &map, st, &|_| true).map_err(|m| {
            let (class, rest) = m.split_once(':').unwrap_or((&m, ""));
            format!("{class}: at step {}: {rest}", i + 1)
        })?;
        last = r.class;
        match r.post {
            Some((s, m)) => {
                snap = s;
                map = m;
            }
            None => break,
        }
    }
    Ok(last)
}

pub fn run(run: &'static Run) {
    let fx = Fixture::create();
    if run.is_replay() {
        if let Some(h) = run.replay_case::<History>("bfs") {
            let a = vkit::catch(|| replay(&fx, &h)).unwrap_or_else(|p| Err(format!("panic: {p}")));
            let b = vkit::catch(|| replay(&fx, &h)).unwrap_or_else(|p| Err(format!("panic: {p}")));
            if a != b {
                run.machinery_error(format!("replay is not deterministic: {a:?} vs {b:?}"));
            }
            run.count("bfs", 1);
            match a {
                Ok(class) => println!("replay bfs: pass[{class}]"),
                Err(m) => {
                    println!("replay bfs: VIOLATION {m}");
                    run.violation("bfs", &h, m);
                }
            }
        }
        return;
    }
    let rich = !run.quick();
    let depth: usize = std::env::var("VERIF_C16_DEPTH").ok().and_then(|s| s.parse().ok()).unwrap_or(run.pick(2, 3));
    let mut steps_main: Vec<Step> = alphabet(rich).into_iter().map(Step::Tx).collect();
    let n_tx = steps_main.len();
    steps_main.extend(env_steps());
    // the last level of the thorough tier uses the plain (quick) alphabet: |states at depth 2| x |rich alphabet| does not fit the time box
    let mut steps_last: Vec<Step> = alphabet(false).into_iter().map(Step::Tx).collect();
    let n_tx_last = steps_last.len();
    steps_last.extend(env_steps());
    let plain_from: usize = if rich { 3 } else { usize::MAX };
    run.rule(format!(
        "BFS to depth {depth} with dedup over canonical directory snapshots (reflog content dropped, presence kept) from 3 initial stores \
         (empty+unborn HEAD; refs/heads/a packed+stale loose copy, refs/tags/t packed-only annotated tag; 2-hop symbolic chain HEAD->refs/tags/t->refs/heads/a); \
         alphabet per state: {n_tx} transactions = names {NAMES:?} x (Update{{new in id0,id1,tag-id,sym->refs/heads/a{}; expected in Any,MustExist,MustNotExist,\
         MustExistAndMatch/ExistingMustMatch over id0,sym->refs/heads/a}} | Delete{{expected}}) x deref x 3 PackedRefs modes + selected 2-edit transactions{} \
         + {} git operations (pack-refs --all, update-ref, update-ref -d, symbolic-ref); oracle: name->value model (split on deref, one edit per name, \
         expectation on the leaf against the pre-state, all-or-nothing) compared with try_find+iter() of the store that ran the transaction and of a fresh store \
         after every transition, and with git for-each-ref/symbolic-ref/rev-parse on every distinct state; failed prepare => no file changed, never a *.lock left; \
         non-trivial = transition that changed the map or was refused",
        if rich { ",sym->refs/tags/t" } else { "" },
        if rich { " + RefLog::Only variants of all one-edit transactions with expected Any/MustExistAndMatch(id0)" } else { " + 12 RefLog::Only probes (MustExist on refs/tags/t, MustExistAndMatch(id0) on refs/heads/a and through HEAD)" },
        steps_main.len() - n_tx,
    ));
    if rich && depth >= plain_from {
        run.rule(format!("from depth {plain_from} on, the alphabet per state is the plain one ({n_tx_last} transactions: without sym->refs/tags/t, with 12 RefLog::Only probes only, without the swapped 2-edit transactions)"));
    }
    run.assume("directory/file pair refs/heads/a vs refs/heads/a/b: either refusal (nothing changes) or the plain map result is accepted (loose storage cannot hold both, packed storage can); a failing commit() there may be partial as documented");
    run.assume("an absent refs/ directory is equivalent to an empty one (gitoxide deliberately prunes it, git needs it): it is re-created before git is asked");
    run.assume("RefLog::Only updates of a ref that does not exist are outside the domain (they leave an orphan reflog that the name->value model cannot see and that obstructs sibling names like a directory/file conflict)");
    run.assume("states without HEAD are observed through gitoxide only (git does not recognise the directory); git 2.39 is the second observer everywhere else");
    run.assume("Delete with PreviousValue::MustNotExist is outside the domain (documented as invalid); lock mode Immediately; the BFS part has no concurrent party (two concurrent transactions: sub-check concurrent-transactions; locks held by others: C17)");
    run.budget_secs(std::env::var("VERIF_C16_BUDGET").ok().and_then(|s| s.parse().ok()).unwrap_or(run.pick(55.0, 540.0)));
    // E3 part first (seconds): two concurrent transactions under the controlled scheduler
    crate::c16c::concurrent(run);
    // the BFS gets a time box of its own (the concurrent part above has used an unknown share of the first one)
    if std::env::var("VERIF_C16_BUDGET").is_err() {
        run.budget_secs(run.pick(30.0, 400.0));
    }

    let seen: Mutex<HashSet<u64>> = Mutex::new(HashSet::new());
    let mut frontier: Vec<Node> = Vec::new();
    for (i, (snap, map)) in fx.initial.iter().enumerate() {
        let hash = vkit::hash_of(&canonical(snap));
        seen.lock().unwrap().insert(hash);
        run.mc_state(hash);
        // initial stores are shown to both observers as well
        let d = vkit::scratch::Dir::new("c16-init");
        materialize(snap, d.path());
        let v = fx.observe_gix(&fx.store(d.path())).unwrap_or_else(|e| vkit::machinery!("initial store {i}: {e}"));
        let g = fx.observe_git(d.path(), map).unwrap_or_else(|e| vkit::machinery!("initial store {i}: {e}"));
        if v != view_of_map(map) || g != view_of_map(map) {
            vkit::machinery!("initial store {i} is not what the model assumes: gix {v:?} git {g:?} model {:?}", view_of_map(map));
        }
        frontier.push(Node { snap: snap.clone(), map: map.clone(), history: History { init: i as u8, steps: vec![] }, hash });
    }

    let classes: Mutex<BTreeMap<String, (u64, History)>> = Mutex::new(BTreeMap::new());
    let git_states = AtomicU64::new(0);
    let stale_packed_states = AtomicU64::new(0);
    let packed_only_match_ok = AtomicU64::new(0);
    let packed_only_match_fail = AtomicU64::new(0);
    let two_hop_split_ok = AtomicU64::new(0);
    let mut max_depth_done = 0;
    let mut capped = false;

    for d in 1..=depth {
        let steps: &Vec<Step> = if d >= plain_from { &steps_last } else { &steps_main };
        let total = frontier.len() * steps.len();
        let next_idx = AtomicUsize::new(0);
        let new_nodes: Mutex<Vec<Node>> = Mutex::new(Vec::new());
        let stop = std::sync::atomic::AtomicBool::new(false);
        std::thread::scope(|s| {
            for _ in 0..run.threads {
                s.spawn(|| {
                    let mut local_classes: BTreeMap<String, (u64, History)> = BTreeMap::new();
                    let (mut evals, mut calls, mut validated) = (0u64, 0u64, 0u64);
                    loop {
                        let i = next_idx.fetch_add(1, Ordering::Relaxed);
                        if i >= total || stop.load(Ordering::Relaxed) {
                            break;
                        }
                        if i % 512 == 0 && run.over_budget() {
                            stop.store(true, Ordering::Relaxed);
                            break;
                        }
                        let node = &frontier[i / steps.len()];
                        let st = &steps[i % steps.len()];
                        if matches!(st, Step::Env(_)) && !node.map.contains_key(&HEAD) {
                            continue; // git cannot operate without HEAD
                        }
                        let mut history = node.history.clone();
                        history.steps.push(st.clone());
                        evals += 1;
                        let fresh = std::cell::Cell::new(false);
                        let is_new = |h: u64| {
                            let n = seen.lock().unwrap().insert(h);
                            fresh.set(n);
                            n
                        };
                        let r = vkit::catch(|| step(&fx, &node.snap, &node.map, st, &is_new));
                        match r {
                            Err(p) => run.violation("bfs", &history, format!("panic: {p}")),
                            Ok(Err(m)) => run.violation("bfs", &history, m),
                            Ok(Ok(ok)) => {
                                calls += ok.api_calls;
                                validated += 1;
                                if ok.nontrivial {
                                    run.nontrivial("bfs", vkit::hash_of(&(node.hash, st)));
                                }
                                if ok.git_observed {
                                    git_states.fetch_add(1, Ordering::Relaxed);
                                }
                                // vacuity counters
                                if let Step::Tx(tx) = st {
                                    if tx.edits.len() == 1 {
                                        let e = &tx.edits[0];
                                        let leaf = if e.deref { follow(&node.map, e.name) } else { e.name };
                                        let (loose, packed) = storage(&node.snap, leaf);
                                        let matching = matches!(
                                            e.chg,
                                            Chg::Update { expected: Exp::MustExistAndMatch(_) | Exp::ExistingMustMatch(_), .. }
                                                | Chg::Delete { expected: Exp::MustExistAndMatch(_) | Exp::ExistingMustMatch(_) }
                                        );
                                        if packed && !loose && matching {
                                            if ok.class.starts_with("ok:") {
                                                packed_only_match_ok.fetch_add(1, Ordering::Relaxed);
                                            } else if ok.class.starts_with("fail:expectation") {
                                                packed_only_match_fail.fetch_add(1, Ordering::Relaxed);
                                            }
                                        }
                                        if e.deref && ok.class.starts_with("ok:changed") && hops(&node.map, e.name) >= 2 {
                                            two_hop_split_ok.fetch_add(1, Ordering::Relaxed);
                                        }
                                    }
                                }
                                let ent = local_classes.entry(ok.class.clone()).or_insert((0, history.clone()));
                                ent.0 += 1;
                                if let Some((snap, map)) = ok.post {
                                    let hash = vkit::hash_of(&canonical(&snap));
                                    // `seen` was updated inside step(); the thread that inserted the hash owns the node
                                    if fresh.get() {
                                        for n in [A, AB, T] {
                                            if storage(&snap, n) == (true, true) {
                                                stale_packed_states.fetch_add(1, Ordering::Relaxed);
                                                break;
                                            }
                                        }
                                        new_nodes.lock().unwrap().push(Node { snap, map, history, hash });
                                    }
                                }
                            }
                        }
                    }
                    run.count("bfs", evals);
                    run.mc_transitions(calls);
                    run.mc_validated(validated);
                    let mut g = classes.lock().unwrap();
                    for (k, (n, h)) in local_classes {
                        let e = g.entry(k).or_insert((0, h.clone()));
                        e.0 += n;
                        if (h.steps.len(), &h) < (e.1.steps.len(), &e.1) {
                            e.1 = h;
                        }
                    }
                });
            }
        });
        if stop.load(Ordering::Relaxed) {
            run.cap_hit(format!("time budget reached at depth {d} ({} of {total} transitions)", next_idx.load(Ordering::Relaxed).min(total)));
            capped = true;
            break;
        }
        max_depth_done = d;
        let mut nn = new_nodes.into_inner().unwrap();
        nn.sort_by(|a, b| a.history.cmp(&b.history));
        run.mc_states_bulk(nn.iter().map(|n| n.hash));
        run.cov(&format!("new_states_at_depth_{d}"), nn.len());
        eprintln!("C16: depth {d}: {} transitions from {} states, {} new states", total, frontier.len(), nn.len());
        frontier = nn;
        if frontier.is_empty() {
            break;
        }
    }
    let classes = classes.into_inner().unwrap();
    {
        // outcome counts + one shortest history per class
        let mut shown = 0;
        for (k, (n, h)) in &classes {
            for _ in 0..*n {
                run.outcome(k);
            }
            if shown < 12 {
                run.sample(serde_json::json!({"outcome": k, "count": n, "shortest_history": h}));
                shown += 1;
            }
        }
    }
    run.cov("try_find_enotdir_answers_replaced_by_iter", ENOTDIR_LOOKUPS.load(Ordering::Relaxed));
    if std::env::var("VERIF_C16_PROF").is_ok() {
        eprintln!("prof us: materialize {} tx {} snapshot {} observe {} rest(post-snap, fresh observe, git) {} rmdir {}",
            PROF[0].load(Ordering::Relaxed), PROF[1].load(Ordering::Relaxed), PROF[2].load(Ordering::Relaxed), PROF[3].load(Ordering::Relaxed), PROF[4].load(Ordering::Relaxed), PROF[5].load(Ordering::Relaxed));
    }
    run.cov("max_depth", max_depth_done);
    run.cov("unexpanded_frontier_states", frontier.len());
    run.cov("states_shown_to_git", git_states.load(Ordering::Relaxed));
    run.cov("states_with_loose_and_packed_copy", stale_packed_states.load(Ordering::Relaxed));
    run.cov("value_expectation_on_packed_only_ref_ok", packed_only_match_ok.load(Ordering::Relaxed));
    run.cov("value_expectation_on_packed_only_ref_refused", packed_only_match_fail.load(Ordering::Relaxed));
    run.cov("two_hop_split_performed", two_hop_split_ok.load(Ordering::Relaxed));
    if !capped {
        run.require("a state with both a loose and a packed copy of a ref was reached", stale_packed_states.load(Ordering::Relaxed) > 0);
        run.require("a value expectation held on a packed-only ref", packed_only_match_ok.load(Ordering::Relaxed) > 0);
        run.require("a value expectation was refused on a packed-only ref", packed_only_match_fail.load(Ordering::Relaxed) > 0);
        run.require("an edit was split through a two-hop symbolic chain", two_hop_split_ok.load(Ordering::Relaxed) > 0);
        run.require("git observed states", git_states.load(Ordering::Relaxed) > 0);
        run.require("several outcome classes", classes.len() >= 8);
    }
}

fn follow(map: &Map, mut n: u8) -> u8 {
    for _ in 0..6 {
        match map.get(&n) {
            Some(Val::Sym(t)) => n = *t,
            _ => break,
        }
    }
    n
}
fn hops(map: &Map, mut n: u8) -> usize {
    let mut k = 0;
    for _ in 0..6 {
        match map.get(&n) {
            Some(Val::Sym(t)) => {
                n = *t;
                k += 1;
            }
            _ => break,
        }
    }
    k
}
