mod c16;
mod c16c;
mod c17;
mod c17r;
mod spec;
use vkit::{Check, Level};
fn main() {
    vkit::main(&[
        Check { id: "C16", level: Level::ModelChecking, run: c16::run },
        Check { id: "C17", level: Level::ModelChecking, run: c17::run },
    ]);
}
