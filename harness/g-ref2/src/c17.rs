//! C17 — reference transactions terminate under lock contention (E2+E5 under watchdog).
//!
//! Every transaction of the C16 alphabet is prepared (and committed when preparation succeeds) on each of three initial stores
//! while every subset of the involved `<ref>.lock` / `packed-refs.lock` files is held by "another party" (pre-created), with
//! `Fail::Immediately` and with `Fail::AfterDurationWithBackoff(30ms)`. The call must return within the deadline.
use crate::spec::*;
use serde::{Deserialize, Serialize};
use std::sync::atomic::{AtomicU64, Ordering};
use std::time::{Duration, Instant};
use vkit::{bad, ok, ok_trivial, Run, Verdict};

const DEADLINE_S: f64 = 20.0; // generous: a loaded machine may deschedule us for seconds; a real hang never returns
const BACKOFF_MS: u64 = 30;

#[derive(Serialize, Deserialize, Hash, Clone, Debug)]
struct Case {
    /// index of the initial store (0 empty, 1 packed+loose, 2 two-hop symbolic chain)
    state: u8,
    tx: TxSpec,
    /// held lock files: index into NAMES (`<name>.lock`), 4 = packed-refs.lock
    locks: Vec<u8>,
    backoff: bool,
}

/// lock files the transaction can possibly want: the edited names, everything reachable through symbolic refs, packed-refs
fn involved(map: &Map, tx: &TxSpec) -> Vec<u8> {
    let mut v = vec![];
    for e in &tx.edits {
        let mut cur = e.name;
        for _ in 0..6 {
            if !v.contains(&cur) {
                v.push(cur);
            }
            match map.get(&cur) {
                Some(Val::Sym(n)) => cur = *n,
                _ => break,
            }
        }
    }
    v.push(LOCK_PACKED);
    v.sort();
    v
}

pub fn run(run: &'static Run) {
    let fx = Fixture::create();
    let rich = !run.quick();
    let alphabet = alphabet(rich);
    run.rule(format!(
        "alphabet: {} transactions = names {NAMES:?} x (Update{{new in id0,id1,tag-id,sym->refs/heads/a{}; expected in Any,MustExist,MustNotExist,\
         MustExistAndMatch/ExistingMustMatch over id0,sym->refs/heads/a}} | Delete{{expected}}) x deref x 3 PackedRefs modes, + selected 2-edit \
         transactions{}; x 3 initial stores (empty+unborn HEAD; packed+stale loose+packed-only annotated tag; 2-hop symbolic chain HEAD->refs/tags/t->refs/heads/a) \
         x held-lock subsets ({}) x mode {{Immediately, AfterDurationWithBackoff({BACKOFF_MS}ms)}}{}; oracle: prepare(+commit) returns within {DEADLINE_S}s \
         (watchdog), additionally held locks stay untouched, no own lock is left, and a failed prepare changes no file; \
         non-trivial = at least one lock held",
        alphabet.len(),
        if rich { ",sym->refs/tags/t" } else { "" },
        if rich { " + RefLog::Only variants of all one-edit transactions with expected Any/MustExistAndMatch(id0)" } else { " + 12 RefLog::Only probes (MustExist on refs/tags/t, MustExistAndMatch(id0) on refs/heads/a and through HEAD)" },
        if rich {
            "Immediately: all 32 subsets of the 5 lock files; backoff: all subsets of the involved ones"
        } else {
            "all subsets of the involved lock files = edited names + their symbolic referents + packed-refs"
        },
        if rich { "" } else { " (backoff only for transactions whose expectations are all Any)" },
    ));
    run.assume("lock holders never release during the call (worst case for termination); single process, tmpfs scratch directory");
    run.budget_secs(run.pick(50.0, 560.0));
    crate::c17r::reused(run, &fx);

    let split_lock_failures = AtomicU64::new(0);
    let deep_split_lock_failures = AtomicU64::new(0);
    let packed_lock_failures = AtomicU64::new(0);
    let committed_under_contention = AtomicU64::new(0);

    let fxr = &fx;
    run.sub_with(
        "contention",
        vkit::Opts::default().chunk(run.pick(512, 2048)).watchdog(DEADLINE_S + 10.0).isolate(),
        |emit| {
            for tx in &alphabet {
                for state in 0..fxr.initial.len() as u8 {
                    let inv = involved(&fxr.initial[state as usize].1, tx);
                    let all: Vec<u8> = (0..=LOCK_PACKED).collect();
                    for backoff in [false, true] {
                        if backoff && !rich {
                            let all_any = tx.edits.iter().all(|e| match e.chg {
                                Chg::Update { expected, .. } | Chg::Delete { expected } => expected == Exp::Any,
                            });
                            if !all_any {
                                continue;
                            }
                        }
                        let universe = if rich && !backoff { &all } else { &inv };
                        vkit::enumerate::subsets(universe, 0, universe.len(), |locks| {
                            if backoff && locks.is_empty() {
                                return; // identical to the Immediately case without contention
                            }
                            emit(Case { state, tx: tx.clone(), locks: locks.to_vec(), backoff });
                        });
                    }
                }
            }
        },
        |c: &Case| -> Verdict {
            let Some((snap, map)) = fxr.initial.get(c.state as usize) else { vkit::machinery!("bad state index") };
            let dir = vkit::scratch::Dir::new("c17");
            materialize(snap, dir.path());
            for l in &c.locks {
                let p = dir.join(lock_rel_path(*l));
                if std::fs::create_dir_all(p.parent().unwrap()).is_err() {
                    // e.g. refs/heads/a/b.lock while refs/heads/a is a file
                    return ok_trivial("lock-not-creatable");
                }
                if let Err(e) = std::fs::write(&p, b"held by another party") {
                    vkit::machinery!("cannot create lock {}: {e}", p.display());
                }
            }
            let pre = snapshot(dir.path());
            let mode = if c.backoff {
                gix_lock::acquire::Fail::AfterDurationWithBackoff(Duration::from_millis(BACKOFF_MS))
            } else {
                gix_lock::acquire::Fail::Immediately
            };
            let start = Instant::now();
            let outcome = {
                let store = fxr.store(dir.path());
                fxr.run_tx(&store, &c.tx, mode)
            };
            let elapsed = start.elapsed().as_secs_f64();
            run.mc_state(vkit::hash_of(&(c.state, &c.locks)));
            run.mc_transitions(if matches!(outcome, TxOutcome::PrepareErr(..)) { 1 } else { 2 });
            run.mc_validated(1);
            if elapsed >= DEADLINE_S {
                return bad("slow", format!("returned only after {elapsed:.2}s: {outcome:?}"));
            }
            let post = snapshot(dir.path());
            for l in &c.locks {
                let k = lock_rel_path(*l);
                if post.get(&k) != pre.get(&k) {
                    return bad("foreign-lock-touched", format!("{k} was held by another party and is now {:?}; outcome {outcome:?}", post.get(&k)));
                }
            }
            let own: Vec<String> = lock_files(&post).into_iter().filter(|k| !pre.contains_key(k)).collect();
            if !own.is_empty() {
                return bad("lock-left-behind", format!("{own:?} after {outcome:?}"));
            }
            if let TxOutcome::PrepareErr(..) = &outcome {
                let files = |s: &Snap| -> Snap { s.iter().filter(|(_, v)| v.is_some()).map(|(k, v)| (k.clone(), v.clone())).collect() };
                let (a, b) = (files(&pre), files(&post));
                if a != b {
                    return bad("failed-prepare-changed-store", format!("{} after {outcome:?}", snap_diff(&a, &b)));
                }
            }
            // classification for the evidence
            let derefs_symbolic = c.tx.edits.iter().any(|e| e.deref && matches!(map.get(&e.name), Some(Val::Sym(_))));
            let class = match &outcome {
                TxOutcome::Committed => {
                    if !c.locks.is_empty() {
                        committed_under_contention.fetch_add(1, Ordering::Relaxed);
                    }
                    "committed".to_string()
                }
                TxOutcome::PrepareErr(k, _) => {
                    if *k == "LockAcquire" && derefs_symbolic {
                        let root_held = c.tx.edits.iter().any(|e| c.locks.contains(&e.name));
                        if !root_held {
                            split_lock_failures.fetch_add(1, Ordering::Relaxed);
                            let two_hops = c.tx.edits.iter().any(|e| {
                                e.deref
                                    && matches!(map.get(&e.name), Some(Val::Sym(n)) if matches!(map.get(n), Some(Val::Sym(m)) if c.locks.contains(m) && !c.locks.contains(n)))
                            });
                            if two_hops {
                                deep_split_lock_failures.fetch_add(1, Ordering::Relaxed);
                            }
                        }
                    }
                    if *k == "PackedTransactionAcquire" {
                        packed_lock_failures.fetch_add(1, Ordering::Relaxed);
                    }
                    format!("prepare-err:{k}")
                }
                TxOutcome::CommitErr(k, _) => format!("commit-err:{k}"),
            };
            let class = format!("{}/{}{}", if c.backoff { "backoff" } else { "immediately" }, class, if derefs_symbolic { "/split" } else { "" });
            if c.locks.is_empty() {
                ok_trivial(class)
            } else {
                ok(class)
            }
        },
    );
    run.cov("lock_failures_on_split_leaf", split_lock_failures.load(Ordering::Relaxed));
    run.cov("lock_failures_on_leaf_two_hops_down", deep_split_lock_failures.load(Ordering::Relaxed));
    run.cov("packed_refs_lock_failures", packed_lock_failures.load(Ordering::Relaxed));
    run.cov("committed_although_some_lock_was_held", committed_under_contention.load(Ordering::Relaxed));
    run.require("a lock failed on the referent of a split (deref) edit", split_lock_failures.load(Ordering::Relaxed) > 0);
    run.require("a lock failed two hops down a symbolic chain", deep_split_lock_failures.load(Ordering::Relaxed) > 0);
    run.require("packed-refs.lock contention was reached", packed_lock_failures.load(Ordering::Relaxed) > 0);
}
