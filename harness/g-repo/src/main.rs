mod c48;
mod c49;
mod c50;
use vkit::{Check, Level};
fn main() {
    if std::env::args().nth(1).as_deref() == Some("--c50-child") {
        c50::child_main();
    }
    if std::env::args().nth(1).as_deref() == Some("--c49-debug") {
        c49::debug_main(&std::env::args().skip(2).collect::<Vec<_>>());
    }
    let checks: &[Check] = &[
        Check { id: "C48", level: Level::Exploration, run: c48::run },
        Check { id: "C49", level: Level::ModelChecking, run: c49::run },
        Check { id: "C50", level: Level::Exploration, run: c50::run },
    ];
    vkit::main(checks);
}
