//! C49 — status agrees with `git status --porcelain=v2` (E2: all short mutation sequences of a small worktree, model-checking level).
//!
//! One case = (racy configuration of the index timestamp, sequence of worktree mutations). The fixture is created from the case,
//! then after EVERY mutation the real `gix::Repository::status()` index-worktree iterator is compared with git for every
//! `showUntrackedFiles` mode (no / normal / all).
use bstr::ByteSlice;
use serde::{Deserialize, Serialize};
use std::collections::BTreeSet;
use std::io::{Seek, SeekFrom, Write};
use std::os::unix::fs::PermissionsExt;
use std::path::{Path, PathBuf};
use std::sync::OnceLock;
use std::time::{Duration, SystemTime};
use vkit::{bad, git, ok, ok_trivial, scratch, Run, Verdict};

/// mtime of every tracked file when it is added to the index (whole seconds)
const M0: u64 = 1_600_000_000;

#[derive(Serialize, Deserialize, Hash, Clone, Copy, Debug, PartialEq, Eq)]
enum Op {
    /// overwrite in place with different bytes of the same length, mtime restored to the indexed one (only racy-git logic can see it)
    SameSizeKeepMtime(u8),
    /// same, mtime moved by +1 s
    SameSizeBumpMtime(u8),
    /// append bytes (size changes), mtime restored
    GrowKeepMtime(u8),
    /// content untouched, mtime +1 s (stat differs, content equal)
    Touch(u8),
    /// toggle the executable bit
    Chmod(u8),
    /// set the permission bits of a tracked regular file (owner / group / other x-bits may disagree; git only looks at the owner's)
    SetMode(u8, u16),
    /// remove the file / symlink
    Delete(u8),
    /// replace the file by a directory holding one file
    ToDir(u8),
    /// replace the file by a symlink / the symlink by a regular file
    SwapLinkAndFile(u8),
    /// replace the tracked directory `d` (after removing d/b) by a regular file `d`
    DirToFile,
    /// point the tracked symlink to another target of the same length
    Retarget,
    /// create an untracked / ignored path (index into `NEW_PATHS`)
    Create(u8),
    /// replace the directory `nd` (holding the intent-to-add entry nd/n2) by a regular file: lstat(nd/n2) fails with ENOTDIR
    ItaParentToFile,
    /// `git init` an untracked nested repository at `sub`
    NestedRepo,
    /// remove and re-create the tracked directory `p/t` with identical content: it becomes the entry `read_dir(p)` yields in another
    /// position relative to directories created earlier (tmpfs lists newest first), content and mtime stay as indexed
    RecreateTrackedDir,
}

/// tracked paths: a (file), x (executable file), d/b (file in directory), l (symlink -> a)
/// index 4 and 5 are intent-to-add entries (`git add -N`): present in the index with the empty blob, not in HEAD
const TRACKED: &[&str] = &["a", "x", "d/b", "l", "n", "nd/n2"];
/// what every state reports for the untouched intent-to-add entries
const ITA_BASELINE: &[&str] = &["A n", "A nd/n2"];
/// `.gitignore` = "*.ign\nigd/\n"
/// `p/` has no tracked file of its own, only `p/t/f`: new sub-directories before (`a`) and after (`z`) `t` must not make `p/` collapse
const NEW_PATHS: &[&str] = &["u", "ud/f", "d/u", "e/", "i.ign", "igd/f", "ud/j.ign", "d/k.ign", "ud/deep/g", "p/a/u", "p/z/u", "p/a/", "p/z/", "p/a/i.ign"];

#[derive(Serialize, Deserialize, Hash, Clone, Debug)]
struct Case {
    /// index file mtime minus the indexed file mtime: +10 = not racy, 0 and -1 = racily clean entries
    index_age: i8,
    /// true: the index is a copy of a prepared one and `core.checkStat=minimal` (stat data = mtime seconds + size) makes it match the fresh files;
    /// false: default `core.checkStat`, the index is filled by `git reset` (one more git process)
    minimal_stat: bool,
    ops: Vec<Op>,
}

fn ops_alphabet() -> Vec<Op> {
    use Op::*;
    let mut v = vec![
        SameSizeKeepMtime(0),
        SameSizeBumpMtime(0),
        GrowKeepMtime(0),
        Touch(0),
        Chmod(0),
        Delete(0),
        ToDir(0),
        SwapLinkAndFile(0),
        SameSizeKeepMtime(1),
        Chmod(1),
        Delete(1),
        SameSizeKeepMtime(2),
        Delete(2),
        DirToFile,
        Retarget,
        SwapLinkAndFile(3),
        Delete(3),
        NestedRepo,
        RecreateTrackedDir,
        // intent-to-add entries: removed, replaced by a directory, parent replaced by a file, content and mode changed
        Delete(4),
        ToDir(4),
        SameSizeKeepMtime(4),
        GrowKeepMtime(4),
        Chmod(4),
        SwapLinkAndFile(4),
        Delete(5),
        ItaParentToFile,
    ];
    for i in 0..NEW_PATHS.len() {
        v.push(Create(i as u8));
    }
    // permission modes on the tracked 100644 file `a` (0) and the tracked 100755 file `x` (1)
    for i in [0u8, 1] {
        for mode in MODES {
            v.push(SetMode(i, *mode));
        }
    }
    v
}

/// owner, group and other x-bits in all interesting disagreements
const MODES: &[u16] = &[0o644, 0o755, 0o654, 0o645, 0o655, 0o744, 0o700, 0o600];

/// the operations that are combined into pairs in the thorough tier: everything, but only four of the sixteen SetMode operations
fn thorough_pair_ops() -> Vec<Op> {
    ops_alphabet().into_iter().filter(|o| !matches!(o, Op::SetMode(..)) || matches!(o, Op::SetMode(0, 0o654) | Op::SetMode(0, 0o755) | Op::SetMode(1, 0o655) | Op::SetMode(1, 0o644))).collect()
}

struct Template {
    git_dir: PathBuf,
    /// the index written by `git add`, whose entries carry mtime = M0 and the right sizes
    index: Vec<u8>,
}
static TEMPLATE: OnceLock<Template> = OnceLock::new();

fn mach<T, E: std::fmt::Display>(r: Result<T, E>, what: &str) -> T {
    r.unwrap_or_else(|e| vkit::machinery!("{what}: {e}"))
}

fn set_mtime(p: &Path, secs: u64) {
    let f = mach(std::fs::OpenOptions::new().write(true).open(p), "open for mtime");
    mach(f.set_modified(SystemTime::UNIX_EPOCH + Duration::from_secs(secs)), "set mtime");
}

fn write_tracked(root: &Path) {
    mach(std::fs::create_dir_all(root.join("d")), "mkdir d");
    mach(std::fs::write(root.join("a"), b"aaaa\n"), "write a");
    mach(std::fs::write(root.join("x"), b"xxxx\n"), "write x");
    mach(std::fs::set_permissions(root.join("x"), std::fs::Permissions::from_mode(0o755)), "chmod x");
    mach(std::fs::write(root.join("d/b"), b"bbbb\n"), "write d/b");
    mach(std::fs::create_dir_all(root.join("p/t")), "mkdir p/t");
    mach(std::fs::write(root.join("p/t/f"), b"ffff\n"), "write p/t/f");
    mach(std::fs::create_dir_all(root.join("nd")), "mkdir nd");
    mach(std::fs::write(root.join("n"), b"nnnn\n"), "write n");
    mach(std::fs::write(root.join("nd/n2"), b"n2n2\n"), "write nd/n2");
    mach(std::os::unix::fs::symlink("a", root.join("l")), "symlink l");
    mach(std::fs::write(root.join(".gitignore"), b"*.ign\nigd/\n"), "write .gitignore");
    for p in ["a", "x", "d/b", "p/t/f", "n", "nd/n2", ".gitignore"] {
        set_mtime(&root.join(p), M0);
    }
}

fn template() -> &'static Template {
    TEMPLATE.get_or_init(|| {
        let dir = scratch::Dir::new("c49-tmpl").keep();
        git::init(&dir);
        git::git(&dir, &["config", "core.trustctime", "false"]);
        write_tracked(&dir);
        git::git(&dir, &["add", "-A", "--", ":!n", ":!nd"]);
        git::git(&dir, &["commit", "-q", "-m", "init"]);
        git::git(&dir, &["add", "--intent-to-add", "n", "nd/n2"]);
        let g = dir.join(".git");
        let _ = std::fs::remove_dir_all(g.join("hooks"));
        let index = mach(std::fs::read(g.join("index")), "read template index");
        let _ = std::fs::remove_file(g.join("index"));
        Template { git_dir: g, index }
    })
}

fn git_quiet(dir: &Path) -> std::process::Command {
    let mut c = git::cmd(dir);
    // never let the oracle refresh (rewrite) the index: the state under test must only change through `Op`s
    c.env("GIT_OPTIONAL_LOCKS", "0");
    c
}

fn setup(c: &Case) -> scratch::Dir {
    let t = template();
    let dir = scratch::Dir::new("c49");
    mach(scratch::copy_tree(&t.git_dir, &dir.join(".git")), "copy template");
    write_tracked(dir.path());
    let idx = dir.join(".git/index");
    if c.minimal_stat {
        // inode, ctime, uid ... of the copied files differ from the recorded ones; with checkStat=minimal only mtime seconds and size count
        mach(std::fs::write(&idx, &t.index), "write index");
        let cfg = dir.join(".git/config");
        let mut text = mach(std::fs::read_to_string(&cfg), "read config");
        text.push_str("[core]\n\tcheckStat = minimal\n");
        mach(std::fs::write(&cfg, text), "write config");
    } else {
        // populate the index from HEAD with the stat data of the files just written
        git::git(dir.path(), &["reset", "-q"]);
        git::git(dir.path(), &["add", "--intent-to-add", "n", "nd/n2"]);
    }
    set_mtime(&idx, (M0 as i64 + c.index_age as i64) as u64);
    dir
}

fn apply(root: &Path, op: Op) -> Result<(), &'static str> {
    use Op::*;
    let tracked = |i: u8| root.join(TRACKED[i as usize]);
    let is_file = |p: &Path| std::fs::symlink_metadata(p).map(|m| m.file_type().is_file()).unwrap_or(false);
    let is_link = |p: &Path| std::fs::symlink_metadata(p).map(|m| m.file_type().is_symlink()).unwrap_or(false);
    match op {
        SameSizeKeepMtime(i) | SameSizeBumpMtime(i) | GrowKeepMtime(i) | Touch(i) => {
            let p = tracked(i);
            if !is_file(&p) {
                return Err("not a regular file any more");
            }
            let md = mach(std::fs::metadata(&p), "stat");
            let old_mtime = md.modified().ok().and_then(|t| t.duration_since(SystemTime::UNIX_EPOCH).ok()).map(|d| d.as_secs()).unwrap_or(M0);
            let mut f = mach(std::fs::OpenOptions::new().read(true).write(true).open(&p), "open");
            match op {
                SameSizeKeepMtime(_) | SameSizeBumpMtime(_) => {
                    let mut data = mach(std::fs::read(&p), "read");
                    if data.is_empty() {
                        return Err("empty file");
                    }
                    data[0] = if data[0] == b'Z' { b'Y' } else { b'Z' };
                    mach(f.seek(SeekFrom::Start(0)), "seek");
                    mach(f.write_all(&data), "write");
                }
                GrowKeepMtime(_) => {
                    mach(f.seek(SeekFrom::End(0)), "seek");
                    mach(f.write_all(b"more\n"), "write");
                }
                _ => {}
            }
            drop(f);
            let new = match op {
                SameSizeBumpMtime(_) | Touch(_) => old_mtime + 1,
                _ => old_mtime,
            };
            set_mtime(&p, new);
        }
        SetMode(i, mode) => {
            let p = tracked(i);
            if !is_file(&p) {
                return Err("not a regular file any more");
            }
            mach(std::fs::set_permissions(&p, std::fs::Permissions::from_mode(u32::from(mode))), "chmod");
        }
        Chmod(i) => {
            let p = tracked(i);
            if !is_file(&p) {
                return Err("not a regular file any more");
            }
            let mode = mach(std::fs::metadata(&p), "stat").permissions().mode();
            mach(std::fs::set_permissions(&p, std::fs::Permissions::from_mode(mode ^ 0o111)), "chmod");
        }
        Delete(i) => {
            let p = tracked(i);
            if !(is_file(&p) || is_link(&p)) {
                return Err("nothing to delete");
            }
            mach(std::fs::remove_file(&p), "unlink");
        }
        ToDir(i) => {
            let p = tracked(i);
            if !is_file(&p) {
                return Err("not a regular file any more");
            }
            mach(std::fs::remove_file(&p), "unlink");
            mach(std::fs::create_dir(&p), "mkdir");
            mach(std::fs::write(p.join("inner"), b"inner\n"), "write");
        }
        SwapLinkAndFile(i) => {
            let p = tracked(i);
            if is_file(&p) {
                mach(std::fs::remove_file(&p), "unlink");
                mach(std::os::unix::fs::symlink("x", &p), "symlink");
            } else if is_link(&p) {
                mach(std::fs::remove_file(&p), "unlink");
                mach(std::fs::write(&p, b"a"), "write");
            } else {
                return Err("neither file nor link");
            }
        }
        ItaParentToFile => {
            let d = root.join("nd");
            if !d.is_dir() {
                return Err("nd is no directory any more");
            }
            mach(std::fs::remove_dir_all(&d), "rm -r nd");
            mach(std::fs::write(&d, b"now a file\n"), "write nd");
        }
        DirToFile => {
            let d = root.join("d");
            if !d.is_dir() {
                return Err("d is no directory any more");
            }
            mach(std::fs::remove_dir_all(&d), "rm -r d");
            mach(std::fs::write(&d, b"now a file\n"), "write d");
        }
        Retarget => {
            let p = root.join("l");
            if !is_link(&p) {
                return Err("l is no symlink any more");
            }
            mach(std::fs::remove_file(&p), "unlink");
            mach(std::os::unix::fs::symlink("x", &p), "symlink");
        }
        Create(i) => {
            let rel = NEW_PATHS[i as usize];
            let p = root.join(rel);
            if std::fs::symlink_metadata(root.join(rel.trim_end_matches('/'))).is_ok() {
                return Err("exists already");
            }
            // every ancestor must be a directory (or creatable)
            let mut anc = p.parent();
            while let Some(a) = anc {
                if a == root {
                    break;
                }
                if let Ok(m) = std::fs::symlink_metadata(a) {
                    if !m.is_dir() {
                        return Err("an ancestor is not a directory");
                    }
                }
                anc = a.parent();
            }
            if rel.ends_with('/') {
                mach(std::fs::create_dir_all(&p), "mkdir");
            } else {
                mach(std::fs::create_dir_all(p.parent().unwrap()), "mkdir");
                mach(std::fs::write(&p, b"new\n"), "write");
            }
        }
        RecreateTrackedDir => {
            let t = root.join("p/t");
            if !t.join("f").is_file() {
                return Err("p/t/f is gone");
            }
            mach(std::fs::remove_dir_all(&t), "rm -r p/t");
            mach(std::fs::create_dir(&t), "mkdir p/t");
            mach(std::fs::write(t.join("f"), b"ffff\n"), "write p/t/f");
            set_mtime(&t.join("f"), M0);
        }
        NestedRepo => {
            let p = root.join("sub");
            if p.exists() {
                return Err("exists already");
            }
            mach(scratch::copy_tree(&template().git_dir, &p.join(".git")), "copy nested repo");
            mach(std::fs::write(p.join("inner"), b"inner\n"), "write");
        }
    }
    Ok(())
}

#[derive(Clone, Copy, Debug, PartialEq, Eq)]
enum Mode {
    No,
    Normal,
    All,
}

/// `git status --porcelain=v2 -z` reduced to the index-to-worktree part: "<Y> <path>" for tracked, "? <path>", "! <path>".
fn git_status(dir: &Path, mode: Mode) -> BTreeSet<String> {
    let mut c = git_quiet(dir);
    c.args(["status", "--porcelain=v2", "-z", "--no-renames"]);
    match mode {
        Mode::No => c.arg("--untracked-files=no"),
        Mode::Normal => c.args(["--untracked-files=normal", "--ignored=traditional"]),
        Mode::All => c.args(["--untracked-files=all", "--ignored=matching"]),
    };
    let o = git::run_cmd(c, None);
    if !o.ok {
        vkit::machinery!("git status failed: {}", o.err_text());
    }
    let mut out = BTreeSet::new();
    for rec in o.stdout.split(|b| *b == 0).filter(|r| !r.is_empty()) {
        let rec = String::from_utf8_lossy(rec).into_owned();
        let kind = rec.as_bytes()[0];
        match kind {
            b'1' => {
                let f: Vec<&str> = rec.splitn(9, ' ').collect();
                if f.len() != 9 {
                    vkit::machinery!("unparsable porcelain v2 record {rec:?}");
                }
                let xy = f[1].as_bytes();
                if xy[0] != b'.' {
                    vkit::machinery!("unexpected staged change in {rec:?}");
                }
                if xy[1] != b'.' {
                    out.insert(format!("{} {}", xy[1] as char, f[8]));
                }
            }
            b'?' | b'!' => {
                out.insert(rec);
            }
            _ => vkit::machinery!("unexpected porcelain v2 record {rec:?}"),
        }
    }
    out
}

fn gix_status(dir: &Path, mode: Mode) -> Result<BTreeSet<String>, String> {
    use gix::status::index_worktree::iter::Item;
    use gix::status::plumbing::index_as_worktree::{Change, EntryStatus};
    let repo = gix::open_opts(dir, gix::open::Options::isolated()).map_err(|e| format!("open: {e}"))?;
    let untracked = match mode {
        Mode::No => gix::status::UntrackedFiles::None,
        Mode::Normal => gix::status::UntrackedFiles::Collapsed,
        Mode::All => gix::status::UntrackedFiles::Files,
    };
    let emit = match mode {
        Mode::All => gix::dir::walk::EmissionMode::Matching,
        _ => gix::dir::walk::EmissionMode::CollapseDirectory,
    };
    let iter = repo
        .status(gix::progress::Discard)
        .map_err(|e| format!("status(): {e}"))?
        .untracked_files(untracked)
        // entries inside a collapsed directory whose status differs from it (ignored file in an untracked directory) stay visible, like in git
        .dirwalk_options(|o| o.emit_ignored(Some(emit)).emit_collapsed(Some(gix::dir::walk::CollapsedEntriesEmissionMode::OnStatusMismatch)))
        .index_worktree_rewrites(None)
        .index_worktree_submodules(None)
        .index_worktree_options_mut(|o| {
            o.sorting = Some(gix::status::plumbing::index_as_worktree_with_renames::Sorting::ByPathCaseSensitive);
            // the harness already runs 16 cases in parallel; worker threads per status call only cost stack mappings
            o.thread_limit = Some(1);
        })
        .into_index_worktree_iter(Vec::new())
        .map_err(|e| format!("into_index_worktree_iter: {e}"))?;
    let mut out = BTreeSet::new();
    for item in iter {
        let item = item.map_err(|e| format!("iteration: {e}"))?;
        match item {
            Item::Modification { rela_path, status, .. } => {
                let y = match status {
                    EntryStatus::Change(Change::Removed) => 'D',
                    EntryStatus::Change(Change::Type) => 'T',
                    EntryStatus::Change(Change::Modification { .. }) => 'M',
                    EntryStatus::Change(Change::SubmoduleModification(_)) => 'm',
                    EntryStatus::NeedsUpdate(_) => continue, // stat refresh only, not a change
                    EntryStatus::IntentToAdd => 'A',
                    EntryStatus::Conflict(_) => 'U',
                };
                out.insert(format!("{y} {}", rela_path.to_str_lossy()));
            }
            Item::DirectoryContents { entry, .. } => {
                let mark = match entry.status {
                    gix::dir::entry::Status::Untracked => '?',
                    gix::dir::entry::Status::Ignored(_) => '!',
                    gix::dir::entry::Status::Pruned | gix::dir::entry::Status::Tracked => continue,
                };
                let is_dir = matches!(entry.disk_kind, Some(gix::dir::entry::Kind::Directory | gix::dir::entry::Kind::Repository));
                out.insert(format!("{mark} {}{}", entry.rela_path.to_str_lossy(), if is_dir { "/" } else { "" }));
            }
            Item::Rewrite { .. } => return Err("rewrite reported although rewrites are disabled".into()),
        }
    }
    Ok(out)
}

fn snapshot_hash(root: &Path, c: &Case) -> u64 {
    let mut snap = scratch::snapshot(root);
    snap.retain(|k, _| !k.starts_with(".git/") && k != ".git");
    let mt = |p: &str| std::fs::symlink_metadata(root.join(p)).ok().and_then(|m| m.modified().ok());
    let mtimes: Vec<_> = TRACKED.iter().map(|p| mt(p)).collect();
    vkit::hash_of(&(c.index_age, c.minimal_stat, format!("{snap:?}"), format!("{mtimes:?}")))
}

fn evaluate(run: &Run, c: &Case) -> Verdict {
    let v = evaluate_inner(run, c);
    if let (Err(m), Ok(path)) = (&v, std::env::var("VERIF_C49_DUMP")) {
        if let Ok(mut f) = std::fs::OpenOptions::new().create(true).append(true).open(path) {
            let _ = writeln!(f, "{}\t{}", serde_json::to_string(c).unwrap(), m.replace('\n', " "));
        }
    }
    v
}

fn evaluate_inner(run: &Run, c: &Case) -> Verdict {
    let dir = setup(c);
    let root = dir.path();
    // Every prefix of the sequence is a case of its own, so status is compared once, after the last mutation.
    for (step, op) in c.ops.iter().enumerate() {
        if let Err(why) = apply(root, *op) {
            // the mutation is not applicable in this state: nothing new beyond the prefix
            let _ = step;
            return ok_trivial(format!("inapplicable: {why}"));
        }
    }
    run.mc_state(snapshot_hash(root, c));
    let git_normal = git_status(root, Mode::Normal);
    let git_all = git_status(root, Mode::All);
    // `--untracked-files=no` shows exactly the tracked part of the other modes (no separate git process needed)
    let git_no: BTreeSet<String> = git_normal.iter().filter(|l| !l.starts_with('?') && !l.starts_with('!')).cloned().collect();
    if git_no != git_all.iter().filter(|l| !l.starts_with('?') && !l.starts_with('!')).cloned().collect::<BTreeSet<String>>() {
        vkit::machinery!("git reports different tracked changes for -unormal and -uall: {git_normal:?} vs {git_all:?}");
    }
    for (mode, want) in [(Mode::No, &git_no), (Mode::Normal, &git_normal), (Mode::All, &git_all)] {
        let got = match vkit::catch(|| gix_status(root, mode)) {
            Ok(Ok(g)) => g,
            Ok(Err(e)) => return bad("gix-error", format!("after {:?} mode {mode:?}: gix status failed: {e}; git: {want:?}", c.ops)),
            Err(p) => return bad("panic", format!("after {:?} mode {mode:?}: {p}", c.ops)),
        };
        run.mc_transitions(1);
        if want != &got {
            let only_git: Vec<_> = want.difference(&got).collect();
            let only_gix: Vec<_> = got.difference(want).collect();
            let kind = |v: &Vec<&String>| v.iter().map(|s| s.chars().next().unwrap_or(' ')).collect::<BTreeSet<char>>().into_iter().collect::<String>();
            let class = format!("status-differs(git={} gix={})", kind(&only_git), kind(&only_gix));
            return bad(&class, format!("after {:?}, untracked mode {mode:?}, index_age {}: only git: {only_git:?}; only gix: {only_gix:?}", c.ops, c.index_age));
        }
        run.mc_validated(1);
    }
    // the untouched intent-to-add entries are reported in every state: they do not make a state interesting
    let beyond_baseline: Vec<&String> = git_all.iter().filter(|l| !ITA_BASELINE.contains(&l.as_str())).collect();
    let kinds: BTreeSet<char> = beyond_baseline.iter().map(|s| s.chars().next().unwrap_or(' ')).collect();
    let class: String = if kinds.is_empty() { "clean".into() } else { kinds.into_iter().collect() };
    // the racy-git question: was a same-size, same-mtime edit among the mutations?
    let stealth = c.ops.iter().any(|o| matches!(o, Op::SameSizeKeepMtime(_)));
    let tag = if stealth { if c.index_age > 0 { "/stealth-edit-nonracy" } else { "/stealth-edit-racy" } } else { "" };
    if !beyond_baseline.is_empty() || stealth {
        ok(format!("agree:{class}{tag}"))
    } else {
        ok_trivial(format!("agree:{class}{tag}"))
    }
}

/// the operations whose pairs are explored in the quick tier
fn quick_pair_ops() -> Vec<Op> {
    use Op::*;
    vec![
        SameSizeKeepMtime(0), GrowKeepMtime(0), Touch(0), Chmod(0), Delete(0), ToDir(0), SwapLinkAndFile(0), SameSizeKeepMtime(2), Delete(2), DirToFile,
        SwapLinkAndFile(3), NestedRepo, Create(0), Create(1), Create(4), Create(5), Create(9), Create(11), RecreateTrackedDir,
    ]
}

/// the operations used for the longest sequences
fn core_ops() -> Vec<Op> {
    use Op::*;
    vec![SameSizeKeepMtime(0), Touch(0), Chmod(0), Delete(0), ToDir(0), SwapLinkAndFile(0), Delete(2), DirToFile, Create(0), Create(1), Create(4), Create(5)]
}

pub fn run(run: &'static Run) {
    let thorough = !run.quick();
    let alphabet = ops_alphabet();
    let core = core_ops();
    run.rule(format!(
        "worktree with tracked a (file), x (executable), d/b, p/t/f (directory p without tracked files of its own), l (symlink), intent-to-add entries n and nd/n2 (git add -N), .gitignore ('*.ign', 'igd/'); every mutation sequence of length <= 1 over {} operations {:?} (core.checkStat default and minimal), every pair of thorough_pair_ops() = all but 12 of the 16 SetMode operations (thorough) or of the 19 operations of quick_pair_ops() (quick; core.checkStat=minimal, index copied) \
         (Create(i) makes {:?}){}; index timestamp - indexed mtime in {{+10 s (not racy), 0 (racily clean){}}}; after the last mutation of every sequence (every prefix is a sequence of its own) \
         status is compared for showUntrackedFiles = no, normal (collapsed, ignored collapsed), all (every file, ignored matching). \
         Non-trivial = final status not clean or the sequence contains a same-size same-mtime edit.",
        alphabet.len(),
        alphabet,
        NEW_PATHS,
        if thorough { format!(" and every sequence of length 3 over the {} core operations {:?}", core.len(), core) } else { String::new() },
        if thorough { ", -1 (racily clean, index older than the file; for singles and for every sequence with a same-size same-mtime edit); +10 for pairs/triples only if they contain an edit/touch of a tracked file" } else { "; -1 only for sequences with a same-size same-mtime edit, +10 for pairs only if they contain an edit/touch of a tracked file" },
    ));
    run.assume("oracle: git 2.39.5 `status --porcelain=v2 -z --no-renames --untracked-files=normal --ignored=traditional` / `--untracked-files=all --ignored=matching` with GIT_OPTIONAL_LOCKS=0 (the oracle never rewrites the index); the expectation for untracked mode `no` is the tracked part of git's answer (checked to be identical in both modes)");
    run.assume("core.trustctime=false in the fixture so that outcomes do not depend on the wall clock (ctime cannot be set); all mtimes are whole seconds; git 2.39.5 is built without USE_NSEC");
    run.assume("gix side: Repository::status().untracked_files(mode).dirwalk_options(emit_ignored).index_worktree_rewrites(None).index_worktree_submodules(None).into_index_worktree_iter(); NeedsUpdate entries are stat refreshes, not changes; only the index-to-worktree half of status is compared (HEAD == index in all states)");
    run.budget_secs(std::env::var("VERIF_BUDGET").ok().and_then(|s| s.parse().ok()).unwrap_or(run.pick(120.0, 1500.0)));

    run.sub_with(
        "sequences",
        vkit::Opts::default().chunk(512),
        |emit| {
            let quick2 = quick_pair_ops();
            let mut seqs: Vec<Vec<Op>> = Vec::new();
            vkit::enumerate::seqs(&alphabet, 0, 1, |ops| seqs.push(ops.to_vec()));
            let pairs_of = if thorough { thorough_pair_ops() } else { quick2 };
            vkit::enumerate::seqs(&pairs_of, 2, 2, |ops| seqs.push(ops.to_vec()));
            for ops in &seqs {
                let stealth = ops.iter().any(|o| matches!(o, Op::SameSizeKeepMtime(_)));
                // pairs (and triples) that do not touch stat-sensitive state are only run against the racy index (every unchanged file gets a content check)
                let stat_sensitive = ops.iter().any(|o| matches!(o, Op::SameSizeKeepMtime(_) | Op::SameSizeBumpMtime(_) | Op::GrowKeepMtime(_) | Op::Touch(_)));
                for index_age in [10i8, 0, -1] {
                    if index_age == -1 && !((thorough && ops.len() <= 1) || stealth) {
                        continue;
                    }
                    if index_age == 10 && ops.len() == 2 && !stat_sensitive {
                        continue;
                    }
                    emit(Case { index_age, minimal_stat: true, ops: ops.clone() });
                    if ops.len() <= 1 {
                        // default core.checkStat (inode, uid, ... are compared as well)
                        emit(Case { index_age, minimal_stat: false, ops: ops.clone() });
                    }
                }
            }
            if thorough {
                vkit::enumerate::seqs(&core, 3, 3, |ops| {
                    let stat_sensitive = ops.iter().any(|o| matches!(o, Op::SameSizeKeepMtime(_) | Op::Touch(_)));
                    for index_age in [10i8, 0] {
                        if index_age == 10 && !stat_sensitive {
                            continue;
                        }
                        emit(Case { index_age, minimal_stat: true, ops: ops.to_vec() });
                    }
                });
            }
        },
        |c: &Case| evaluate(run, c),
    );
    require_unless_capped(run, "a racily clean edit was explored and judged equal", run.outcome_count("agree:M/stealth-edit-racy") > 0);
    require_unless_capped(run, "an undetectable (non-racy) stealth edit was explored", run.outcome_count("agree:clean/stealth-edit-nonracy") > 0);
}

/// Developer aid: `g-repo --c49-debug <index_age> <op-json>...` prints what both sides say after each step.
pub fn debug_main(args: &[String]) -> ! {
    vkit::scratch::init();
    let index_age: i8 = args[0].parse().unwrap();
    let ops: Vec<Op> = args[1..].iter().map(|a| serde_json::from_str(a).unwrap()).collect();
    let c = Case { index_age, minimal_stat: std::env::var("C49_MINIMAL").is_ok(), ops };
    let dir = setup(&c);
    for step in 0..=c.ops.len() {
        if step > 0 {
            println!("apply {:?}: {:?}", c.ops[step - 1], apply(dir.path(), c.ops[step - 1]));
        }
        for mode in [Mode::No, Mode::Normal, Mode::All] {
            println!("  {mode:?} git {:?}\n  {mode:?} gix {:?}", git_status(dir.path(), mode), gix_status(dir.path(), mode));
        }
    }
    let idx = gix::index::File::at(dir.join(".git/index"), gix::hash::Kind::Sha1, false, Default::default()).unwrap();
    println!("index timestamp {:?}", idx.timestamp());
    for e in idx.entries() {
        println!("{:?} {:?}", e.path(&idx), e.stat);
    }
    {
        let disk = gix::index::entry::Stat::from_fs(&gix::index::fs::Metadata::from_path_no_follow(&dir.join("a")).unwrap()).unwrap();
        let e = idx.entries().iter().find(|e| e.path(&idx) == "a").unwrap();
        let opts = gix::index::entry::stat::Options { trust_ctime: false, check_stat: true, use_nsec: false, use_stdev: false };
        println!("matches {} is_racy {}", disk.matches(&e.stat, opts), disk.is_racy(idx.timestamp(), opts));
        let repo = gix::open_opts(dir.path(), gix::open::Options::isolated()).unwrap();
        let mut it = repo.status(gix::progress::Discard).unwrap().into_index_worktree_iter(Vec::new()).unwrap();
        for i in it.by_ref() { println!("item {:?}", i.map(|i| i.summary())); }
        println!("outcome {:?}", it.outcome_mut().map(|o| format!("{:?}", o.index_worktree.tracked_file_modification)));
    }
    println!("a on disk: {:?}", gix::index::entry::Stat::from_fs(&gix::index::fs::Metadata::from_path_no_follow(&dir.join("a")).unwrap()));
    std::mem::forget(dir);
    std::process::exit(0)
}

/// Vacuity guards only make sense for runs that were not cut short by the time budget (then evidence says exhaustive=false).
fn require_unless_capped(run: &Run, what: &str, cond: bool) {
    if !run.over_budget() {
        run.require(what, cond);
    }
}
