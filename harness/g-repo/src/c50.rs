//! C50 — repository discovery agrees with git (E1: bounded-exhaustive directory layouts x start dirs x ceilings).
//!
//! Every case = (layout, start directory, spelling of the start directory + cwd, GIT_CEILING_DIRECTORIES value).
//! The real `gix_discover::upwards_opts()` runs in a helper child process (same binary, `--c50-child`) because
//! relative start directories need a real `chdir()` and the environment variable is process-global.
//! Oracle: `git rev-parse --absolute-git-dir --show-toplevel` run with cwd = the start directory.
use serde::{Deserialize, Serialize};
use std::collections::HashMap;
use std::io::{BufRead, BufReader, Write};
use std::path::{Path, PathBuf};
use std::process::{Child, ChildStdin, ChildStdout, Command, Stdio};
use std::sync::{Arc, Mutex, OnceLock};
use vkit::{bad, git, ok, ok_trivial, scratch, Run, Verdict};

// ------------------------------------------------------------------------------------------------ child side

#[derive(Serialize, Deserialize, Debug, Clone)]
struct Req {
    cwd: String,
    dir: String,
    ceil: Option<String>,
    cross_fs: bool,
    #[serde(default)]
    dot_git_only: bool,
}
#[derive(Serialize, Deserialize, Debug, Clone)]
enum Resp {
    Found { git_dir: String, work_dir: Option<String>, kind: String },
    Err { variant: String, text: String },
    Panic(String),
    Harness(String),
}

/// Entered from main() when the binary is started with `--c50-child`: answer one request per line.
pub fn child_main() -> ! {
    std::panic::set_hook(Box::new(|_| {}));
    let stdin = std::io::stdin();
    let mut out = std::io::stdout();
    for line in stdin.lock().lines() {
        let Ok(line) = line else { break };
        let resp = match serde_json::from_str::<Req>(&line) {
            Err(e) => Resp::Harness(format!("bad request: {e}")),
            Ok(req) => child_answer(&req),
        };
        let _ = writeln!(out, "{}", serde_json::to_string(&resp).unwrap());
        let _ = out.flush();
    }
    std::process::exit(0)
}

fn child_answer(req: &Req) -> Resp {
    if let Err(e) = std::env::set_current_dir(&req.cwd) {
        return Resp::Harness(format!("chdir {}: {e}", req.cwd));
    }
    match &req.ceil {
        Some(c) => std::env::set_var("GIT_CEILING_DIRECTORIES", c),
        None => std::env::remove_var("GIT_CEILING_DIRECTORIES"),
    }
    let dir = PathBuf::from(&req.dir);
    let cross_fs = req.cross_fs;
    let dot_git_only = req.dot_git_only;
    let r = std::panic::catch_unwind(move || {
        // the options `gix` itself uses when it honours the environment: ceilings from GIT_CEILING_DIRECTORIES,
        // non-matching ceilings are not an error (git ignores them).
        let opts = gix_discover::upwards::Options { match_ceiling_dir_or_error: false, cross_fs, dot_git_only, ..Default::default() }
            .apply_environment();
        gix_discover::upwards_opts(&dir, opts)
    });
    match r {
        Err(p) => {
            let m = p.downcast_ref::<&str>().map(|s| s.to_string()).or_else(|| p.downcast_ref::<String>().cloned()).unwrap_or_default();
            Resp::Panic(m)
        }
        Ok(Ok((path, _trust))) => {
            let kind = match &path {
                gix_discover::repository::Path::LinkedWorkTree { .. } => "linked",
                gix_discover::repository::Path::WorkTree(_) => "worktree",
                gix_discover::repository::Path::Repository(_) => "repository",
            };
            let (g, w) = path.into_repository_and_work_tree_directories();
            Resp::Found { git_dir: g.to_string_lossy().into_owned(), work_dir: w.map(|w| w.to_string_lossy().into_owned()), kind: kind.into() }
        }
        Ok(Err(e)) => {
            use gix_discover::upwards::Error::*;
            let variant = match &e {
                CurrentDir(_) => "CurrentDir",
                InvalidInput { .. } => "InvalidInput",
                InaccessibleDirectory { .. } => "InaccessibleDirectory",
                NoGitRepository { .. } => "NoGitRepository",
                NoGitRepositoryWithinCeiling { .. } => "NoGitRepositoryWithinCeiling",
                NoGitRepositoryWithinFs { .. } => "NoGitRepositoryWithinFs",
                NoMatchingCeilingDir => "NoMatchingCeilingDir",
                NoTrustedGitRepository { .. } => "NoTrustedGitRepository",
                CheckTrust { .. } => "CheckTrust",
            };
            Resp::Err { variant: variant.into(), text: e.to_string() }
        }
    }
}

// ------------------------------------------------------------------------------------------------ child pool

struct Proc {
    child: Child,
    stdin: ChildStdin,
    stdout: BufReader<ChildStdout>,
}
impl Drop for Proc {
    fn drop(&mut self) {
        let _ = self.child.kill();
        let _ = self.child.wait();
    }
}
static POOL: Mutex<Vec<Proc>> = Mutex::new(Vec::new());

fn spawn_child() -> Proc {
    let exe = std::env::current_exe().unwrap_or_else(|e| vkit::machinery!("current_exe: {e}"));
    let mut c = Command::new(exe);
    c.arg("--c50-child").stdin(Stdio::piped()).stdout(Stdio::piped()).stderr(Stdio::null());
    for (k, _) in std::env::vars_os() {
        if k.to_string_lossy().starts_with("GIT_") {
            c.env_remove(k);
        }
    }
    let mut child = c.spawn().unwrap_or_else(|e| vkit::machinery!("cannot spawn discovery child: {e}"));
    let stdin = child.stdin.take().unwrap();
    let stdout = BufReader::new(child.stdout.take().unwrap());
    Proc { child, stdin, stdout }
}

/// Ask the real gix-discover code. `Err` = the child process died while answering (abort / stack overflow).
fn ask_gix(req: &Req) -> Result<Resp, String> {
    let mut p = POOL.lock().unwrap().pop().unwrap_or_else(spawn_child);
    let line = serde_json::to_string(req).unwrap();
    if writeln!(p.stdin, "{line}").and_then(|_| p.stdin.flush()).is_err() {
        return Err("child process gone before request".into());
    }
    let mut buf = String::new();
    match p.stdout.read_line(&mut buf) {
        Ok(n) if n > 0 => {}
        _ => {
            let st = p.child.wait().map(|s| s.to_string()).unwrap_or_default();
            return Err(format!("child process died while discovering ({st})"));
        }
    }
    let resp: Resp = serde_json::from_str(&buf).unwrap_or_else(|e| vkit::machinery!("child answer unreadable: {e}: {buf}"));
    POOL.lock().unwrap().push(p);
    if let Resp::Harness(m) = &resp {
        vkit::machinery!("discovery child: {m}");
    }
    Ok(resp)
}

// ------------------------------------------------------------------------------------------------ layouts

#[derive(Serialize, Deserialize, Hash, Clone, Copy, Debug, PartialEq, Eq, PartialOrd, Ord)]
enum Kind {
    /// plain directory
    Plain,
    /// `.git` directory with index (copy of a repository with one commit)
    Repo,
    /// `.git` directory as left by `git init` (no index)
    RepoFresh,
    /// the directory itself is a bare repository (`git init --bare`)
    Bare,
    /// like `Bare`, directory name ends in `.git`
    BareDotGit,
    /// `.git` file with an absolute `gitdir:` (git init --separate-git-dir)
    GitFile,
    /// `.git` file with a relative `gitdir:`
    GitFileRel,
    /// linked worktree (`git worktree add`) of the repository `_main`
    Linked,
    /// linked worktree of the bare repository `_mainbare.git`
    LinkedOfBare,
    /// `.git` is an empty directory (not a repository)
    Decoy,
    /// `.git` directory with a HEAD but neither objects nor refs
    DecoyHead,
    /// `.git` is a file that is not a gitfile (git aborts discovery with a fatal error)
    BadGitFile,
}
use Kind::*;

fn level_name(i: usize, k: Kind) -> String {
    if k == BareDotGit {
        format!("d{}.git", i + 1)
    } else {
        format!("d{}", i + 1)
    }
}

struct Templates {
    _dir: PathBuf,
    repo: PathBuf, // worktree with .git, one commit, index present
    bare: PathBuf,
}
static TEMPLATES: OnceLock<Templates> = OnceLock::new();
fn templates() -> &'static Templates {
    TEMPLATES.get_or_init(|| {
        let dir = scratch::Dir::new("c50-tmpl").keep();
        let repo = dir.join("repo");
        git::init(&repo);
        write(&repo.join("f"), b"content\n");
        git::git(&repo, &["add", "f"]);
        git::git(&repo, &["commit", "-q", "-m", "c1"]);
        let bare = dir.join("bare");
        git::init_bare(&bare);
        for g in [repo.join(".git"), bare.clone()] {
            let _ = std::fs::remove_dir_all(g.join("hooks"));
            let _ = std::fs::remove_file(g.join("description"));
            let _ = std::fs::remove_dir_all(g.join("info"));
        }
        Templates { _dir: dir, repo, bare }
    })
}

fn write(p: &Path, data: &[u8]) {
    std::fs::write(p, data).unwrap_or_else(|e| vkit::machinery!("write {}: {e}", p.display()));
}
fn mkdir(p: &Path) {
    std::fs::create_dir_all(p).unwrap_or_else(|e| vkit::machinery!("mkdir {}: {e}", p.display()));
}
fn copy(from: &Path, to: &Path) {
    scratch::copy_tree(from, to).unwrap_or_else(|e| vkit::machinery!("copy {} -> {}: {e}", from.display(), to.display()));
}

struct Layout {
    root: PathBuf,
    /// start directories relative to root ("" = root itself)
    starts: Vec<String>,
    /// git dir (canonical) -> worktree (canonical) as git reports it from inside that worktree
    worktree_of: HashMap<String, String>,
}

fn build_layout(kinds: &[Kind]) -> Layout {
    let t = templates();
    let root = scratch::Dir::new("c50").keep();
    let starts = starts_of(kinds);
    let mut cur = root.clone();
    let mut rel = String::new();
    mkdir(&root.join("_store"));
    for (i, &k) in kinds.iter().enumerate() {
        let name = level_name(i, k);
        let p = cur.join(&name);
        let r = if rel.is_empty() { name.clone() } else { format!("{rel}/{name}") };
        match k {
            Plain => mkdir(&p),
            Repo | RepoFresh => {
                mkdir(&p);
                copy(&t.repo.join(".git"), &p.join(".git"));
                if k == RepoFresh {
                    let _ = std::fs::remove_file(p.join(".git/index"));
                }
            }
            Bare | BareDotGit => {
                copy(&t.bare, &p);
            }
            GitFile | GitFileRel => {
                mkdir(&p);
                let store = root.join("_store").join(format!("g{}", i + 1));
                git::git(&root, &["init", "-q", "--separate-git-dir", store.to_str().unwrap(), p.to_str().unwrap()]);
                if k == GitFileRel {
                    let up = "../".repeat(i + 1);
                    write(&p.join(".git"), format!("gitdir: {up}_store/g{}\n", i + 1).as_bytes());
                }
            }
            Linked | LinkedOfBare => {
                let main = if k == Linked { root.join("_main") } else { root.join("_mainbare.git") };
                if !main.exists() {
                    if k == Linked {
                        copy(&t.repo, &main);
                    } else {
                        git::git(&root, &["clone", "-q", "--bare", t.repo.to_str().unwrap(), main.to_str().unwrap()]);
                    }
                }
                git::git(&main, &["worktree", "add", "-q", "--detach", p.to_str().unwrap()]);
            }
            Decoy => {
                mkdir(&p.join(".git"));
            }
            DecoyHead => {
                mkdir(&p.join(".git"));
                write(&p.join(".git/HEAD"), b"ref: refs/heads/main\n");
            }
            BadGitFile => {
                mkdir(&p);
                write(&p.join(".git"), b"not a gitfile\n");
            }
        }
        // symlink to this level, used by the symlinked-ceiling spelling
        let _ = std::os::unix::fs::symlink(&p, root.join(format!("_l{}", i + 1)));
        cur = p;
        rel = r;
    }
    // deepest: one more plain directory so that every repository kind is also entered from below
    let leaf = cur.join("leaf");
    mkdir(&leaf);

    // which worktree belongs to which git dir, according to git (asked from inside each directory)
    let mut worktree_of = HashMap::new();
    for s in &starts {
        let a = git_answer(&join(&root, s), None);
        ORACLE_CALLS.fetch_add(1, std::sync::atomic::Ordering::Relaxed);
        // the same question is asked again by the cases without ceiling: remember the answer
        ORACLE.lock().unwrap().get_or_insert_with(HashMap::new).insert((kinds.to_vec(), s.clone(), None), a.clone());
        if let GitAns::Found { git_dir, toplevel: Some(t), .. } = a {
            worktree_of.insert(git_dir, t);
        }
    }
    Layout { root, starts, worktree_of }
}

static LAYOUTS: Mutex<Option<HashMap<Vec<Kind>, Arc<OnceLock<Layout>>>>> = Mutex::new(None);
fn layout(kinds: &[Kind]) -> Arc<OnceLock<Layout>> {
    let cell = LAYOUTS.lock().unwrap().get_or_insert_with(HashMap::new).entry(kinds.to_vec()).or_default().clone();
    cell.get_or_init(|| build_layout(kinds));
    cell
}

// ------------------------------------------------------------------------------------------------ oracle

#[derive(Clone, Debug, PartialEq, Eq)]
enum GitAns {
    Found { git_dir: String, toplevel: Option<String>, bare: bool, inside_git_dir: bool },
    NotFound,
    /// git aborted discovery with a fatal error other than "not a git repository (or any ...)"
    Fatal(String),
}

fn canon(p: &Path) -> Option<String> {
    std::fs::canonicalize(p).ok().map(|p| p.to_string_lossy().into_owned())
}

fn git_answer(start: &Path, ceil: Option<&str>) -> GitAns {
    git_answer_fs(start, ceil, false)
}
fn git_answer_fs(start: &Path, ceil: Option<&str>, cross_fs: bool) -> GitAns {
    let mut c = git::cmd(start);
    if cross_fs {
        c.env("GIT_DISCOVERY_ACROSS_FILESYSTEM", "1");
    }
    if let Some(ceil) = ceil {
        c.env("GIT_CEILING_DIRECTORIES", ceil);
    }
    c.args(["rev-parse", "--absolute-git-dir", "--is-bare-repository", "--is-inside-git-dir", "--show-toplevel"]);
    let o = git::run_cmd(c, None);
    let out = o.text();
    let err = o.err_text();
    let lines: Vec<&str> = out.lines().collect();
    if o.ok && lines.len() == 4 {
        let g = canon(Path::new(lines[0])).unwrap_or_else(|| vkit::machinery!("git printed a git dir that does not exist: {}", lines[0]));
        let t = canon(Path::new(lines[3])).unwrap_or_else(|| vkit::machinery!("git printed a toplevel that does not exist: {}", lines[3]));
        return GitAns::Found { git_dir: g, toplevel: Some(t), bare: lines[1] == "true", inside_git_dir: lines[2] == "true" };
    }
    if !o.ok && lines.len() == 3 && err.contains("must be run in a work tree") {
        let g = canon(Path::new(lines[0])).unwrap_or_else(|| vkit::machinery!("git printed a git dir that does not exist: {}", lines[0]));
        return GitAns::Found { git_dir: g, toplevel: None, bare: lines[1] == "true", inside_git_dir: lines[2] == "true" };
    }
    if !o.ok && lines.is_empty() && err.starts_with("fatal: not a git repository (or any") {
        return GitAns::NotFound;
    }
    if !o.ok && lines.is_empty() && err.starts_with("fatal:") {
        return GitAns::Fatal(err.lines().next().unwrap_or("").to_string());
    }
    vkit::machinery!("unexpected git rev-parse outcome in {}: ok={} out={out:?} err={err:?}", start.display(), o.ok)
}

static ORACLE: Mutex<Option<HashMap<(Vec<Kind>, String, Option<String>), GitAns>>> = Mutex::new(None);
static ORACLE_CALLS: std::sync::atomic::AtomicU64 = std::sync::atomic::AtomicU64::new(0);

// ------------------------------------------------------------------------------------------------ cases

#[derive(Serialize, Deserialize, Hash, Clone, Copy, Debug, PartialEq, Eq)]
enum Form {
    /// absolute start directory
    Abs,
    /// cwd = start directory, dir = "."
    Dot,
    /// cwd = layout root, dir = relative path downwards
    Rel,
    /// cwd = layout root, dir = "./" + relative path + "/"
    RelDecorated,
    /// cwd = a directory `n` levels below the start directory, dir = "../" * n   (n = up)
    Up,
    /// absolute, with a lexical detour `<start>/x/..`
    AbsDetour,
    /// absolute with trailing slash
    AbsSlash,
    /// cwd = a layout directory above the start directory (`cwd` field), dir = the bare relative path down to it ("a", "a/b")
    Down,
    /// like `Down` with a leading "./"
    DownDotSlash,
    /// cwd = start directory, dir = "x/.." (x does not exist)
    DotDetour,
}

#[derive(Serialize, Deserialize, Hash, Clone, Debug)]
struct Case {
    layout: Vec<Kind>,
    /// start directory relative to the layout root ("" = root)
    start: String,
    form: Form,
    /// for `Form::Up`, `Form::Down*`: cwd relative to the layout root
    cwd: String,
    /// GIT_CEILING_DIRECTORIES with `$R` standing for the layout root
    ceil: Option<String>,
}

fn is_below(deeper: &str, upper: &str) -> Option<usize> {
    if deeper == upper {
        return None;
    }
    if upper.is_empty() {
        return Some(deeper.split('/').count());
    }
    deeper.strip_prefix(upper).and_then(|r| r.strip_prefix('/')).map(|r| r.split('/').count())
}

/// The start directories of a layout, computed without touching the file system (generator side).
fn starts_of(kinds: &[Kind]) -> Vec<String> {
    let mut starts = vec![String::new(), "_store".to_string()];
    let mut rel = String::new();
    let mut have_main = false;
    let mut have_mainbare = false;
    for (i, &k) in kinds.iter().enumerate() {
        let name = level_name(i, k);
        let r = if rel.is_empty() { name.clone() } else { format!("{rel}/{name}") };
        starts.push(r.clone());
        match k {
            Plain | BadGitFile => {}
            Repo | RepoFresh => {
                starts.push(format!("{r}/.git"));
                starts.push(format!("{r}/.git/refs/heads"));
            }
            Bare | BareDotGit => starts.push(format!("{r}/objects")),
            GitFile | GitFileRel => starts.push(format!("_store/g{}", i + 1)),
            Linked => {
                if !have_main {
                    starts.push("_main".into());
                    have_main = true;
                }
                starts.push(format!("_main/.git/worktrees/{name}"));
            }
            LinkedOfBare => {
                if !have_mainbare {
                    starts.push("_mainbare.git".into());
                    have_mainbare = true;
                }
                starts.push(format!("_mainbare.git/worktrees/{name}"));
            }
            Decoy | DecoyHead => starts.push(format!("{r}/.git")),
        }
        rel = r;
    }
    starts.push(if rel.is_empty() { "leaf".into() } else { format!("{rel}/leaf") });
    starts.sort();
    starts.dedup();
    starts
}

fn ancestors_or_self(start: &str) -> Vec<String> {
    // "$R", "$R/a", "$R/a/b" ...
    let mut v = vec!["$R".to_string()];
    if !start.is_empty() {
        let mut acc = String::from("$R");
        for c in start.split('/') {
            acc.push('/');
            acc.push_str(c);
            v.push(acc.clone());
        }
    }
    v
}

fn ceilings_for(start: &str, depth: usize, thorough: bool) -> Vec<Option<String>> {
    let anc = ancestors_or_self(start);
    let mut v: Vec<Option<String>> = vec![None];
    for a in &anc {
        v.push(Some(a.clone()));
    }
    if thorough || start.ends_with("leaf") {
        v.push(Some("$R/_store/nomatch".into()));
    }
    // two ceilings, one of them the start directory itself (which has no effect), the other its parent: both orders
    if !thorough && anc.len() >= 2 && (start.ends_with("leaf") || start.ends_with("refs/heads") || start.ends_with("objects")) {
        let (me, parent) = (&anc[anc.len() - 1], &anc[anc.len() - 2]);
        v.push(Some(format!("{me}:{parent}")));
        v.push(Some(format!("{parent}:{me}")));
    }
    if thorough {
        for a in &anc {
            v.push(Some(format!("{a}/")));
            v.push(Some(format!("{a}/x/..")));
            // relative entries are ignored
            v.push(Some(format!("relative/dir:{a}")));
        }
        // two ceilings: the deeper one must win regardless of order (adjacent ancestors, and the outermost with the innermost)
        let mut pairs: Vec<(usize, usize)> = (1..anc.len()).map(|i| (i - 1, i)).collect();
        if anc.len() > 2 {
            pairs.push((0, anc.len() - 1));
        }
        for (i, j) in pairs {
            v.push(Some(format!("{}:{}", anc[i], anc[j])));
            v.push(Some(format!("{}:{}", anc[j], anc[i])));
        }
        // ceilings spelled through a symlink `_l<k>` -> level k: resolved, unless they follow an empty entry
        for k in 1..=depth {
            v.push(Some(format!("$R/_l{k}")));
            v.push(Some(format!(":$R/_l{k}")));
        }
    }
    v.dedup();
    v
}

fn kinds_alphabet(thorough: bool) -> Vec<Kind> {
    if thorough {
        vec![Plain, Repo, RepoFresh, Bare, BareDotGit, GitFile, GitFileRel, Linked, LinkedOfBare, Decoy, DecoyHead, BadGitFile]
    } else {
        vec![Plain, Repo, RepoFresh, Bare, GitFile, Linked, Decoy, BadGitFile]
    }
}

fn generate(thorough: bool, max_depth: usize, emit: &mut dyn FnMut(Case)) {
    let alpha = kinds_alphabet(thorough);
    let small = kinds_alphabet(false);
    vkit::enumerate::seqs(&alpha, 0, max_depth, |kinds| {
        // quick: the small alphabet to depth 2; thorough: the full alphabet to depth 2 and the small one to depth 3
        let deep = [Plain, Repo, Bare, GitFile, Linked];
        let _ = &small;
        if kinds.len() > 2 && !(thorough && kinds.iter().all(|k| deep.contains(k))) {
            return;
        }
        // the rich ceiling spellings are explored on layouts of depth <= 2; depth 3 uses the plain ancestor ceilings
        let rich = thorough && kinds.len() <= 2;
        let starts = starts_of(kinds);
        for start in &starts {
            for ceil in ceilings_for(start, kinds.len(), rich) {
                let mut forms = vec![Form::Abs, Form::Dot];
                if !start.is_empty() {
                    forms.push(Form::Rel);
                }
                if thorough {
                    forms.push(Form::AbsDetour);
                    forms.push(Form::AbsSlash);
                    if !start.is_empty() {
                        forms.push(Form::RelDecorated);
                    }
                }
                for form in forms {
                    emit(Case { layout: kinds.to_vec(), start: start.clone(), form, cwd: String::new(), ceil: ceil.clone() });
                }
                emit(Case { layout: kinds.to_vec(), start: start.clone(), form: Form::DotDetour, cwd: String::new(), ceil: ceil.clone() });
                for other in &starts {
                    if let Some(n) = is_below(other, start) {
                        if n <= if thorough { 3 } else { 2 } {
                            emit(Case { layout: kinds.to_vec(), start: start.clone(), form: Form::Up, cwd: other.clone(), ceil: ceil.clone() });
                        }
                    }
                    // the root as cwd is `Form::Rel`
                    if !other.is_empty() && is_below(start, other).is_some() {
                        emit(Case { layout: kinds.to_vec(), start: start.clone(), form: Form::Down, cwd: other.clone(), ceil: ceil.clone() });
                        emit(Case { layout: kinds.to_vec(), start: start.clone(), form: Form::DownDotSlash, cwd: other.clone(), ceil: ceil.clone() });
                    }
                }
            }
        }
    });
}

fn join(root: &Path, rel: &str) -> PathBuf {
    if rel.is_empty() {
        root.to_path_buf()
    } else {
        root.join(rel)
    }
}

fn evaluate(c: &Case) -> Verdict {
    let v = evaluate_inner(c);
    if let (Err(m), Ok(path)) = (&v, std::env::var("VERIF_C50_DUMP")) {
        use std::io::Write;
        if let Ok(mut f) = std::fs::OpenOptions::new().create(true).append(true).open(path) {
            let _ = writeln!(f, "{}\t{}", serde_json::to_string(c).unwrap(), m);
        }
    }
    v
}

fn evaluate_inner(c: &Case) -> Verdict {
    let cell = layout(&c.layout);
    let lay = cell.get().unwrap();
    if !lay.starts.contains(&c.start) {
        vkit::machinery!("start {:?} not part of layout {:?}", c.start, c.layout);
    }
    let root = lay.root.to_str().unwrap().to_string();
    let start_abs = join(&lay.root, &c.start);
    let ceil = c.ceil.as_ref().map(|s| s.replace("$R", &root));

    // oracle (cached per layout/start/ceiling: it does not depend on how the start directory is spelled)
    let key = (c.layout.clone(), c.start.clone(), c.ceil.clone());
    let cached = ORACLE.lock().unwrap().get_or_insert_with(HashMap::new).get(&key).cloned();
    let want = match cached {
        Some(a) => a,
        None => {
            let a = git_answer(&start_abs, ceil.as_deref());
            ORACLE_CALLS.fetch_add(1, std::sync::atomic::Ordering::Relaxed);
            ORACLE.lock().unwrap().get_or_insert_with(HashMap::new).insert(key, a.clone());
            a
        }
    };

    let (cwd, dir) = match c.form {
        Form::Abs => (lay.root.clone(), start_abs.to_str().unwrap().to_string()),
        Form::AbsDetour => (lay.root.clone(), format!("{}/x/..", start_abs.to_str().unwrap())),
        Form::AbsSlash => (lay.root.clone(), format!("{}/", start_abs.to_str().unwrap())),
        Form::Dot => (start_abs.clone(), ".".to_string()),
        Form::Rel => (lay.root.clone(), c.start.clone()),
        Form::RelDecorated => (lay.root.clone(), format!("./{}/", c.start)),
        Form::Up => {
            let n = is_below(&c.cwd, &c.start).unwrap_or_else(|| vkit::machinery!("cwd {:?} not below start {:?}", c.cwd, c.start));
            (join(&lay.root, &c.cwd), vec![".."; n].join("/"))
        }
        Form::Down | Form::DownDotSlash => {
            let rest = c.start.strip_prefix(c.cwd.as_str()).and_then(|r| r.strip_prefix('/')).unwrap_or_else(|| vkit::machinery!("start {:?} not below cwd {:?}", c.start, c.cwd));
            (join(&lay.root, &c.cwd), if c.form == Form::Down { rest.to_string() } else { format!("./{rest}") })
        }
        Form::DotDetour => (start_abs.clone(), "x/..".to_string()),
    };
    let req = Req { cwd: cwd.to_str().unwrap().to_string(), dir, ceil: ceil.clone(), cross_fs: false, dot_git_only: false };
    judge(&want, &req, &lay.worktree_of)
}

/// Ask gix-discover and compare with git's answer.
fn judge(want: &GitAns, req: &Req, worktree_of: &HashMap<String, String>) -> Verdict {
    let cwd = PathBuf::from(&req.cwd);
    let ceil = &req.ceil;
    let got = match ask_gix(req) {
        Ok(r) => r,
        Err(m) => return bad("abort", format!("{m}; request {req:?}")),
    };

    match (want, &got) {
        (_, Resp::Panic(m)) => bad("panic", format!("upwards_opts panicked: {m}; request {req:?}")),
        (_, Resp::Harness(m)) => vkit::machinery!("{m}"),
        (GitAns::Fatal(m), _) => {
            // git refuses to continue past a broken gitfile; which repository "git finds" is undefined here
            let _ = m;
            ok_trivial("git-aborts-on-invalid-gitfile")
        }
        (GitAns::NotFound, Resp::Err { variant, text }) => match variant.as_str() {
            "NoGitRepository" | "NoGitRepositoryWithinFs" => {
                if ceil.is_some() {
                    ok("none/no-repo-above-(ceiling-irrelevant)")
                } else {
                    ok_trivial("none/no-repo-above")
                }
            }
            "NoGitRepositoryWithinCeiling" => ok("none/stopped-by-ceiling"),
            _ => bad("gix-error", format!("git: no repository; gix failed differently: {variant}: {text}; request {req:?}")),
        },
        (GitAns::NotFound, Resp::Found { git_dir, work_dir, .. }) => {
            // Was the repository found by examining a ceiling directory itself (git never enters a ceiling directory)?
            let resolve = |p: &str| canon(&if Path::new(p).is_absolute() { PathBuf::from(p) } else { cwd.join(p) });
            let g = resolve(git_dir);
            let w = work_dir.as_deref().and_then(resolve);
            let on_ceiling = ceil.as_deref().unwrap_or("").split(':').filter(|e| e.starts_with('/')).filter_map(|e| canon(Path::new(e))).any(|e| {
                Some(&e) == g.as_ref() || Some(&e) == w.as_ref()
            });
            let class = if on_ceiling { "ceiling-dir-itself-searched" } else { "found-but-git-finds-none" };
            bad(class, format!("git finds no repository (ceiling {ceil:?}), gix found git_dir={git_dir:?} work_dir={work_dir:?}; request {req:?}"))
        }
        (GitAns::Found { git_dir, .. }, Resp::Err { variant, text }) => {
            bad("missed", format!("git finds {git_dir}, gix: {variant}: {text}; request {req:?}"))
        }
        (GitAns::Found { git_dir, toplevel, bare, inside_git_dir }, Resp::Found { git_dir: g, work_dir: w, kind }) => {
            let resolve = |p: &str| -> Option<String> {
                let p = Path::new(p);
                let abs = if p.is_absolute() { p.to_path_buf() } else { cwd.join(p) };
                canon(&abs)
            };
            let Some(g_abs) = resolve(g) else {
                return bad("nonexistent-git-dir", format!("gix returned git_dir {g:?} which does not resolve; request {req:?}"));
            };
            if &g_abs != git_dir {
                return bad("other-git-dir", format!("git finds {git_dir}, gix finds {g_abs} (returned as {g:?}); request {req:?}"));
            }
            let w_abs = match w {
                None => None,
                Some(w) => match resolve(w) {
                    Some(w) => Some(w),
                    None => return bad("nonexistent-work-dir", format!("gix returned work_dir {w:?} which does not resolve; request {req:?}")),
                },
            };
            // the worktree git reports; when the start directory is inside the git dir git reports none for *this cwd*,
            // then the worktree that belongs to the git dir is the one git reports from inside that worktree.
            let expect_w = match toplevel {
                Some(t) => Some(t.clone()),
                None => worktree_of.get(git_dir).cloned(),
            };
            // git itself names no worktree from inside a git dir: `None` is then also an agreeing answer (a separate git dir
            // has no pointer back to its worktree)
            let agrees = w_abs == expect_w || (toplevel.is_none() && w_abs.is_none());
            if !agrees {
                return bad(
                    "other-worktree",
                    format!("git dir {git_dir}: git's worktree {expect_w:?} (bare={bare}, inside_git_dir={inside_git_dir}), gix work_dir {w_abs:?} (returned {w:?}, kind {kind}); request {req:?}"),
                );
            }
            let limited = if ceil.is_some() { "+ceil" } else { "" };
            let where_ = if *inside_git_dir { "from-git-dir" } else if *bare { "bare" } else { "from-worktree" };
            ok(format!("found/{kind}/{where_}{limited}"))
        }
    }
}


// ------------------------------------------------------------------------------------------------ filesystem boundary

#[derive(Serialize, Deserialize, Hash, Clone, Debug)]
struct FsCase {
    /// start directory relative to the fixture root
    start: String,
    form: Form,
    /// for `Form::Up`: cwd relative to the fixture root
    cwd: String,
    /// GIT_DISCOVERY_ACROSS_FILESYSTEM=1 / Options::cross_fs
    cross_fs: bool,
    ceil: Option<String>,
    /// Options::dot_git_only (all repositories of this fixture are `.git` directories, so git's answer is the same)
    #[serde(default)]
    dot_git_only: bool,
}

struct Mount(PathBuf);
impl Drop for Mount {
    fn drop(&mut self) {
        let _ = Command::new("umount").arg("-l").arg(&self.0).stderr(Stdio::null()).status();
    }
}

/// Unmount what an earlier, killed run may have left behind (mount points below scratch directories of dead processes).
fn unmount_stale() {
    let Ok(mounts) = std::fs::read_to_string("/proc/mounts") else { return };
    for line in mounts.lines() {
        let Some(mp) = line.split(' ').nth(1) else { continue };
        if !mp.contains("/c50-fsb") {
            continue;
        }
        let pid = mp.split('/').find_map(|c| c.strip_prefix("verif.")).and_then(|p| p.parse::<u32>().ok());
        if let Some(pid) = pid {
            if pid != std::process::id() && !Path::new(&format!("/proc/{pid}")).exists() {
                let _ = Command::new("umount").arg("-l").arg(mp).stderr(Stdio::null()).status();
            }
        }
    }
}

const FS_STARTS: &[&str] = &["outer", "outer/leaf", "outer/mnt", "outer/mnt/plain", "outer/mnt/plain/leaf", "outer/mnt/inner", "outer/mnt/inner/leaf", "outer/mnt/inner/.git"];

/// `<root>/outer` is a repository, `<root>/outer/mnt` is the mount point of another filesystem that contains a plain
/// directory and a repository `inner`. `None` if this process may not mount.
fn build_fs_fixture() -> Option<(PathBuf, Mount, HashMap<String, String>)> {
    unmount_stale();
    let t = templates();
    let root = scratch::Dir::new("c50-fsb").keep();
    let outer = root.join("outer");
    mkdir(&outer.join("leaf"));
    copy(&t.repo.join(".git"), &outer.join(".git"));
    let mnt = outer.join("mnt");
    mkdir(&mnt);
    let st = Command::new("mount").args(["-t", "tmpfs", "-o", "size=8m", "tmpfs"]).arg(&mnt).stderr(Stdio::null()).stdout(Stdio::null()).status();
    if !matches!(st, Ok(s) if s.success()) {
        return None;
    }
    let guard = Mount(mnt.clone());
    use std::os::unix::fs::MetadataExt;
    let dev = |p: &Path| std::fs::metadata(p).map(|m| m.dev()).unwrap_or(0);
    if dev(&mnt) == dev(&outer) {
        return None;
    }
    mkdir(&mnt.join("plain/leaf"));
    mkdir(&mnt.join("inner/leaf"));
    copy(&t.repo.join(".git"), &mnt.join("inner/.git"));
    let mut worktree_of = HashMap::new();
    for s in FS_STARTS {
        if let GitAns::Found { git_dir, toplevel: Some(t), .. } = git_answer_fs(&root.join(s), None, true) {
            worktree_of.insert(git_dir, t);
        }
    }
    Some((root, guard, worktree_of))
}

fn fs_generate(emit: &mut dyn FnMut(FsCase)) {
    for start in FS_STARTS {
        for cross_fs in [false, true] {
            let mut ceils = vec![None];
            ceils.extend(ancestors_or_self(start).into_iter().map(Some));
            for ceil in ceils {
                for dot_git_only in [false, true] {
                    for form in [Form::Abs, Form::Dot, Form::Rel] {
                        emit(FsCase { start: start.to_string(), form, cwd: String::new(), cross_fs, ceil: ceil.clone(), dot_git_only });
                    }
                    for other in FS_STARTS {
                        if is_below(other, start).is_some() {
                            emit(FsCase { start: start.to_string(), form: Form::Up, cwd: other.to_string(), cross_fs, ceil: ceil.clone(), dot_git_only });
                        }
                        if is_below(start, other).is_some() {
                            emit(FsCase { start: start.to_string(), form: Form::Down, cwd: other.to_string(), cross_fs, ceil: ceil.clone(), dot_git_only });
                        }
                    }
                }
            }
        }
    }
}

fn fs_evaluate(c: &FsCase, root: &Path, worktree_of: &HashMap<String, String>) -> Verdict {
    let start_abs = join(root, &c.start);
    let ceil = c.ceil.as_ref().map(|s| s.replace("$R", root.to_str().unwrap()));
    // git's answer depends on neither the spelling nor dot_git_only (all repositories here are `.git` directories)
    static FS_ORACLE: Mutex<Option<HashMap<(String, bool, Option<String>), GitAns>>> = Mutex::new(None);
    let key = (c.start.clone(), c.cross_fs, c.ceil.clone());
    let cached = FS_ORACLE.lock().unwrap().get_or_insert_with(HashMap::new).get(&key).cloned();
    let want = match cached {
        Some(a) => a,
        None => {
            let a = git_answer_fs(&start_abs, ceil.as_deref(), c.cross_fs);
            ORACLE_CALLS.fetch_add(1, std::sync::atomic::Ordering::Relaxed);
            FS_ORACLE.lock().unwrap().get_or_insert_with(HashMap::new).insert(key, a.clone());
            a
        }
    };
    let (cwd, dir) = match c.form {
        Form::Abs => (root.to_path_buf(), start_abs.to_str().unwrap().to_string()),
        Form::Dot => (start_abs.clone(), ".".to_string()),
        Form::Rel => (root.to_path_buf(), c.start.clone()),
        Form::Up => {
            let n = is_below(&c.cwd, &c.start).unwrap_or_else(|| vkit::machinery!("cwd {:?} not below start {:?}", c.cwd, c.start));
            (join(root, &c.cwd), vec![".."; n].join("/"))
        }
        Form::Down => {
            let rest = c.start.strip_prefix(c.cwd.as_str()).and_then(|r| r.strip_prefix('/')).unwrap_or_else(|| vkit::machinery!("start {:?} not below cwd {:?}", c.start, c.cwd));
            (join(root, &c.cwd), rest.to_string())
        }
        _ => vkit::machinery!("form not used in fs-boundary"),
    };
    let req = Req { cwd: cwd.to_str().unwrap().to_string(), dir, ceil, cross_fs: c.cross_fs, dot_git_only: c.dot_git_only };
    let crosses = c.start.starts_with("outer/mnt") && !c.start.starts_with("outer/mnt/inner");
    match judge(&want, &req, worktree_of) {
        Ok(p) => {
            let tag = match (crosses, c.cross_fs) {
                (true, true) => "fs:crossed/",
                (true, false) => "fs:stopped-at-boundary/",
                (false, _) => "fs:no-boundary-above/",
            };
            Ok(vkit::Pass { class: format!("{tag}{}", p.class).into(), nontrivial: p.nontrivial || crosses })
        }
        Err(m) => Err(m),
    }
}

pub fn run(run: &'static Run) {
    let thorough = !run.quick();
    let max_depth: usize = std::env::var("VERIF_C50_DEPTH").ok().and_then(|s| s.parse().ok()).unwrap_or(3);
    run.rule(format!(
        "layout = chain of <= {max_depth} nested directories, each of kind {:?} (plus side directories _store, _main, _mainbare.git and a plain leaf); \
         start = every directory of the layout incl. directories inside git dirs and private worktree git dirs; \
         spelling = absolute | '.' with cwd=start | 'x/..' with cwd=start | relative from the root | bare relative ('a', 'a/b') and './a' from every layout directory above the start | '../'*n from every directory n<={} levels below{}; \
         GIT_CEILING_DIRECTORIES = unset | each ancestor-or-self of the start up to the layout root | a non-matching directory | the pair (start, parent of start) in both orders for the deepest starts (leaf, refs/heads, objects){}. \
         Non-trivial = git finds a repository, or a ceiling was set.",
        kinds_alphabet(thorough),
        if thorough { 3 } else { 2 },
        if thorough { " | absolute with '/x/..' detour | trailing slash | './rel/'" } else { "" },
        if thorough { " | trailing '/' '/.' '/x/..' spellings | every ordered pair of ancestors | non-matching or relative entry first | through a symlink, with and without a preceding empty entry" } else { "" },
    ));
    run.assume("oracle: git 2.39.5 `rev-parse --absolute-git-dir --is-bare-repository --is-inside-git-dir --show-toplevel` with cwd = start directory; both sides' paths are compared after realpath");
    run.assume("gix side: gix_discover::upwards_opts with Options::default().apply_environment() and match_ceiling_dir_or_error=false (git ignores non-matching ceilings), cross_fs=false, in a child process (real chdir / real environment variable)");
    run.assume("when the start directory is inside a git dir git prints no toplevel for that cwd; the expected worktree is then the one git prints from inside the worktree that belongs to that git dir (none for bare repositories)");
    run.assume("start directories are spelled by their physical path (git always starts from getcwd()); starts reached through symlinks are out of scope");
    run.assume("layouts whose `.git` file is malformed make git abort with a fatal error instead of naming a repository: counted as trivial (no comparison)");
    run.assume("bare-ness / core.worktree from the repository configuration is not visible to gix-discover (documented: 'the git-config ultimately decides'); layouts use default configuration only");
    run.budget_secs(std::env::var("VERIF_BUDGET").ok().and_then(|s| s.parse().ok()).unwrap_or(run.pick(120.0, 1500.0)));

    {
        let (mut cases, mut keys, mut layouts) = (0u64, std::collections::HashSet::new(), std::collections::HashSet::new());
        generate(thorough, max_depth, &mut |c: Case| {
            cases += 1;
            keys.insert(vkit::hash_of(&(&c.layout, &c.start, &c.ceil)));
            layouts.insert(c.layout.clone());
        });
        run.cov("cases_planned", cases);
        run.cov("oracle_questions_planned", keys.len());
        run.cov("layouts_planned", layouts.len());
        if std::env::var("VERIF_C50_COUNT").is_ok() {
            eprintln!("cases {cases} oracle {} layouts {}", keys.len(), layouts.len());
            return;
        }
        // build all layouts up front, in parallel (cases arrive layout by layout, so building lazily would serialize the workers)
        if !run.is_replay() {
            let todo: Vec<Vec<Kind>> = layouts.into_iter().collect();
            let next = std::sync::atomic::AtomicUsize::new(0);
            templates();
            std::thread::scope(|sc| {
                for _ in 0..run.threads.min(16) {
                    sc.spawn(|| loop {
                        let i = next.fetch_add(1, std::sync::atomic::Ordering::Relaxed);
                        let Some(kinds) = todo.get(i) else { break };
                        if vkit::catch(|| layout(kinds)).is_err() {
                            break;
                        }
                    });
                }
            });
        }
    }
    run.sub_with("upwards", vkit::Opts::default().chunk(1024), |emit| generate(thorough, max_depth, emit), evaluate);

    // filesystem boundary: needs the privilege to mount a tmpfs; skipped (and said so) otherwise
    if let Some((root, guard, worktree_of)) = build_fs_fixture() {
        run.rule("fs-boundary: repository `outer`, a tmpfs mounted at outer/mnt holding a plain directory and a repository `inner`; every start directory x spelling (abs, '.', relative from the root and from every directory above, '../'*n) x dot_git_only in {off,on} x cross_fs/GIT_DISCOVERY_ACROSS_FILESYSTEM in {off,on} x ceiling in {unset, each ancestor-or-self}");
        run.sub_with("fs-boundary", vkit::Opts::default().chunk(256), fs_generate, |c: &FsCase| fs_evaluate(c, &root, &worktree_of));
        drop(guard);
        if !run.is_replay() {
            require_unless_capped(run, "a search was stopped at the filesystem boundary", run.outcome_count("fs:stopped-at-boundary/none/no-repo-above") > 0);
            require_unless_capped(run, "a search crossed the filesystem boundary when allowed", run.outcome_count("fs:crossed/found/worktree/from-worktree") > 0);
        }
    } else {
        run.assume("fs-boundary sub-check skipped: this process cannot mount a tmpfs (filesystem boundaries not covered in this run)");
    }

    run.cov("oracle_calls_git", ORACLE_CALLS.load(std::sync::atomic::Ordering::Relaxed));
    run.cov("layouts", LAYOUTS.lock().unwrap().as_ref().map(|m| m.len()).unwrap_or(0));
    require_unless_capped(run, "some repository was found from inside a worktree under a ceiling", run.outcome_count("found/worktree/from-worktree+ceil") > 0);
    require_unless_capped(run, "some search was stopped by a ceiling", run.outcome_count("none/stopped-by-ceiling") > 0);
    require_unless_capped(run, "some linked worktree was found", run.outcome_count("found/linked/from-worktree") > 0);
    require_unless_capped(run, "some bare repository was found", run.outcome_count("found/repository/bare") + run.outcome_count("found/repository/from-git-dir") > 0);
}

/// Vacuity guards only make sense for runs that were not cut short by the time budget (then evidence says exhaustive=false).
fn require_unless_capped(run: &Run, what: &str, cond: bool) {
    if !run.over_budget() {
        run.require(what, cond);
    }
}
