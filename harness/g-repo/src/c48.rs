//! C48 — revision specs resolve like `git rev-parse` (E1: all compositions of spec tokens up to a depth, on fixed repositories).
use bstr::ByteSlice;
use serde::{Deserialize, Serialize};
use std::collections::HashMap;
use std::path::{Path, PathBuf};
use vkit::{bad, git, ok, ok_trivial, scratch, Run, Verdict};

#[derive(Serialize, Deserialize, Hash, Clone, Debug)]
struct Case {
    /// index into the fixture list: 0 = main (loose), 1 = packed copy, 2 = detached HEAD without reflogs, 3 = empty
    repo: u8,
    spec: String,
}

struct Fixture {
    name: &'static str,
    dir: PathBuf,
    repo: gix::ThreadSafeRepository,
    /// commit -> parents
    parents: HashMap<String, Vec<String>>,
    anchors: Vec<String>,
    /// abbreviated ids that name more than one object
    ambiguous: Vec<String>,
    /// name of a branch that is at the same time a valid abbreviated object id (of another commit)
    ref_that_is_also_a_prefix: String,
}

fn gitd(dir: &Path, secs: u64, args: &[&str]) -> String {
    let mut c = git::cmd(dir);
    let date = format!("{} +0000", 1_500_000_000 + secs);
    c.env("GIT_COMMITTER_DATE", &date).env("GIT_AUTHOR_DATE", &date);
    c.args(args);
    let o = git::run_cmd(c, None);
    if !o.ok {
        vkit::machinery!("git {args:?} failed in {}: {}", dir.display(), o.err_text());
    }
    o.text()
}
fn write(p: &Path, data: &[u8]) {
    if let Some(d) = p.parent() {
        let _ = std::fs::create_dir_all(d);
    }
    std::fs::write(p, data).unwrap_or_else(|e| vkit::machinery!("write {}: {e}", p.display()));
}

fn blob_id(data: &[u8]) -> String {
    gix::objs::compute_hash(gix::hash::Kind::Sha1, gix::objs::Kind::Blob, data).to_string()
}
fn commit_id(data: &[u8]) -> String {
    gix::objs::compute_hash(gix::hash::Kind::Sha1, gix::objs::Kind::Commit, data).to_string()
}

struct MainIds {
    c1: String,
    c2: String,
    c3: String,
    side: String,
    merge: String,
    head: String,
    tree: String,
    blob: String,
    tag_v1: String,
    /// blob whose id shares its first 4 hex digits with `c2`
    blob_like_c2: String,
    /// commit whose id shares its first 4 hex digits with `c3`
    commit_like_c3: String,
    describe: String,
}

fn build_main(dir: &Path) -> MainIds {
    git::init(dir);
    let g = |secs: u64, args: &[&str]| gitd(dir, secs, args);
    g(1, &["config", "core.logAllRefUpdates", "true"]);
    write(&dir.join("a"), b"a1\n");
    write(&dir.join("dir/b"), b"b1\n");
    g(1000, &["add", "."]);
    g(1000, &["commit", "-q", "-m", "c1 init"]);
    g(1000, &["tag", "v0"]);
    write(&dir.join("a"), b"a2\n");
    g(2000, &["commit", "-q", "-am", "c2 second"]);
    g(2100, &["tag", "-a", "-m", "tag v1", "v1"]);
    g(2200, &["tag", "-a", "-m", "tag of tag", "vv", "v1"]);
    g(2300, &["tag", "-a", "-m", "tree tag", "ttree", "HEAD^{tree}"]);
    g(2400, &["tag", "-a", "-m", "blob tag", "tblob", "HEAD:a"]);
    g(2500, &["checkout", "-q", "-b", "side", "v0"]);
    write(&dir.join("s"), b"s\n");
    g(3000, &["add", "s"]);
    g(3000, &["commit", "-q", "-m", "side work"]);
    g(3500, &["checkout", "-q", "main"]);
    write(&dir.join("a"), b"a3\n");
    g(4000, &["commit", "-q", "-am", "c3 third"]);
    g(5000, &["merge", "-q", "--no-ff", "-m", "merge side", "side"]);
    write(&dir.join("a"), b"a4\n");
    g(6000, &["commit", "-q", "-am", "c4 fourth\n\nbody mentions c2 second"]);
    let rp = |s: &str| g(1, &["rev-parse", s]);
    let ids = (rp("v0"), rp("v1^{commit}"), rp("HEAD~2"), rp("side"), rp("HEAD~1"), rp("HEAD"));
    // a branch and a tag with the same name (tags win), refs that look like hex, remote tracking refs with upstream config
    g(1, &["branch", "dup", &ids.0]);
    g(6100, &["tag", "dup", &ids.1]);
    g(1, &["branch", "abcd", &ids.0]);
    g(1, &["branch", &ids.0[..7], &ids.2]); // named like the abbreviated id of c1, points to c3
    g(1, &["update-ref", "refs/remotes/origin/main", &ids.2]);
    g(1, &["symbolic-ref", "refs/remotes/origin/HEAD", "refs/remotes/origin/main"]);
    g(1, &["config", "remote.origin.url", "https://example.com/r.git"]);
    g(1, &["config", "remote.origin.fetch", "+refs/heads/*:refs/remotes/origin/*"]);
    g(1, &["config", "branch.main.remote", "origin"]);
    g(1, &["config", "branch.main.merge", "refs/heads/main"]);

    // objects that share a 4-hex prefix with c2 (a blob) and with c3 (another commit)
    let mut blob_like_c2 = None;
    for n in 0..2_000_000u32 {
        let data = format!("collide {n}\n");
        if blob_id(data.as_bytes())[..4] == ids.1[..4] {
            let mut c = git::cmd(dir);
            c.args(["hash-object", "-w", "--stdin"]);
            let o = git::run_cmd(c, Some(data.as_bytes()));
            blob_like_c2 = Some(o.text());
            break;
        }
    }
    let tree = rp("HEAD^{tree}");
    let mut commit_like_c3 = None;
    for n in 0..2_000_000u32 {
        let data = format!(
            "tree {tree}\nparent {}\nauthor A U Thor <author@example.com> 1500007000 +0000\ncommitter C O Mitter <committer@example.com> 1500007000 +0000\n\ncollide {n}\n",
            ids.0
        );
        if commit_id(data.as_bytes())[..4] == ids.2[..4] {
            let mut c = git::cmd(dir);
            c.args(["hash-object", "-t", "commit", "-w", "--stdin"]);
            let o = git::run_cmd(c, Some(data.as_bytes()));
            commit_like_c3 = Some(o.text());
            break;
        }
    }
    let (Some(blob_like_c2), Some(commit_like_c3)) = (blob_like_c2, commit_like_c3) else { vkit::machinery!("no prefix collision found") };
    if blob_like_c2.len() != 40 || commit_like_c3.len() != 40 {
        vkit::machinery!("hash-object did not return ids: {blob_like_c2:?} {commit_like_c3:?}");
    }
    MainIds {
        c1: ids.0,
        c2: ids.1,
        c3: ids.2,
        side: ids.3,
        merge: ids.4,
        head: ids.5,
        tree,
        blob: rp("HEAD:a"),
        tag_v1: rp("v1"),
        blob_like_c2,
        commit_like_c3,
        describe: g(1, &["describe", "HEAD"]),
    }
}

fn main_anchors(m: &MainIds) -> Vec<String> {
    let mut v: Vec<String> = [
        "HEAD", "@", "main", "side", "heads/main", "refs/heads/main", "v0", "v1", "vv", "tags/v1", "ttree", "tblob", "dup", "abcd", "origin",
        "origin/main", "nonexistent", "", ":a", ":0:a", ":dir/b", ":nofile", ":/c2", ":/^c", ":/nomatch", ":/!-c4", "@{0}", "@{1}", "@{-1}", "@{-2}",
        "@{-9}", "main@{0}", "main@{1}", "main@{2}", "main@{99}", "HEAD@{1}", "side@{0}", "v1@{0}", "@{u}", "@{upstream}", "main@{u}", "side@{u}", "@{push}",
    ]
    .iter()
    .map(|s| s.to_string())
    .collect();
    v.push(m.c1[..7].to_string()); // also the name of a branch pointing to c3
    v.push(m.c1.clone());
    v.push(m.c2[..4].to_string()); // ambiguous: commit c2 / blob
    v.push(m.c2[..7].to_string());
    v.push(m.c3[..4].to_string()); // ambiguous: commit c3 / another commit
    v.push(m.c3[..5].to_string());
    v.push(m.side[..4].to_string());
    v.push(m.merge[..6].to_string());
    v.push(m.head.to_uppercase()[..8].to_string());
    v.push(m.tree[..7].to_string());
    v.push(m.blob[..4].to_string());
    v.push(m.tag_v1[..7].to_string());
    v.push(m.blob_like_c2[..9].to_string());
    v.push(m.commit_like_c3.clone());
    v.push(m.describe.clone()); // v1-<n>-g<hex>
    v.push(format!("anything-g{}", &m.merge[..7]));
    // hex in upper and mixed case: git lower-cases abbreviated ids, also behind `-g`
    let mixed = |h: &str| h.chars().enumerate().map(|(i, c)| if i % 2 == 0 { c.to_ascii_uppercase() } else { c }).collect::<String>();
    v.push(format!("anything-g{}", m.merge[..7].to_uppercase()));
    v.push(format!("v1-9-g{}", mixed(&m.c1[..8])));
    v.push(format!("x-g{}", m.blob[..7].to_uppercase()));
    v.push(mixed(&m.side[..7]));
    v.push(m.c1.to_uppercase());
    v.push(format!("v1-1-g{}", &m.c2[..4])); // describe form with an ambiguous prefix: commits are preferred
    v.push(format!("v1-1-g{}", &m.c3[..4]));
    v.push(format!("x-g{}", &m.blob[..7])); // describe form naming a blob
    v.push("0000".into());
    v
}

const SUFFIX_CORE: &[&str] = &[
    "~", "~1", "~2", "~0", "~9", "^", "^2", "^3", "^0", "^{commit}", "^{tree}", "^{tag}", "^{blob}", "^{object}", "^{}", "^{/c1}", "^{/!-c4}",
    "^{/nomatch}", ":", ":a", ":dir", ":dir/b", ":nofile", "@{0}", "@{1}",
];
/// the subset used for the deepest compositions
const SUFFIX_DEEP: &[&str] = &["~", "~2", "^", "^2", "^0", "^{commit}", "^{tree}", "^{tag}", "^{}", "^{/c1}", ":", ":a", ":dir/b", "@{1}"];
const SUFFIX_MORE: &[&str] = &["~3", "^1", "^{/c. }", "^{/}", "^{nothing}", "^{", "~-1", "^+1", "@{-1}", "@{u}", ":dir/", "^{/^side}"];
const SUFFIX_FINAL: &[&str] = &["^!", "^@", "^-", "^-1", "^-2", "^-3"];

fn build_fixtures() -> Vec<Fixture> {
    let base = scratch::Dir::new("c48").keep();
    let open = |dir: &Path| {
        gix::open_opts(dir, gix::open::Options::isolated()).unwrap_or_else(|e| vkit::machinery!("gix cannot open fixture {}: {e}", dir.display())).into_sync()
    };
    let parents_of = |dir: &Path, extra: &[&str]| -> HashMap<String, Vec<String>> {
        let mut args = vec!["rev-list", "--parents", "--all", "--reflog"];
        args.extend_from_slice(extra);
        let out = git::git_text(dir, &args);
        out.lines()
            .map(|l| {
                let mut it = l.split(' ').map(str::to_string);
                (it.next().unwrap_or_default(), it.collect())
            })
            .collect()
    };
    let mut out = Vec::new();

    let main = base.join("main");
    let ids = build_main(&main);
    let anchors = main_anchors(&ids);
    out.push(Fixture { name: "main", dir: main.clone(), repo: open(&main), parents: parents_of(&main, &[&ids.commit_like_c3]), anchors: anchors.clone(), ambiguous: vec![ids.c2[..4].to_string(), ids.c3[..4].to_string()], ref_that_is_also_a_prefix: ids.c1[..7].to_string() });

    // the same repository with reachable objects in a pack and refs in packed-refs (unreachable objects stay loose)
    let packed = base.join("packed");
    scratch::copy_tree(&main, &packed).unwrap_or_else(|e| vkit::machinery!("copy fixture: {e}"));
    git::git(&packed, &["repack", "-a", "-d", "-q"]);
    git::git(&packed, &["pack-refs", "--all"]);
    out.push(Fixture { name: "packed", dir: packed.clone(), repo: open(&packed), parents: parents_of(&packed, &[&ids.commit_like_c3]), anchors, ambiguous: vec![ids.c2[..4].to_string(), ids.c3[..4].to_string()], ref_that_is_also_a_prefix: ids.c1[..7].to_string() });

    // detached HEAD, no reflogs
    let det = base.join("detached");
    git::init(&det);
    gitd(&det, 1, &["config", "core.logAllRefUpdates", "false"]);
    write(&det.join("a"), b"1\n");
    gitd(&det, 1000, &["add", "a"]);
    gitd(&det, 1000, &["commit", "-q", "-m", "d1"]);
    write(&det.join("a"), b"2\n");
    gitd(&det, 2000, &["commit", "-q", "-am", "d2"]);
    gitd(&det, 2000, &["checkout", "-q", "--detach", "HEAD~1"]);
    let _ = std::fs::remove_dir_all(det.join(".git/logs"));
    let d1 = gitd(&det, 1, &["rev-parse", "HEAD"]);
    let det_anchors: Vec<String> = ["HEAD", "@", "main", "@{0}", "@{-1}", "main@{0}", "@{u}", ":a", ":/d", "nonexistent", ""]
        .iter()
        .map(|s| s.to_string())
        .chain([d1[..4].to_string(), d1.clone()])
        .collect();
    out.push(Fixture { name: "detached", dir: det.clone(), repo: open(&det), parents: parents_of(&det, &[]), anchors: det_anchors, ambiguous: Vec::new(), ref_that_is_also_a_prefix: String::new() });

    // unborn HEAD
    let empty = base.join("empty");
    git::init(&empty);
    let empty_anchors: Vec<String> = ["HEAD", "@", "main", "@{0}", "@{-1}", "@{u}", ":a", ":/x", "", "0000"].iter().map(|s| s.to_string()).collect();
    out.push(Fixture { name: "empty", dir: empty.clone(), repo: open(&empty), parents: HashMap::new(), anchors: empty_anchors, ambiguous: Vec::new(), ref_that_is_also_a_prefix: String::new() });
    out
}

#[derive(Debug, PartialEq, Eq, Clone)]
enum Outcome {
    /// the lines `git rev-parse` prints
    Revs(Vec<String>),
    Error(String),
}

static BATCH: std::sync::OnceLock<HashMap<(u8, String), Outcome>> = std::sync::OnceLock::new();
static GIT_CALLS: std::sync::atomic::AtomicU64 = std::sync::atomic::AtomicU64::new(0);

/// Specs for which `git rev-parse` prints exactly one object id or fails, i.e. those that go through git's `get_oid()` unchanged:
/// no leading `^`, no range, none of the rev-parse level shorthands `^!`, `^@`, `^-`.
fn names_single_object(spec: &str) -> bool {
    !(spec.is_empty() || spec.starts_with('^') || spec.contains("..") || spec.contains("^!") || spec.contains("^@") || spec.contains("^-") || spec.contains('\n'))
}

/// Resolve many single-object specs with one `git cat-file --batch-check` process (same `get_oid_with_context()` as rev-parse).
fn batch_oracle(dir: &Path, specs: &[&str], repo: u8, out: &mut HashMap<(u8, String), Outcome>) {
    let mut rest: &[&str] = specs;
    // some specs make cat-file die (`fatal: log for 'HEAD' only has 2 entries`): that is the answer for the spec it died on,
    // and the batch is restarted behind it
    while !rest.is_empty() {
        let mut input = Vec::new();
        for s in rest {
            input.extend_from_slice(s.as_bytes());
            input.push(b'\n');
        }
        let o = git::try_git_in(dir, &["cat-file", "--batch-check"], &input);
        GIT_CALLS.fetch_add(1, std::sync::atomic::Ordering::Relaxed);
        let text = String::from_utf8_lossy(&o.stdout).into_owned();
        let lines: Vec<&str> = text.lines().collect();
        if lines.len() > rest.len() || (o.ok && lines.len() != rest.len()) {
            return; // not the shape we understand: leave the remaining specs to rev-parse
        }
        for (spec, line) in rest.iter().zip(&lines) {
            let f: Vec<&str> = line.split(' ').collect();
            let outcome = if f.len() == 3 && f[0].len() == 40 && f[0].bytes().all(|b| b.is_ascii_hexdigit()) && ["commit", "tree", "blob", "tag"].contains(&f[1]) {
                Outcome::Revs(vec![f[0].to_string()])
            } else if line.ends_with(" missing") || line.ends_with(" ambiguous") {
                Outcome::Error(line.to_string())
            } else {
                continue; // unknown shape: leave it to rev-parse
            };
            out.insert((repo, spec.to_string()), outcome);
        }
        if lines.len() == rest.len() {
            return;
        }
        let err = o.err_text();
        let fatal = err.lines().find(|l| l.starts_with("fatal:")).unwrap_or("");
        if o.ok || fatal.is_empty() {
            return;
        }
        out.insert((repo, rest[lines.len()].to_string()), Outcome::Error(fatal.to_string()));
        rest = &rest[lines.len() + 1..];
    }
}

fn git_outcome(dir: &Path, spec: &str) -> Outcome {
    GIT_CALLS.fetch_add(1, std::sync::atomic::Ordering::Relaxed);
    let o = git::try_git(dir, &["rev-parse", "--end-of-options", spec, "--"]);
    let text = o.text();
    let mut lines: Vec<String> = text.lines().map(str::to_string).collect();
    if lines.first().map(String::as_str) == Some("--end-of-options") {
        lines.remove(0);
    }
    if o.ok {
        if lines.last().map(String::as_str) != Some("--") {
            vkit::machinery!("unexpected rev-parse output for {spec:?}: {text:?}");
        }
        lines.pop();
        for l in &lines {
            let h = l.strip_prefix('^').unwrap_or(l);
            if h.len() != 40 || !h.bytes().all(|b| b.is_ascii_hexdigit()) {
                vkit::machinery!("unexpected rev-parse output line for {spec:?}: {l:?}");
            }
        }
        Outcome::Revs(lines)
    } else {
        let err = o.err_text();
        if !err.contains("fatal:") && !err.contains("error:") {
            vkit::machinery!("git rev-parse failed without a message for {spec:?}: code {:?} {err:?}", o.code);
        }
        Outcome::Error(err.lines().find(|l| l.starts_with("fatal:") || l.starts_with("error:")).unwrap_or("").to_string())
    }
}

fn gix_outcome(fx: &Fixture, spec: &str) -> (Outcome, &'static str) {
    use gix::revision::plumbing::Spec;
    let repo = fx.repo.to_thread_local();
    let parsed = repo.rev_parse(spec.as_bytes().as_bstr()).map(|s| s.detach());
    match parsed {
        Err(e) => {
            let mut text = e.to_string();
            let mut src: Option<&dyn std::error::Error> = std::error::Error::source(&e);
            while let Some(s) = src {
                text.push_str(" / ");
                text.push_str(&s.to_string());
                src = s.source();
            }
            (Outcome::Error(text.replace('\n', " ")), "error")
        }
        Ok(spec) => {
            let ps = |id: &gix::hash::ObjectId| {
                fx.parents.get(&id.to_string()).cloned().or_else(|| {
                    // an annotated tag: git applies `^@` / `^!` to the commit it points to
                    let repo = fx.repo.to_thread_local();
                    let commit = repo.find_object(*id).ok()?.peel_tags_to_end().ok()?;
                    fx.parents.get(&commit.id.to_string()).cloned()
                })
            };
            match spec {
                Spec::Include(a) => (Outcome::Revs(vec![a.to_string()]), "single"),
                Spec::Exclude(a) => (Outcome::Revs(vec![format!("^{a}")]), "exclude"),
                Spec::Range { from, to } => (Outcome::Revs(vec![to.to_string(), format!("^{from}")]), "range"),
                // `git rev-parse a...b` prints b, then a, then the excluded merge bases
                Spec::Merge { theirs, ours } => (Outcome::Revs(vec![ours.to_string(), theirs.to_string()]), "merge"),
                Spec::IncludeOnlyParents(a) => match ps(&a) {
                    Some(p) => (Outcome::Revs(p), "parents-only"),
                    None => (Outcome::Error(format!("^@ applied to {a} which is not a known commit")), "parents-only"),
                },
                Spec::ExcludeParents(a) => match ps(&a) {
                    Some(p) => (Outcome::Revs(std::iter::once(a.to_string()).chain(p.into_iter().map(|p| format!("^{p}"))).collect()), "exclude-parents"),
                    None => (Outcome::Error(format!("^! applied to {a} which is not a known commit")), "exclude-parents"),
                },
            }
        }
    }
}

fn evaluate(fixtures: &[Fixture], c: &Case) -> Verdict {
    let v = vkit::catch(|| evaluate_inner(fixtures, c)).unwrap_or_else(|p| {
        // `Error::from_errors()` asserts that the delegate recorded an error; navigation without an anchor records none
        let class = if p.contains("!errors.is_empty()") { "panic/no-error-recorded" } else { "panic" };
        bad(class, format!("repo {} spec {:?}: {p}", c.repo, c.spec))
    });
    if let (Err(m), Ok(path)) = (&v, std::env::var("VERIF_C48_DUMP")) {
        use std::io::Write;
        if let Ok(mut f) = std::fs::OpenOptions::new().create(true).append(true).open(path) {
            let _ = writeln!(f, "{}", m.replace('\n', " "));
        }
    }
    v
}

/// Name the construct a disagreement is about, so that known findings can be matched narrowly.
fn feature(spec: &str) -> &'static str {
    let describe_like = spec.find("-g").map_or(false, |p| spec[p + 2..].bytes().take_while(u8::is_ascii_hexdigit).count() >= 4);
    if spec.starts_with("@@") {
        "at-at"
    } else if spec.contains("@{u") || spec.contains("@{push") {
        "sibling-branch"
    } else if spec.contains("~0") {
        "tilde-zero"
    } else if spec.contains("^{/}") {
        "empty-regex"
    } else if spec.contains("@{-") {
        "nth-prior-checkout"
    } else if spec.contains("@{") {
        "reflog"
    } else if describe_like {
        "describe"
    } else if spec.contains("^{/") || spec.starts_with(":/") {
        "regex"
    } else if spec.contains("..") {
        "range"
    } else if spec.contains("^-") || spec.contains("^!") || spec.contains("^@") {
        "parent-shorthand"
    } else if spec.contains(':') {
        "path"
    } else if spec.contains("^{") {
        "peel"
    } else {
        "other"
    }
}

fn evaluate_inner(fixtures: &[Fixture], c: &Case) -> Verdict {
    let Some(fx) = fixtures.get(c.repo as usize) else { vkit::machinery!("no fixture {}", c.repo) };
    let want = match BATCH.get().and_then(|m| m.get(&(c.repo, c.spec.clone()))) {
        Some(o) => o.clone(),
        None => git_outcome(&fx.dir, &c.spec),
    };
    let (got, shape) = gix_outcome(fx, &c.spec);
    let class_of = |kind: &str, gix_err: &str| -> String {
        match diagnose(&c.spec, fx, kind, gix_err) {
            Some(root_cause) => root_cause.to_string(),
            None => format!("{kind}/{}", feature(&c.spec)),
        }
    };
    match (&want, &got) {
        (Outcome::Error(_), Outcome::Error(_)) => ok_trivial("both-reject"),
        (Outcome::Error(g), Outcome::Revs(r)) => {
            let names_ambiguous_prefix = fx.ambiguous.iter().any(|p| {
                let not_hex_after = |rest: &str| rest.bytes().next().map_or(true, |b| !b.is_ascii_hexdigit());
                c.spec.strip_prefix(p.as_str()).map_or(false, not_hex_after)
                    || c.spec.find(&format!("-g{p}")).map_or(false, |at| not_hex_after(&c.spec[at + 2 + p.len()..]))
            });
            if g.contains("is ambiguous") || g.ends_with(" ambiguous") || names_ambiguous_prefix {
                // deliberate: gitoxide disambiguates short ids through the following navigation/peel where git gives up
                // (gix tests `parse_spec_better_than_baseline`, "git can't do that for some reason")
                return ok_trivial("git-ambiguous/gix-disambiguates-by-transformation");
            }
            if c.spec == ".." {
                // deliberate: gix test freestanding_double_or_triple_dot_defaults_to_head_refs ("git can't communicate what it does here")
                return ok_trivial("lone-dotdot-is-HEAD..HEAD-in-gix (deliberate)");
            }
            if c.spec.contains("...") && g.contains("not a commit") {
                // git fails while computing merge bases, which is not part of resolving the spec
                return ok_trivial("git-needs-commits-for-merge-base");
            }
            bad(&class_of("gix-resolves-what-git-rejects", ""), format!("repo {} spec {:?}: git: {g}; gix: {r:?}", fx.name, c.spec))
        }
        (Outcome::Revs(r), Outcome::Error(e)) => {
            if reflog_group_followed_by_brace_group(&c.spec) {
                // git answers every such spec whose regular interpretation fails by parsing "n}^{..." as a date (`@{<date>}`)
                return ok_trivial("git-date-parser-fallback");
            }
            bad(&class_of("gix-rejects-what-git-resolves", e), format!("repo {} spec {:?}: git: {r:?}; gix: {e}", fx.name, c.spec))
        }
        (Outcome::Revs(w), Outcome::Revs(g)) => {
            let same = if shape == "merge" {
                // git additionally prints the merge bases as exclusions; only the two tips come from the spec itself
                w.len() >= 2 && w[..2] == g[..] && w[2..].iter().all(|l| l.starts_with('^'))
            } else {
                w == g
            };
            if same {
                ok(format!("same/{shape}"))
            } else {
                bad(&class_of("differs", ""), format!("repo {} spec {:?}: git: {w:?}; gix ({shape}): {g:?}", fx.name, c.spec))
            }
        }
    }
}

/// `...@{n}...^{...}`: a reflog (or similar) group that is later followed by a `^{` group.
fn reflog_group_followed_by_brace_group(spec: &str) -> bool {
    spec.find("@{").map_or(false, |p| spec[p..].find('}').map_or(false, |q| spec[p + q..].contains("^{")))
}

/// Known root causes of disagreements, named so that each known finding matches exactly one of them.
fn diagnose(spec: &str, fx: &Fixture, kind: &str, gix_err: &str) -> Option<&'static str> {
    let repo = fx.name;
    let groups = spec.matches("@{").count();
    if spec.starts_with("@@") {
        return Some("at-sign-before-at-brace");
    }
    if spec.contains("~0") {
        return Some("tilde-zero-is-noop");
    }
    if spec.contains("^{/}") {
        return Some("empty-regex-is-noop");
    }
    if groups >= 2 && kind == "gix-rejects-what-git-resolves" && gix_err.contains("could not be parsed: \"@{") {
        return Some("chained-at-brace-groups");
    }
    if spec.contains("^-") && kind == "gix-rejects-what-git-resolves" && gix_err.contains("could not be parsed: \"-") {
        return Some("parent-range-shorthand-needs-plain-name");
    }
    if spec.contains("^-") && kind == "differs" {
        return Some("parent-range-shorthand-ignores-preceding-navigation");
    }
    if spec.starts_with(":/") && (spec.contains("^!") || spec.contains("^@") || spec.contains("^-")) {
        return Some("top-level-regex-swallows-parent-shorthand");
    }
    if spec.starts_with("dup@{") {
        return Some("reflog-of-name-shared-by-tag-and-branch");
    }
    if spec.starts_with("HEAD@{u") || spec.starts_with("HEAD@{push") {
        return Some("upstream-of-symbolic-HEAD");
    }
    if (spec.starts_with("heads/") || spec.starts_with("refs/")) && (spec.contains("@{u") || spec.contains("@{push")) && kind == "gix-resolves-what-git-rejects" {
        return Some("upstream-of-non-branch-spelling");
    }
    if spec.starts_with("^^{/") || spec.starts_with("^{/") {
        return Some("regex-peel-without-anchor");
    }
    if repo == "detached" && spec.contains("@{0}") {
        return Some("reflog-entry-zero-without-reflog");
    }
    if spec.contains("..") && (spec.contains("^!") || spec.contains("^@")) && kind == "gix-resolves-what-git-rejects" {
        return Some("range-followed-by-parent-shorthand");
    }
    // only the one name that really is an object prefix as well: the same error for any other name is a different defect
    if groups == 1
        && kind == "gix-rejects-what-git-resolves"
        && gix_err.contains("Reflog entries require a ref name")
        && !fx.ref_that_is_also_a_prefix.is_empty()
        && spec.strip_prefix(fx.ref_that_is_also_a_prefix.as_str()).map_or(false, |rest| rest.starts_with("@{"))
    {
        return Some("reflog-of-hex-named-ref");
    }
    let describe_like = spec.find("-g").map_or(false, |p| spec[p + 2..].bytes().take_while(u8::is_ascii_hexdigit).count() >= 4);
    if describe_like && kind == "gix-rejects-what-git-resolves" && gix_err.contains("is ambiguous") {
        return Some("describe-prefix-not-disambiguated-as-commit");
    }
    None
}

fn compose(anchors: &[String], suffixes: &[&str], depth: usize, finals: &[&str], emit: &mut dyn FnMut(String)) {
    for a in anchors {
        vkit::enumerate::seqs(suffixes, 0, depth, |ss| {
            // `:/regex` takes the rest of the spec as regular expression; `@{...}` is only meaningful directly after a name
            if (a.starts_with(":/") && !ss.is_empty()) || ss.iter().skip(1).any(|x| x.starts_with("@{")) {
                return;
            }
            let mut s = a.clone();
            for x in ss {
                s.push_str(x);
            }
            emit(s.clone());
            // `:path`-like suffixes end a spec; "final" suffixes (ranges built from parents) are only tried at the end
            if ss.len() < depth || depth == 0 {
                for f in finals {
                    emit(format!("{s}{f}"));
                }
            }
        });
    }
}

pub fn run(run: &'static Run) {
    let thorough = !run.quick();
    let fixtures = build_fixtures();
    let fixtures = &fixtures;
    run.rule(format!(
        "spec = anchor + up to d suffixes, the last of which may be a 'final' suffix; anchors of repo main/packed: {:?}; \
         suffixes: all = {:?} + {:?}, deep = {:?}, final = {:?}; \
         bounds: every repo d<=1 over all suffixes; main d<={} over the deep suffixes{}; \
         final forms: quick = ^! ^@ ^- after every bare main anchor; thorough = all six after every bare anchor of every repo, and ^! ^@ ^- ^-2 after main anchor + one deep suffix; \
         generation rules: nothing but final forms is appended to ':/regex' anchors, '@{{..}}' suffixes only directly after the anchor, anchors git aborts on are used bare; \
         ranges: '^a', 'a..b', 'a...b' for every ordered pair of 15 revs (quick: 10 on main, 5 on detached/empty; incl. empty, missing and ambiguous ones) plus 10 malformed range forms, plus hex-prefix/describe-name x ref@{{..}} ranges in both orders (quick 3x4, thorough 8x7) and '^ref@{{..}}', on main, detached, empty{}. \
         Non-trivial = git resolves the spec.",
        fixtures[0].anchors,
        SUFFIX_CORE,
        SUFFIX_MORE,
        SUFFIX_DEEP,
        SUFFIX_FINAL,
        run.pick(2, 3),
        run.pick("", "; main and packed d<=2 over all suffixes"),
        run.pick("", ", packed"),
    ));
    run.assume("oracle: git 2.39.5; specs that name one object (no leading ^, no range, no ^! ^@ ^-) are resolved by one `git cat-file --batch-check` per fixture (same get_oid_with_context() as rev-parse; cross-checked against rev-parse for all specs with <= 1 suffix in the thorough tier), all other specs by `git rev-parse --end-of-options <spec> --`; outcome = printed revisions (with ^ markers) or failure; error texts are not compared");
    run.assume("excluded because gitoxide documents it as not implemented (Error::Planned): reflog lookup by date `@{<date>}`");
    run.assume("excluded: describe output with a '-dirty' suffix ('<hex>-dirty'), which gitoxide accepts on purpose (gix-revision tests partial_format_with_dirty_suffix_is_recognized) and git rejects");
    run.assume("not compared (deliberate, tested gitoxide behaviour): short ids that git reports as ambiguous but gitoxide disambiguates through the navigation/peel that follows (gix tests parse_spec_better_than_baseline)");
    run.assume("not compared (deliberate, tested): a lone `..` is HEAD..HEAD in gitoxide (test freestanding_double_or_triple_dot_defaults_to_head_refs), git treats it as the parent directory path");
    run.assume("not compared: `a...b` where git fails with 'not a commit' while computing merge bases; specs with a `^{...}` group after an `@{...}` group that gitoxide rejects (git resolves every such failing spec through its approxidate fallback, i.e. the excluded @{<date>} feature)");
    run.assume("regular expressions are restricted to constructs that mean the same in POSIX basic (git) and Rust regex syntax: literals, '.', '^', ' '");
    run.assume("`A...B`: only the two tips are compared (git additionally prints the merge bases, which the spec itself does not name)");
    run.assume("fixtures: main = 6 commits incl. a merge, lightweight/annotated/nested/tree/blob tags, branch+tag of the same name, hex-looking branch names, remote tracking + upstream config, reflogs with checkouts, a blob and a commit crafted to share 4-hex prefixes with commits; packed = same with pack + packed-refs; detached = detached HEAD without reflogs; empty = unborn HEAD");
    run.budget_secs(std::env::var("VERIF_BUDGET").ok().and_then(|s| s.parse().ok()).unwrap_or(run.pick(120.0, 1500.0)));

    let all: Vec<&str> = SUFFIX_CORE.iter().chain(SUFFIX_MORE).copied().collect();
    let all = &all;
    let few_finals: &[&str] = &["^!", "^@", "^-", "^-2"];

    // ---- anchors on which git aborts (`fatal: log for 'refs/heads/main' only has 3 entries`): every longer spec fails the same way
    // and each costs the batch oracle a process restart, so they are used bare only
    let alive: Vec<Vec<String>> = fixtures
        .iter()
        .enumerate()
        .map(|(i, fx)| {
            let mut probe = HashMap::new();
            let bare: Vec<&str> = fx.anchors.iter().map(String::as_str).filter(|a| names_single_object(a)).collect();
            batch_oracle(&fx.dir, &bare, i as u8, &mut probe);
            fx.anchors.iter().filter(|a| !matches!(probe.get(&(i as u8, a.to_string())), Some(Outcome::Error(e)) if e.starts_with("fatal:"))).cloned().collect()
        })
        .collect();
    let quick_finals: &[&str] = &["^!", "^@", "^-"];

    // ---- generate every case up front (the batch oracle needs the complete list)
    let mut single: Vec<Case> = Vec::new();
    {
        let mut seen = std::collections::HashSet::new();
        let mut out = |repo: u8, spec: String| {
            if seen.insert((repo, spec.clone())) {
                single.push(Case { repo, spec });
            }
        };
        // simplest first: depth 0/1 everywhere, then the deep compositions
        for (i, fx) in fixtures.iter().enumerate() {
            // every final form costs one git process: quick tries three of them, on main only
            let finals = if thorough { SUFFIX_FINAL } else if i == 0 { quick_finals } else { &[] };
            for a in &fx.anchors {
                out(i as u8, a.clone());
            }
            compose(&alive[i], all, 1, finals, &mut |s| out(i as u8, s));
        }
        if std::env::var("VERIF_C48_SHALLOW").is_err() {
            let main_alive = alive[0].clone();
            if thorough {
                let packed_alive = alive[1].clone();
                compose(&main_alive, SUFFIX_DEEP, 3, &[], &mut |s| out(0, s));
                compose(&main_alive, SUFFIX_DEEP, 2, few_finals, &mut |s| out(0, s));
                compose(&main_alive, all, 2, &[], &mut |s| out(0, s));
                compose(&packed_alive, all, 2, &[], &mut |s| out(1, s));
            } else {
                compose(&main_alive, SUFFIX_DEEP, 2, &[], &mut |s| out(0, s));
            }
        }
    }
    let mut range: Vec<Case> = Vec::new();
    {
        let m = &fixtures[0];
        let c2_4 = m.anchors.iter().find(|a| a.len() == 4 && a.bytes().all(|b| b.is_ascii_hexdigit()) && *a != "0000" && *a != "abcd").cloned().unwrap_or_default();
        let revs: Vec<String> =
            ["HEAD", "@", "main", "side", "v1", "vv", "ttree", "tblob", "HEAD~2", "side^", "main^2", "@{-1}", "nonexistent", ""].iter().map(|s| s.to_string()).chain([c2_4]).collect();
        for repo in [0u8, 1, 2, 3] {
            if repo == 1 && !thorough {
                continue;
            }
            // quick: the full pair matrix on main only, a 5x5 matrix elsewhere
            let revs: Vec<String> = if thorough {
                revs.clone()
            } else if repo == 0 {
                revs.iter().filter(|r| !["@", "vv", "tblob", "side^", "HEAD~2"].contains(&r.as_str())).cloned().collect()
            } else { revs.iter().filter(|r| ["HEAD", "@", "main", "nonexistent", ""].contains(&r.as_str())).cloned().collect() };
            for a in &revs {
                range.push(Case { repo, spec: format!("^{a}") });
                for b in &revs {
                    for op in ["..", "..."] {
                        range.push(Case { repo, spec: format!("{a}{op}{b}") });
                    }
                }
            }
            for s in ["..", "...", "....", "HEAD..main..side", "^HEAD..main", "^^HEAD", "HEAD^!..main", "HEAD..main^!", "HEAD^@..main", "main..side^-"] {
                range.push(Case { repo, spec: s.to_string() });
            }
        }
    }

    {
        // a hex prefix (or describe name) on one side, a ref with an `@{...}` group on the other, both orders
        let m = &fixtures[0];
        let hexish: Vec<String> = m.anchors.iter().filter(|a| {
            let plain_hex = a.len() >= 6 && a.len() < 40 && a.bytes().all(|b| b.is_ascii_hexdigit());
            plain_hex || a.starts_with("anything-g")
        }).take(if thorough { 8 } else { 3 }).cloned().collect();
        let braced = ["main@{1}", "main@{u}", "HEAD@{1}", "@{1}", "side@{0}", "abcd@{0}", "@{-1}"];
        for repo in if thorough { vec![0u8, 1] } else { vec![0u8] } {
            for h in &hexish {
                for b in braced.iter().take(if thorough { 7 } else { 4 }) {
                    for op in ["..", "..."] {
                        range.push(Case { repo, spec: format!("{h}{op}{b}") });
                        range.push(Case { repo, spec: format!("{b}{op}{h}") });
                    }
                }
            }
            for b in braced {
                range.push(Case { repo, spec: format!("^{b}") });
            }
        }
    }

    // ---- batch oracle for specs that name a single object: one `git cat-file --batch-check` per repository
    if !run.is_replay() {
        let mut map = HashMap::new();
        for (i, fx) in fixtures.iter().enumerate() {
            let specs: Vec<&str> = single.iter().filter(|c| c.repo as usize == i && names_single_object(&c.spec)).map(|c| c.spec.as_str()).collect();
            batch_oracle(&fx.dir, &specs, i as u8, &mut map);
        }
        run.cov("oracle_answers_from_cat_file_batch", map.len());
        let _ = BATCH.set(map);
    }

    run.sub_with("single", vkit::Opts::default().chunk(4096), |emit| single.into_iter().for_each(emit), |c: &Case| evaluate(fixtures, c));
    run.sub_with("range", vkit::Opts::default().chunk(2048), |emit| range.into_iter().for_each(emit), |c: &Case| evaluate(fixtures, c));

    // ---- the batch oracle itself is cross-checked against `git rev-parse` (thorough): all specs with <= 1 suffix on main
    if thorough && !run.is_replay() {
        let mut specs = Vec::new();
        compose(&alive[0], SUFFIX_DEEP, 1, &[], &mut |s| specs.push(s));
        run.sub_with(
            "oracle-cross-check",
            vkit::Opts::default().chunk(1024),
            |emit| specs.into_iter().filter(|s| names_single_object(s)).for_each(|spec| emit(Case { repo: 0, spec })),
            |c: &Case| {
                let fx = &fixtures[c.repo as usize];
                let a = git_outcome(&fx.dir, &c.spec);
                let b = BATCH.get().and_then(|m| m.get(&(c.repo, c.spec.clone())).cloned());
                match (a, b) {
                    (_, None) => ok_trivial("not-answered-by-batch"),
                    (Outcome::Revs(x), Some(Outcome::Revs(y))) if x == y => ok_trivial("oracles-agree/revs"),
                    (Outcome::Error(_), Some(Outcome::Error(_))) => ok_trivial("oracles-agree/error"),
                    (a, b) => vkit::machinery!("cat-file --batch-check and rev-parse disagree on {:?}: {a:?} vs {b:?}", c.spec),
                }
            },
        );
    }

    run.cov("oracle_calls_git", GIT_CALLS.load(std::sync::atomic::Ordering::Relaxed));
    for class in ["same/single", "same/range", "same/merge", "same/exclude", "same/parents-only", "same/exclude-parents", "both-reject"] {
        require_unless_capped(run, &format!("outcome {class} was observed"), run.outcome_count(class) > 0);
    }
}

/// Vacuity guards only make sense for runs that were not cut short by the time budget (then evidence says exhaustive=false).
fn require_unless_capped(run: &Run, what: &str, cond: bool) {
    if !run.over_budget() {
        run.require(what, cond);
    }
}
