mod c51;
mod sched;
use vkit::{Check, Level};
fn main() {
    vkit::main(&[Check { id: "C51", level: Level::ModelChecking, run: c51::run }]);
}
