mod c10s;
mod c12;
mod c16s;
mod c22s;
mod c24s;
mod c51;
mod sched;
use vkit::{Check, Level};
fn main() {
    // helper mode for vcrash's C22 (thread schedules of gix-lock): one scenario per process
    let args: Vec<String> = std::env::args().collect();
    if args.get(1).map(String::as_str) == Some("--c10-sched") {
        std::process::exit(c10s::run_child(args.get(2).map_or("", String::as_str)));
    }
    if args.get(1).map(String::as_str) == Some("--c16-sched") {
        std::process::exit(c16s::run_child(args.get(2).map_or("", String::as_str)));
    }
    if args.get(1).map(String::as_str) == Some("--c24-sched") {
        std::process::exit(c24s::run_child(args.get(2).map_or("", String::as_str)));
    }
    if args.get(1).map(String::as_str) == Some("--c22-sched") {
        std::process::exit(c22s::run_child(args.get(2).map_or("", String::as_str)));
    }
    vkit::main(&[
        Check { id: "C51", level: Level::ModelChecking, run: c51::run },
        Check { id: "C12", level: Level::ModelChecking, run: c12::run },
    ]);
}
