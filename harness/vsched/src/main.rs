mod c12;
mod c51;
mod sched;
use vkit::{Check, Level};
fn main() {
    vkit::main(&[
        Check { id: "C51", level: Level::ModelChecking, run: c51::run },
        Check { id: "C12", level: Level::ModelChecking, run: c12::run },
    ]);
}
