//! C22, thread schedules: 2..3 real threads acquire / write / commit / drop gix-lock locks on ONE resource below not yet existing
//! directories, on the real file system, under the controlled scheduler. Scheduling points: every directory creation / removal step of
//! gix-fs (`dir::create::Iter::next`, `dir::remove::Iter::{new,next}`), the creation of the lock file, its rename (persist), its removal
//! (drop), every access to gix-tempfile's registry mutex and its id counter. All interleavings with at most b preemptions are run.
//!
//! This module is not a check of its own: `vcrash`'s C22 spawns this binary once per scenario (`--c22-sched <json>`), because the
//! registry of gix-tempfile is a process-wide static and executions must therefore not run concurrently inside one process.
use crate::sched::{explore, Explored};
use serde::{Deserialize, Serialize};
use std::path::{Path, PathBuf};
use std::sync::atomic::{AtomicUsize, Ordering};
use std::sync::{Arc, Mutex};
use std::time::{Duration, Instant};

#[derive(Serialize, Deserialize, Clone, Copy, Hash, Debug, PartialEq, Eq)]
pub enum Op {
    /// acquire_to_update_resource, write, commit
    WriteCommit,
    /// acquire_to_update_resource, write, close() to a Marker, commit
    WriteCloseCommit,
    /// acquire_to_update_resource, write, drop
    WriteDrop,
    /// acquire_to_hold_resource (Marker), drop
    MarkDrop,
    /// acquire_to_update_resource without a boundary directory (directories must exist), write, commit
    NoBoundaryCommit,
}

#[derive(Serialize, Deserialize, Clone, Hash, Debug)]
pub struct Scn {
    pub name: String,
    /// per thread: (operation, resource index 0|1)
    pub threads: Vec<Vec<(Op, usize)>>,
    /// resource 1 lives in a sibling directory of resource 0's (sharing all but the last directory) instead of next to it
    pub sibling: bool,
    /// directories between the boundary and the resource that do not exist at the start
    pub depth: usize,
    /// the resource exists (content "old") - then its directories exist, too
    pub resource_exists: bool,
    pub bound: usize,
    pub secs: u64,
    pub schedule: Option<Vec<usize>>,
}

#[derive(Serialize, Deserialize, Debug)]
pub struct Report {
    pub executions: u64,
    pub decisions: u64,
    pub max_steps: usize,
    pub complete: bool,
    pub outcomes: std::collections::BTreeMap<String, u64>,
    pub failure: Option<(Vec<usize>, String)>,
    pub per_bound: Vec<(usize, u64)>,
}

static COUNTER: AtomicUsize = AtomicUsize::new(0);

fn scratch_root() -> PathBuf {
    let base = if Path::new("/dev/shm").is_dir() { "/dev/shm" } else { "/tmp" };
    PathBuf::from(format!("{base}/verif.{}", std::process::id()))
}

fn listing(dir: &Path, rel: &str, out: &mut Vec<String>) {
    if let Ok(rd) = std::fs::read_dir(dir) {
        for e in rd.flatten() {
            let name = e.file_name().to_string_lossy().into_owned();
            let r = if rel.is_empty() { name.clone() } else { format!("{rel}/{name}") };
            if e.file_type().map_or(false, |t| t.is_dir()) {
                out.push(format!("{r}/"));
                listing(&e.path(), &r, out);
            } else {
                out.push(r);
            }
        }
    }
    out.sort();
}

#[derive(Debug, Clone)]
struct Event {
    thread: usize,
    res: usize,
    committed: Option<Vec<u8>>,
}

fn body(scn: &Scn) -> Result<String, String> {
    use std::io::Write;
    let n = COUNTER.fetch_add(1, Ordering::SeqCst);
    let root = scratch_root().join(format!("c22s-{n}"));
    let boundary = root.join("b");
    std::fs::create_dir_all(&boundary).map_err(|e| format!("MACHINERY: {e}"))?;
    // resource 0: b/d0/../d{depth-1}/res0; resource 1: next to it (res1) or, with `sibling`, in b/d0/../e{depth-1}/res1
    let mut dirs: [PathBuf; 2] = [boundary.clone(), boundary.clone()];
    for i in 0..scn.depth {
        dirs[0] = dirs[0].join(format!("d{i}"));
        dirs[1] = dirs[1].join(if scn.sibling && i + 1 == scn.depth { format!("e{i}") } else { format!("d{i}") });
    }
    let resources: [PathBuf; 2] = [dirs[0].join("res0"), dirs[1].join("res1")];
    let rel = |p: &Path| p.strip_prefix(&boundary).unwrap().to_string_lossy().into_owned();
    if scn.resource_exists {
        for r in 0..2 {
            std::fs::create_dir_all(&dirs[r]).map_err(|e| format!("MACHINERY: {e}"))?;
            std::fs::write(&resources[r], b"old").map_err(|e| format!("MACHINERY: {e}"))?;
        }
    }
    let holders: Arc<[AtomicUsize; 2]> = Arc::new([AtomicUsize::new(0), AtomicUsize::new(0)]);
    let log: Arc<Mutex<Vec<Event>>> = Default::default();
    let acquire_results: Arc<Mutex<Vec<String>>> = Default::default();
    let problems: Arc<Mutex<Vec<String>>> = Default::default();

    let mut joins = Vec::new();
    for (t, ops) in scn.threads.iter().cloned().enumerate() {
        let (resources, boundary, holders, log, acquire_results, problems) =
            (resources.clone(), boundary.clone(), holders.clone(), log.clone(), acquire_results.clone(), problems.clone());
        joins.push(shuttle::thread::spawn(move || {
            for (j, (op, r)) in ops.into_iter().enumerate() {
                let resource = resources[r].clone();
                let content = format!("t{t}o{j}").into_bytes();
                let enter = |what: &str| {
                    let h = holders[r].fetch_add(1, Ordering::SeqCst) + 1;
                    if h > 1 {
                        problems.lock().unwrap().push(format!("two-holders: thread {t} acquired the lock of resource {r} ({what}) while {} other holder(s) had it", h - 1));
                    }
                };
                let leave = || {
                    holders[r].fetch_sub(1, Ordering::SeqCst);
                };
                let note = |r: &Result<(), gix_lock::acquire::Error>| {
                    acquire_results.lock().unwrap().push(match r {
                        Ok(()) => "ok".into(),
                        Err(gix_lock::acquire::Error::PermanentlyLocked { .. }) => "locked".into(),
                        Err(gix_lock::acquire::Error::Io(e)) => format!("io-{:?}", e.kind()),
                    });
                };
                match op {
                    Op::MarkDrop => match gix_lock::Marker::acquire_to_hold_resource(&resource, gix_lock::acquire::Fail::Immediately, Some(boundary.clone())) {
                        Ok(m) => {
                            note(&Ok(()));
                            enter("marker");
                            log.lock().unwrap().push(Event { thread: t, res: r, committed: None });
                            leave();
                            drop(m);
                        }
                        Err(e) => note(&Err(e)),
                    },
                    _ => {
                        let b = if op == Op::NoBoundaryCommit { None } else { Some(boundary.clone()) };
                        match gix_lock::File::acquire_to_update_resource(&resource, gix_lock::acquire::Fail::Immediately, b) {
                            Ok(mut f) => {
                                note(&Ok(()));
                                enter("file");
                                if let Err(e) = f.write_all(&content) {
                                    problems.lock().unwrap().push(format!("write-failed: thread {t}: {e}"));
                                }
                                match op {
                                    Op::WriteDrop => {
                                        log.lock().unwrap().push(Event { thread: t, res: r, committed: None });
                                        leave();
                                        drop(f);
                                    }
                                    Op::WriteCloseCommit => match f.close() {
                                        Ok(m) => {
                                            log.lock().unwrap().push(Event { thread: t, res: r, committed: Some(content.clone()) });
                                            leave();
                                            if let Err(e) = m.commit() {
                                                problems.lock().unwrap().push(format!("commit-failed: thread {t}: {}", e.error));
                                            }
                                        }
                                        Err(e) => {
                                            leave();
                                            problems.lock().unwrap().push(format!("close-failed: thread {t}: {e}"));
                                        }
                                    },
                                    _ => {
                                        log.lock().unwrap().push(Event { thread: t, res: r, committed: Some(content.clone()) });
                                        leave();
                                        if let Err(e) = f.commit() {
                                            problems.lock().unwrap().push(format!("commit-failed: thread {t}: {}", e.error));
                                        }
                                    }
                                }
                            }
                            Err(e) => note(&Err(e)),
                        }
                    }
                }
            }
        }));
    }
    for j in joins {
        j.join().map_err(|_| "panic: a lock holder thread panicked".to_string())?;
    }

    // ---- oracle on the final state
    let finish = |r: Result<String, String>| {
        std::fs::remove_dir_all(&root).ok();
        r
    };
    if let Some(p) = problems.lock().unwrap().first() {
        return finish(Err(p.clone()));
    }
    let log = log.lock().unwrap().clone();
    let results = acquire_results.lock().unwrap().clone();
    let mut files = Vec::new();
    listing(&boundary, "", &mut files);
    if let Some(l) = files.iter().find(|f| f.ends_with(".lock")) {
        return finish(Err(format!("lock-left: {l} exists after every holder committed or dropped its lock; listing {files:?}")));
    }
    let clean = results.iter().all(|r| r == "ok" || r == "locked");
    let mut expected_files: Vec<String> = Vec::new();
    let mut finals = Vec::new();
    for r in 0..2 {
        let last_commit = log.iter().rev().find(|e| e.res == r).and_then(|_| log.iter().rev().filter(|e| e.res == r).find_map(|e| e.committed.clone()));
        let expected_content: Option<Vec<u8>> = last_commit.or(scn.resource_exists.then(|| b"old".to_vec()));
        let actual = std::fs::read(&resources[r]).ok();
        if actual != expected_content {
            return finish(Err(format!(
                "content: resource {r} holds {:?} but the last committing holder (order of critical sections {:?}) wrote {:?}",
                actual.as_deref().map(String::from_utf8_lossy),
                log.iter().filter(|e| e.res == r).map(|e| (e.thread, e.committed.is_some())).collect::<Vec<_>>(),
                expected_content.as_deref().map(String::from_utf8_lossy)
            )));
        }
        if expected_content.is_some() {
            let mut d = dirs[r].clone();
            while d != boundary {
                expected_files.push(format!("{}/", rel(&d)));
                d.pop();
            }
            expected_files.push(rel(&resources[r]));
        }
        finals.push(expected_content.map_or("absent".into(), |c| String::from_utf8_lossy(&c).into_owned()));
    }
    expected_files.sort();
    expected_files.dedup();
    if clean && files != expected_files {
        return finish(Err(format!("leftovers: below the boundary there is {files:?}, expected {expected_files:?} (acquire results {results:?})")));
    }
    if !clean {
        // an acquisition lost a race against the directory cleanup of another holder (reported as an io error): empty directories
        // may stay behind, but nothing else
        let unexpected: Vec<&String> = files.iter().filter(|f| !f.ends_with('/') && !expected_files.contains(f)).collect();
        if !unexpected.is_empty() {
            return finish(Err(format!("leftovers: unexpected files {unexpected:?}")));
        }
    }
    let mut r = results.clone();
    r.sort();
    finish(Ok(format!("acquire={} commits={} final={}", r.join(","), log.iter().filter(|e| e.committed.is_some()).count(), finals.join("/"))))
}

pub fn run_child(json: &str) -> i32 {
    let scn: Scn = match serde_json::from_str(json) {
        Ok(s) => s,
        Err(e) => {
            eprintln!("MACHINERY: bad scenario: {e}");
            return 2;
        }
    };
    if scn.schedule.is_some() && std::env::var_os("VSCHED_TRACE").is_some() {
        gix_features::verif_sched::TRACE.store(true, Ordering::Relaxed);
    }
    let deadline = Instant::now() + Duration::from_secs(scn.secs);
    // iterative context bounding: all schedules with 0 preemptions, then <= 1, ... up to the scenario's bound (a fixed schedule is replayed once)
    let mut rep = Report { executions: 0, decisions: 0, max_steps: 0, complete: true, outcomes: Default::default(), failure: None, per_bound: Vec::new() };
    let bounds: Vec<usize> = if scn.schedule.is_some() { vec![scn.bound] } else { (0..=scn.bound).collect() };
    for b in bounds {
        let s2 = scn.clone();
        let ex: Explored = explore(b, u64::MAX, deadline, scn.schedule.clone(), move || body(&s2));
        rep.executions += ex.executions;
        rep.decisions += ex.decisions;
        rep.max_steps = rep.max_steps.max(ex.max_steps);
        rep.complete &= ex.complete;
        rep.per_bound.push((b, ex.executions));
        for (k, v) in ex.outcomes {
            *rep.outcomes.entry(k).or_default() += v;
        }
        if let Some(f) = ex.failure {
            rep.failure = Some((f.schedule, format!("{} [preemption bound {b}]", f.what)));
            break;
        }
        if !ex.complete {
            break;
        }
    }
    std::fs::remove_dir_all(scratch_root()).ok();
    println!("C22S-REPORT {}", serde_json::to_string(&rep).unwrap());
    0
}
