//! E3 engine: iterative preemption-bounded depth-first exploration of all interleavings of real threads,
//! as a `shuttle::scheduler::Scheduler`.
//!
//! * canonical choice order: the running thread first (if still runnable and not yielding), then the other runnable
//!   threads in ascending task id; a yielding thread goes last and leaving it is free (fair: spin loops terminate);
//! * switching away from a still-runnable, non-yielding thread costs one preemption; with the budget used up only
//!   the running thread may continue;
//! * every execution runs to completion; "no runnable thread" = deadlock and "step horizon exceeded" = livelock are
//!   reported by the shuttle runtime as panics, which we turn into failures carrying the schedule;
//! * the schedule of an execution is its list of choice indices; replay feeds the list back and any divergence
//!   (choice out of range) is a hard error.
use shuttle::scheduler::{Schedule, Scheduler, Task, TaskId};
use std::collections::BTreeMap;
use std::sync::{Arc, Mutex};
use std::time::Instant;

#[derive(Default)]
pub struct Shared {
    /// choices of the execution currently running (index into the canonical order at each decision)
    pub current: Vec<usize>,
    pub stop: bool,
    pub executions: u64,
    pub decisions: u64,
    pub max_steps: usize,
    pub diverged: Option<String>,
}

struct Pb {
    bound: usize,
    levels: Vec<(usize, usize)>,
    step: usize,
    preempt: usize,
    started: bool,
    shared: Arc<Mutex<Shared>>,
    max_execs: u64,
    deadline: Instant,
    /// Some = replay exactly this schedule once
    fixed: Option<Vec<usize>>,
    pub capped: Arc<Mutex<bool>>,
}

impl Scheduler for Pb {
    fn new_execution(&mut self) -> Option<Schedule> {
        let mut sh = self.shared.lock().unwrap();
        if sh.stop {
            return None;
        }
        if self.started {
            if self.fixed.is_some() {
                return None;
            }
            loop {
                match self.levels.pop() {
                    None => return None,
                    Some((c, n)) => {
                        if c + 1 < n {
                            self.levels.push((c + 1, n));
                            break;
                        }
                    }
                }
            }
            if sh.executions >= self.max_execs || Instant::now() > self.deadline {
                *self.capped.lock().unwrap() = true;
                return None;
            }
        }
        self.started = true;
        self.step = 0;
        self.preempt = 0;
        sh.current.clear();
        sh.executions += 1;
        Some(Schedule::new(0))
    }

    fn next_task(&mut self, runnable: &[&Task], current: Option<TaskId>, yielding: bool) -> Option<TaskId> {
        let mut order: Vec<TaskId> = Vec::with_capacity(runnable.len());
        let cur_enabled = current.map_or(false, |c| runnable.iter().any(|t| t.id() == c));
        if cur_enabled && !yielding {
            order.push(current.unwrap());
        }
        let mut others: Vec<TaskId> = runnable.iter().map(|t| t.id()).filter(|id| Some(*id) != current).collect();
        others.sort_by_key(|id| usize::from(*id));
        order.extend(others);
        if cur_enabled && yielding && order.is_empty() {
            order.push(current.unwrap());
        }
        let free_switch = !cur_enabled || yielding;
        let n_allowed = if !free_switch && self.preempt >= self.bound { 1 } else { order.len() };
        let choice = if let Some(fixed) = &self.fixed {
            match fixed.get(self.step) {
                Some(&c) if c < order.len() => c,
                Some(&c) => {
                    self.shared.lock().unwrap().diverged =
                        Some(format!("replay diverged at step {}: choice {c} but only {} runnable", self.step, order.len()));
                    0
                }
                None => 0,
            }
        } else if self.step < self.levels.len() {
            self.levels[self.step].0.min(n_allowed - 1)
        } else {
            self.levels.push((0, n_allowed));
            0
        };
        if !free_switch && choice > 0 {
            self.preempt += 1;
        }
        if self.fixed.is_some() && std::env::var("VSCHED_DEBUG").is_ok() {
            eprintln!(
                "  sched step={} current={:?} yielding={yielding} runnable={:?} order={:?} choice={choice} preempt={}",
                self.step,
                current.map(usize::from),
                runnable.iter().map(|t| usize::from(t.id())).collect::<Vec<_>>(),
                order.iter().map(|t| usize::from(*t)).collect::<Vec<_>>(),
                self.preempt
            );
        }
        self.step += 1;
        let mut sh = self.shared.lock().unwrap();
        sh.current.push(choice);
        sh.decisions += 1;
        sh.max_steps = sh.max_steps.max(self.step);
        Some(order[choice])
    }

    fn next_u64(&mut self) -> u64 {
        0
    }
}

pub struct Failure {
    pub schedule: Vec<usize>,
    pub what: String,
}

pub struct Explored {
    pub bound: usize,
    pub executions: u64,
    pub decisions: u64,
    pub max_steps: usize,
    /// false if the execution cap or the deadline stopped the search before the space for this bound was finished
    pub complete: bool,
    pub outcomes: BTreeMap<String, u64>,
    pub failure: Option<Failure>,
}

fn config() -> shuttle::Config {
    let mut cfg = shuttle::Config::default();
    cfg.stack_size = 1 << 20;
    cfg.max_steps = shuttle::MaxSteps::FailAfter(200_000);
    cfg.failure_persistence = shuttle::FailurePersistence::None;
    cfg.silence_warnings = true;
    cfg
}

/// Explore every schedule of `body` with at most `bound` preemptions. `body` returns `Ok(observation class)` or
/// `Err(violation)`; the first violation (or panic/deadlock/livelock) stops the search and is returned with its schedule.
pub fn explore<F>(bound: usize, max_execs: u64, deadline: Instant, fixed: Option<Vec<usize>>, body: F) -> Explored
where
    F: Fn() -> Result<String, String> + Send + Sync + 'static,
{
    let shared = Arc::new(Mutex::new(Shared::default()));
    let capped = Arc::new(Mutex::new(false));
    let outcomes = Arc::new(Mutex::new(BTreeMap::<String, u64>::new()));
    let failure = Arc::new(Mutex::new(None::<Failure>));
    let pb = Pb {
        bound,
        levels: Vec::new(),
        step: 0,
        preempt: 0,
        started: false,
        shared: shared.clone(),
        max_execs,
        deadline,
        fixed,
        capped: capped.clone(),
    };
    let runner = shuttle::Runner::new(pb, config());
    let (sh2, out2, fail2) = (shared.clone(), outcomes.clone(), failure.clone());
    let res = vkit::catch(move || {
        runner.run(move || match body() {
            Ok(class) => {
                *out2.lock().unwrap().entry(class).or_default() += 1;
            }
            Err(v) => {
                let mut sh = sh2.lock().unwrap();
                sh.stop = true;
                let mut f = fail2.lock().unwrap();
                if f.is_none() {
                    *f = Some(Failure { schedule: sh.current.clone(), what: v });
                }
            }
        })
    });
    let sh = shared.lock().unwrap();
    let mut failure = failure.lock().unwrap().take();
    if let Err(panic) = res {
        // panic in the subject, deadlock or step-horizon (livelock) reported by the runtime
        let kind = if panic.contains("deadlock") {
            "deadlock"
        } else if panic.contains("exceeded max_steps") || panic.contains("max_steps") {
            "livelock"
        } else {
            "panic"
        };
        failure = Some(Failure { schedule: sh.current.clone(), what: format!("{kind}: {panic}") });
    }
    if let Some(d) = &sh.diverged {
        failure = Some(Failure { schedule: sh.current.clone(), what: format!("replay-diverged: {d}") });
    }
    let complete = !*capped.lock().unwrap() && failure.is_none();
    let outcomes = outcomes.lock().unwrap().clone();
    Explored { bound, executions: sh.executions, decisions: sh.decisions, max_steps: sh.max_steps, complete, outcomes, failure }
}
