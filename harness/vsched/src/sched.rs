//! E3 engine: iterative preemption-bounded depth-first exploration of all interleavings of real threads,
//! as a `shuttle::scheduler::Scheduler`.
//!
//! * canonical choice order: the running thread first (if still runnable and not yielding), then the other runnable
//!   threads in ascending task id; a yielding thread goes last and leaving it is free (fair: spin loops terminate);
//! * switching away from a still-runnable, non-yielding thread costs one preemption; with the budget used up only
//!   the running thread may continue;
//! * every execution runs to completion; "no runnable thread" = deadlock and "step horizon exceeded" = livelock are
//!   reported by the shuttle runtime as panics, which we turn into failures carrying the schedule;
//! * the schedule of an execution is its list of choice indices; replay feeds the list back and any divergence
//!   (choice out of range) is a hard error.
use shuttle::scheduler::{Schedule, Scheduler, Task, TaskId};
use std::collections::BTreeMap;
use std::sync::{Arc, Mutex};
use std::time::Instant;

#[derive(Default)]
pub struct Shared {
    /// choices of the execution currently running (index into the canonical order at each decision)
    pub current: Vec<usize>,
    pub stop: bool,
    pub executions: u64,
    pub decisions: u64,
    pub max_steps: usize,
    pub diverged: Option<String>,
}

struct Pb {
    bound: usize,
    levels: Vec<(usize, usize)>,
    step: usize,
    preempt: usize,
    started: bool,
    shared: Arc<Mutex<Shared>>,
    max_execs: u64,
    deadline: Instant,
    /// Some = replay exactly this schedule once
    fixed: Option<Vec<usize>>,
    pub capped: Arc<Mutex<bool>>,
    /// choices forced for the first steps (parallel exploration: this explorer owns the subtree below the prefix)
    prefix: Vec<usize>,
    /// Some(d) = discovery mode: branch only on the first d decisions, take choice 0 afterwards
    discover: Option<usize>,
    stop_all: Arc<std::sync::atomic::AtomicBool>,
    /// fair mode (Musuvathi/Qadeer, "Fair stateless model checking"): a thread that yields (polling loop, sleep) may not run again before
    /// every thread that is runnable at that moment has been scheduled once; needed when SEVERAL threads poll at the same time, which
    /// would otherwise starve the workers they are waiting for on the default schedule. `waits_for[t]` = threads that must run before t.
    fair: bool,
    waits_for: BTreeMap<usize, std::collections::BTreeSet<usize>>,
}

impl Scheduler for Pb {
    fn new_execution(&mut self) -> Option<Schedule> {
        let mut sh = self.shared.lock().unwrap();
        if sh.stop || self.stop_all.load(std::sync::atomic::Ordering::Relaxed) {
            return None;
        }
        if self.started {
            if self.fixed.is_some() {
                return None;
            }
            loop {
                match self.levels.pop() {
                    None => return None,
                    Some((c, n)) => {
                        if c + 1 < n {
                            self.levels.push((c + 1, n));
                            break;
                        }
                    }
                }
            }
            if sh.executions >= self.max_execs || Instant::now() > self.deadline {
                *self.capped.lock().unwrap() = true;
                return None;
            }
        }
        self.started = true;
        self.step = 0;
        self.preempt = 0;
        self.waits_for.clear();
        sh.current.clear();
        sh.executions += 1;
        Some(Schedule::new(0))
    }

    fn next_task(&mut self, runnable: &[&Task], current: Option<TaskId>, yielding: bool) -> Option<TaskId> {
        let mut order: Vec<TaskId> = Vec::with_capacity(runnable.len());
        let cur_enabled = current.map_or(false, |c| runnable.iter().any(|t| t.id() == c));
        if cur_enabled && !yielding {
            order.push(current.unwrap());
        }
        let mut others: Vec<TaskId> = runnable.iter().map(|t| t.id()).filter(|id| Some(*id) != current).collect();
        others.sort_by_key(|id| usize::from(*id));
        order.extend(others);
        if cur_enabled && yielding && order.is_empty() {
            order.push(current.unwrap());
        }
        if self.fair {
            let runnable_ids: std::collections::BTreeSet<usize> = runnable.iter().map(|t| usize::from(t.id())).collect();
            if let (Some(c), true) = (current, yielding) {
                let c = usize::from(c);
                let others: std::collections::BTreeSet<usize> = runnable_ids.iter().copied().filter(|t| *t != c).collect();
                self.waits_for.insert(c, others);
            }
            let allowed: Vec<TaskId> = order
                .iter()
                .copied()
                .filter(|t| self.waits_for.get(&usize::from(*t)).map_or(true, |w| w.iter().all(|u| !runnable_ids.contains(u))))
                .collect();
            if !allowed.is_empty() {
                order = allowed;
            }
        }
        let free_switch = !cur_enabled || yielding;
        let n_allowed = if !free_switch && self.preempt >= self.bound { 1 } else { order.len() };
        let choice = if let Some(fixed) = &self.fixed {
            match fixed.get(self.step) {
                Some(&c) if c < order.len() => c,
                Some(&c) => {
                    self.shared.lock().unwrap().diverged =
                        Some(format!("replay diverged at step {}: choice {c} but only {} runnable", self.step, order.len()));
                    0
                }
                None => 0,
            }
        } else if self.step < self.prefix.len() {
            // forced prefix: the discovery pass saw exactly this choice as allowed
            let c = self.prefix[self.step];
            if c >= n_allowed {
                self.shared.lock().unwrap().diverged =
                    Some(format!("prefix diverged at step {}: choice {c} but only {n_allowed} allowed", self.step));
                0
            } else {
                c
            }
        } else if self.discover.map_or(false, |d| self.step >= d) {
            0
        } else if self.step - self.prefix.len() < self.levels.len() {
            self.levels[self.step - self.prefix.len()].0.min(n_allowed - 1)
        } else {
            self.levels.push((0, n_allowed));
            0
        };
        if !free_switch && choice > 0 {
            self.preempt += 1;
        }
        if self.fixed.is_some() && std::env::var("VSCHED_DEBUG").is_ok() {
            eprintln!(
                "  sched step={} current={:?} yielding={yielding} runnable={:?} order={:?} choice={choice} preempt={}",
                self.step,
                current.map(usize::from),
                runnable.iter().map(|t| usize::from(t.id())).collect::<Vec<_>>(),
                order.iter().map(|t| usize::from(*t)).collect::<Vec<_>>(),
                self.preempt
            );
        }
        if self.fair {
            let chosen = usize::from(order[choice]);
            for w in self.waits_for.values_mut() {
                w.remove(&chosen);
            }
        }
        self.step += 1;
        let mut sh = self.shared.lock().unwrap();
        sh.current.push(choice);
        sh.decisions += 1;
        sh.max_steps = sh.max_steps.max(self.step);
        Some(order[choice])
    }

    fn next_u64(&mut self) -> u64 {
        0
    }
}

pub struct Failure {
    pub schedule: Vec<usize>,
    pub what: String,
}

pub struct Explored {
    pub bound: usize,
    pub executions: u64,
    pub decisions: u64,
    pub max_steps: usize,
    /// false if the execution cap or the deadline stopped the search before the space for this bound was finished
    pub complete: bool,
    pub outcomes: BTreeMap<String, u64>,
    pub failure: Option<Failure>,
}

fn config() -> shuttle::Config {
    let mut cfg = shuttle::Config::default();
    cfg.stack_size = 1 << 20;
    cfg.max_steps = shuttle::MaxSteps::FailAfter(200_000);
    cfg.failure_persistence = shuttle::FailurePersistence::None;
    cfg.silence_warnings = true;
    cfg
}

/// Explore every schedule of `body` with at most `bound` preemptions. `body` returns `Ok(observation class)` or
/// `Err(violation)`; the first violation (or panic/deadlock/livelock) stops the search and is returned with its schedule.
pub fn explore<F>(bound: usize, max_execs: u64, deadline: Instant, fixed: Option<Vec<usize>>, body: F) -> Explored
where
    F: Fn() -> Result<String, String> + Send + Sync + 'static,
{
    explore_with(bound, max_execs, deadline, fixed, ExploreOpts::default(), body)
}

#[derive(Clone, Default)]
pub struct ExploreOpts {
    pub prefix: Vec<usize>,
    pub discover: Option<usize>,
    pub stop_all: Arc<std::sync::atomic::AtomicBool>,
    /// called after every completed execution with its choice list (used by the discovery pass)
    pub on_execution: Option<Arc<dyn Fn(&[usize]) + Send + Sync>>,
    /// see `Pb::fair`
    pub fair: bool,
}

pub fn explore_with<F>(bound: usize, max_execs: u64, deadline: Instant, fixed: Option<Vec<usize>>, opts: ExploreOpts, body: F) -> Explored
where
    F: Fn() -> Result<String, String> + Send + Sync + 'static,
{
    let shared = Arc::new(Mutex::new(Shared::default()));
    let capped = Arc::new(Mutex::new(false));
    let outcomes = Arc::new(Mutex::new(BTreeMap::<String, u64>::new()));
    let failure = Arc::new(Mutex::new(None::<Failure>));
    let pb = Pb {
        bound,
        levels: Vec::new(),
        step: 0,
        preempt: 0,
        started: false,
        shared: shared.clone(),
        max_execs,
        deadline,
        fixed,
        capped: capped.clone(),
        prefix: opts.prefix.clone(),
        discover: opts.discover,
        stop_all: opts.stop_all.clone(),
        fair: opts.fair,
        waits_for: BTreeMap::new(),
    };
    let on_execution = opts.on_execution.clone();
    let runner = shuttle::Runner::new(pb, config());
    let (sh2, out2, fail2) = (shared.clone(), outcomes.clone(), failure.clone());
    let res = vkit::catch(move || {
        runner.run(move || match body() {
            Ok(class) => {
                *out2.lock().unwrap().entry(class).or_default() += 1;
                if let Some(cb) = &on_execution {
                    let cur = sh2.lock().unwrap().current.clone();
                    cb(&cur);
                }
            }
            Err(v) => {
                let mut sh = sh2.lock().unwrap();
                sh.stop = true;
                let mut f = fail2.lock().unwrap();
                if f.is_none() {
                    *f = Some(Failure { schedule: sh.current.clone(), what: v });
                }
            }
        })
    });
    let sh = shared.lock().unwrap();
    let mut failure = failure.lock().unwrap().take();
    if let Err(panic) = res {
        // panic in the subject, deadlock or step-horizon (livelock) reported by the runtime
        let kind = if panic.contains("deadlock") {
            "deadlock"
        } else if panic.contains("exceeded max_steps") || panic.contains("max_steps") {
            "livelock"
        } else {
            "panic"
        };
        failure = Some(Failure { schedule: sh.current.clone(), what: format!("{kind}: {panic}") });
    }
    if let Some(d) = &sh.diverged {
        failure = Some(Failure { schedule: sh.current.clone(), what: format!("replay-diverged: {d}") });
    }
    let complete = !*capped.lock().unwrap() && failure.is_none();
    let outcomes = outcomes.lock().unwrap().clone();
    Explored { bound, executions: sh.executions, decisions: sh.decisions, max_steps: sh.max_steps, complete, outcomes, failure }
}


/// Parallel exploration: a sequential discovery pass enumerates all distinct schedule prefixes of `split_depth` decisions
/// (branching only there), then the subtree below each prefix is explored by a worker of its own. `make_body(worker)` builds
/// the body for one worker (bodies that use the file system need a private directory each). The union of the subtrees is
/// exactly the sequential search space; executions are counted in the subtree pass only.
pub fn explore_parallel<M, F>(bound: usize, workers: usize, split_depth: usize, deadline: Instant, make_body: M) -> Explored
where
    M: Fn(usize) -> F + Sync,
    F: Fn() -> Result<String, String> + Send + Sync + 'static,
{
    let prefixes = Arc::new(Mutex::new(std::collections::BTreeSet::<Vec<usize>>::new()));
    let p2 = prefixes.clone();
    let opts = ExploreOpts {
        discover: Some(split_depth),
        on_execution: Some(Arc::new(move |cur: &[usize]| {
            p2.lock().unwrap().insert(cur[..cur.len().min(split_depth)].to_vec());
        })),
        ..Default::default()
    };
    let disc = explore_with(bound, u64::MAX, deadline, None, opts, make_body(0));
    if disc.failure.is_some() || !disc.complete {
        return disc;
    }
    let prefixes: Vec<Vec<usize>> = prefixes.lock().unwrap().iter().cloned().collect();
    let next = std::sync::atomic::AtomicUsize::new(0);
    let stop_all = Arc::new(std::sync::atomic::AtomicBool::new(false));
    let results: Mutex<Vec<(usize, Explored)>> = Mutex::new(Vec::new());
    std::thread::scope(|s| {
        for w in 0..workers.max(1) {
            let (prefixes, next, stop_all, results, make_body) = (&prefixes, &next, &stop_all, &results, &make_body);
            s.spawn(move || {
                let body = Arc::new(make_body(w + 1));
                loop {
                    let i = next.fetch_add(1, std::sync::atomic::Ordering::SeqCst);
                    if i >= prefixes.len() || stop_all.load(std::sync::atomic::Ordering::Relaxed) {
                        break;
                    }
                    let opts = ExploreOpts { prefix: prefixes[i].clone(), stop_all: stop_all.clone(), ..Default::default() };
                    let b = body.clone();
                    let ex = explore_with(bound, u64::MAX, deadline, None, opts, move || b());
                    if ex.failure.is_some() {
                        stop_all.store(true, std::sync::atomic::Ordering::Relaxed);
                    }
                    results.lock().unwrap().push((i, ex));
                }
            });
        }
    });
    let mut results = results.into_inner().unwrap();
    results.sort_by_key(|(i, _)| *i);
    let mut total = Explored { bound, executions: 0, decisions: 0, max_steps: 0, complete: results.len() == prefixes.len(), outcomes: BTreeMap::new(), failure: None };
    for (_, ex) in results {
        total.executions += ex.executions;
        total.decisions += ex.decisions;
        total.max_steps = total.max_steps.max(ex.max_steps);
        total.complete &= ex.complete || ex.failure.is_some();
        for (k, v) in ex.outcomes {
            *total.outcomes.entry(k).or_default() += v;
        }
        if total.failure.is_none() {
            total.failure = ex.failure;
        }
    }
    if total.failure.is_some() {
        total.complete = false;
    }
    total
}
