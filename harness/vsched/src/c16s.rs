//! C16, concurrent transactions: two real threads, each with a `file::Store` of its own on ONE git directory (like two processes),
//! run one reference transaction each (prepare + commit, `Fail::Immediately`) under the controlled scheduler. Scheduling points are
//! those of hook H9 (every directory creation/removal step, lock-file creation, rename, removal, registry and id counter of
//! gix-tempfile) - i.e. between every two file-system steps of the lock protocol. All interleavings with at most b preemptions.
//!
//! Oracle = linearizability with aborts: the observed (result of T1, result of T2, final refs) must equal what the REAL code gives
//! when it runs T1;T2 or T2;T1 one after the other on a fresh copy, where a transaction that failed to acquire a lock counts as not
//! having run at all. A compare-and-swap that is not atomic shows as an outcome no sequential order produces (both succeed, one lost).
//!
//! Helper mode of this binary (`--c16-sched <json>`), spawned once per scenario by g-ref2's C16 (gix-tempfile's registry is a
//! process-wide static, so executions of one process must not overlap).
use crate::sched::{explore, Explored};
use gix_ref::file;
use gix_ref::transaction::{Change, LogChange, PreviousValue, RefEdit};
use gix_ref::Target;
use serde::{Deserialize, Serialize};
use std::collections::BTreeMap;
use std::path::{Path, PathBuf};
use std::sync::atomic::{AtomicUsize, Ordering};
use std::sync::{Arc, Mutex};
use std::time::{Duration, Instant};

/// One single-edit transaction. Values are indices into `IDS`; names are full ref names.
#[derive(Serialize, Deserialize, Clone, Hash, Debug, PartialEq, Eq)]
pub struct Txn {
    pub label: String,
    pub name: String,
    /// None = delete
    pub new: Option<usize>,
    /// "any" | "must-exist" | "must-not-exist" | "match:<k>" | "existing-match:<k>"
    pub expected: String,
    pub deref: bool,
}

#[derive(Serialize, Deserialize, Clone, Hash, Debug)]
pub struct Scn {
    pub t1: Txn,
    pub t2: Txn,
    /// refs/heads/a and refs/heads/p are also (a: stale, p: only) in packed-refs
    pub packed: bool,
    pub bound: usize,
    pub secs: u64,
    pub schedule: Option<Vec<usize>>,
}

#[derive(Serialize, Deserialize, Debug, Default)]
pub struct Report {
    pub executions: u64,
    pub decisions: u64,
    pub max_steps: usize,
    pub complete: bool,
    pub outcomes: BTreeMap<String, u64>,
    pub failure: Option<(Vec<usize>, String)>,
    pub per_bound: Vec<(usize, u64)>,
    pub sequential: Vec<String>,
}

const IDS: [&str; 3] = [
    "1111111111111111111111111111111111111111",
    "2222222222222222222222222222222222222222",
    "3333333333333333333333333333333333333333",
];

static COUNTER: AtomicUsize = AtomicUsize::new(0);

fn scratch_root() -> PathBuf {
    let base = if Path::new("/dev/shm").is_dir() { "/dev/shm" } else { "/tmp" };
    PathBuf::from(format!("{base}/verif.{}", std::process::id()))
}

fn oid(k: usize) -> gix_hash::ObjectId {
    gix_hash::ObjectId::from_hex(IDS[k].as_bytes()).unwrap()
}

/// Fresh git directory: HEAD -> refs/heads/a, refs/heads/a = id0 (loose), optionally packed-refs {refs/heads/a = id2 (stale), refs/heads/p = id0}.
fn fixture(packed: bool) -> Result<PathBuf, String> {
    let n = COUNTER.fetch_add(1, Ordering::SeqCst);
    let dir = scratch_root().join(format!("c16s-{n}"));
    let m = |e: std::io::Error| format!("MACHINERY: fixture: {e}");
    std::fs::create_dir_all(dir.join("refs/heads")).map_err(m)?;
    std::fs::create_dir_all(dir.join("refs/tags")).map_err(m)?;
    std::fs::create_dir_all(dir.join("objects")).map_err(m)?;
    std::fs::write(dir.join("HEAD"), "ref: refs/heads/a\n").map_err(m)?;
    std::fs::write(dir.join("refs/heads/a"), format!("{}\n", IDS[0])).map_err(m)?;
    if packed {
        std::fs::write(
            dir.join("packed-refs"),
            format!("# pack-refs with: peeled fully-peeled sorted \n{} refs/heads/a\n{} refs/heads/p\n", IDS[2], IDS[0]),
        )
        .map_err(m)?;
        // the store notices a rewritten packed-refs file by its modification time: give the fixture's file an old one, or else a rewrite
        // within the same clock tick as the fixture's creation would go unnoticed depending on real time (not on the schedule)
        let f = std::fs::File::options().write(true).open(dir.join("packed-refs")).map_err(m)?;
        f.set_modified(std::time::SystemTime::UNIX_EPOCH + Duration::from_secs(1_000_000_000)).map_err(m)?;
    }
    Ok(dir)
}

fn store(dir: &Path) -> file::Store {
    file::Store::at(
        dir.to_owned(),
        gix_ref::store::init::Options { write_reflog: gix_ref::store::WriteReflog::Disable, object_hash: gix_hash::Kind::Sha1, ..Default::default() },
    )
}

fn expected(s: &str) -> PreviousValue {
    let t = |k: &str| Target::Object(oid(k.parse().unwrap()));
    match s {
        "any" => PreviousValue::Any,
        "must-exist" => PreviousValue::MustExist,
        "must-not-exist" => PreviousValue::MustNotExist,
        s if s.starts_with("match:") => PreviousValue::MustExistAndMatch(t(&s[6..])),
        s if s.starts_with("existing-match:") => PreviousValue::ExistingMustMatch(t(&s[15..])),
        other => panic!("MACHINERY: bad expectation {other}"),
    }
}

/// Run one transaction; the result class: "ok", "lock" (a lock could not be acquired: the transaction did not take place),
/// or "refused:<variant>" (an expectation did not hold / other error).
fn run_txn(dir: &Path, t: &Txn) -> String {
    let store = store(dir);
    let change = match t.new {
        Some(k) => Change::Update { log: LogChange::default(), expected: expected(&t.expected), new: Target::Object(oid(k)) },
        None => Change::Delete { expected: expected(&t.expected), log: gix_ref::transaction::RefLog::AndReference },
    };
    let edit = RefEdit { change, name: t.name.as_str().try_into().expect("valid name"), deref: t.deref };
    let mode = gix_lock::acquire::Fail::Immediately;
    use gix_ref::file::transaction::{commit, prepare};
    let res = match store.transaction().prepare(Some(edit), mode, mode) {
        Err(prepare::Error::LockAcquire { .. }) | Err(prepare::Error::PackedTransactionAcquire(_)) => "lock".into(),
        Err(e) => {
            let d = format!("{e:?}");
            format!("refused:{}", d.split(|c: char| !c.is_alphanumeric()).next().unwrap_or(""))
        }
        Ok(tx) => match tx.commit(None) {
            Ok(_) => "ok".into(),
            Err(commit::Error::LockCommit { .. }) => "commit-failed:LockCommit".into(),
            Err(e) => {
                let d = format!("{e:?}");
                format!("commit-failed:{}", d.split(|c: char| !c.is_alphanumeric()).next().unwrap_or(""))
            }
        },
    };
    res
}

/// Final state as seen by a fresh store, plus stray files.
fn observe(dir: &Path) -> Result<String, String> {
    let store = store(dir);
    let mut out: BTreeMap<String, String> = BTreeMap::new();
    let show = |t: &Target| match t {
        Target::Object(id) => IDS.iter().position(|h| *h == id.to_string()).map_or(format!("?{id}"), |k| format!("id{k}")),
        Target::Symbolic(n) => format!("->{}", n.as_bstr()),
    };
    match store.try_find("HEAD") {
        Ok(Some(r)) => {
            out.insert("HEAD".into(), show(&r.target));
        }
        Ok(None) => {}
        Err(e) => return Err(format!("unreadable: try_find(HEAD) failed after the transactions: {e:?}")),
    }
    let platform = store.iter().map_err(|e| format!("unreadable: iter() failed: {e:?}"))?;
    for r in platform.all().map_err(|e| format!("unreadable: iter().all() failed: {e:?}"))? {
        let r = r.map_err(|e| format!("unreadable: a reference cannot be read after the transactions: {e:?}"))?;
        out.insert(r.name.as_bstr().to_string(), show(&r.target));
    }
    // lock files must be gone
    fn walk(d: &Path, found: &mut Vec<String>) {
        if let Ok(rd) = std::fs::read_dir(d) {
            for e in rd.flatten() {
                let p = e.path();
                if p.is_dir() {
                    walk(&p, found);
                } else if p.extension().map_or(false, |x| x == "lock") {
                    found.push(p.display().to_string());
                }
            }
        }
    }
    let mut locks = Vec::new();
    walk(dir, &mut locks);
    if !locks.is_empty() {
        return Err(format!("lock-left: {locks:?} exist after both transactions returned"));
    }
    Ok(out.iter().map(|(k, v)| format!("{k}={v}")).collect::<Vec<_>>().join(" "))
}

fn initial_view(packed: bool) -> Result<String, String> {
    let d = fixture(packed)?;
    let v = observe(&d);
    std::fs::remove_dir_all(&d).ok();
    v
}

/// All outcomes "r1|r2|final" that a sequential execution (with aborts on lock failure) allows.
fn sequential_outcomes(scn: &Scn) -> Result<Vec<String>, String> {
    let mut allowed = Vec::new();
    // both orders
    for first_is_t1 in [true, false] {
        let d = fixture(scn.packed)?;
        let (ra, rb) = if first_is_t1 {
            let a = run_txn(&d, &scn.t1);
            let b = run_txn(&d, &scn.t2);
            (a, b)
        } else {
            let b = run_txn(&d, &scn.t2);
            let a = run_txn(&d, &scn.t1);
            (a, b)
        };
        let f = observe(&d)?;
        std::fs::remove_dir_all(&d).ok();
        if ra == "lock" || rb == "lock" {
            return Err(format!("MACHINERY: a sequential run reported a lock failure ({ra}, {rb})"));
        }
        allowed.push(format!("{ra}|{rb}|{f}"));
    }
    // one of them aborted on a lock
    {
        let d = fixture(scn.packed)?;
        let a = run_txn(&d, &scn.t1);
        let f = observe(&d)?;
        std::fs::remove_dir_all(&d).ok();
        allowed.push(format!("{a}|lock|{f}"));
        let d = fixture(scn.packed)?;
        let b = run_txn(&d, &scn.t2);
        let f = observe(&d)?;
        std::fs::remove_dir_all(&d).ok();
        allowed.push(format!("lock|{b}|{f}"));
        allowed.push(format!("lock|lock|{}", initial_view(scn.packed)?));
    }
    allowed.sort();
    allowed.dedup();
    Ok(allowed)
}

fn body(scn: &Scn, allowed: &[String]) -> Result<String, String> {
    let dir = fixture(scn.packed)?;
    let results: Arc<Mutex<[String; 2]>> = Arc::new(Mutex::new([String::new(), String::new()]));
    let mut joins = Vec::new();
    for (i, t) in [scn.t1.clone(), scn.t2.clone()].into_iter().enumerate() {
        let (dir, results) = (dir.clone(), results.clone());
        joins.push(shuttle::thread::spawn(move || {
            let r = run_txn(&dir, &t);
            results.lock().unwrap()[i] = r;
        }));
    }
    for j in joins {
        if j.join().is_err() {
            std::fs::remove_dir_all(&dir).ok();
            return Err("panic: a transaction thread panicked".into());
        }
    }
    let r = results.lock().unwrap().clone();
    let f = observe(&dir);
    std::fs::remove_dir_all(&dir).ok();
    let f = f?;
    let outcome = format!("{}|{}|{f}", r[0], r[1]);
    if !allowed.contains(&outcome) {
        let class = if r[0] == "ok" && r[1] == "ok" { "lost-update" } else { "not-linearizable" };
        return Err(format!(
            "{class}: concurrent outcome T1={} T2={} final [{f}] is produced by no sequential order of T1={:?} T2={:?}; sequential outcomes: {allowed:?}",
            r[0], r[1], scn.t1.label, scn.t2.label
        ));
    }
    Ok(outcome)
}

pub fn run_child(json: &str) -> i32 {
    let scn: Scn = match serde_json::from_str(json) {
        Ok(s) => s,
        Err(e) => {
            eprintln!("MACHINERY: bad scenario: {e}");
            return 2;
        }
    };
    if scn.schedule.is_some() && std::env::var_os("VSCHED_TRACE").is_some() {
        gix_features::verif_sched::TRACE.store(true, Ordering::Relaxed);
    }
    let deadline = Instant::now() + Duration::from_secs(scn.secs);
    let mut rep = Report { complete: true, ..Default::default() };
    // the sequential reference runs use the same (instrumented) code, so they run inside the scheduler runtime too: one task, one execution
    let allowed: Arc<Mutex<Result<Vec<String>, String>>> = Arc::new(Mutex::new(Err("not run".into())));
    {
        let (a2, s2) = (allowed.clone(), scn.clone());
        let ex = explore(0, 1, deadline, None, move || {
            let r = sequential_outcomes(&s2);
            let ok = r.is_ok();
            *a2.lock().unwrap() = r;
            if ok {
                Ok("sequential".into())
            } else {
                Err("MACHINERY: sequential reference failed".into())
            }
        });
        if let Some(f) = ex.failure {
            let why = allowed.lock().unwrap().clone().err().unwrap_or(f.what);
            // an unreadable store / left-over lock after a purely sequential run is a violation of its own
            rep.failure = Some((Vec::new(), format!("{why} [sequential reference run]")));
            rep.complete = false;
            println!("C16S-REPORT {}", serde_json::to_string(&rep).unwrap());
            std::fs::remove_dir_all(scratch_root()).ok();
            return 0;
        }
    }
    let allowed: Arc<Vec<String>> = Arc::new(allowed.lock().unwrap().clone().unwrap());
    rep.sequential = allowed.to_vec();
    let bounds: Vec<usize> = if scn.schedule.is_some() { vec![scn.bound] } else { (0..=scn.bound).collect() };
    for b in bounds {
        let (s2, al) = (scn.clone(), allowed.clone());
        let ex: Explored = explore(b, u64::MAX, deadline, scn.schedule.clone(), move || body(&s2, &al));
        rep.executions += ex.executions;
        rep.decisions += ex.decisions;
        rep.max_steps = rep.max_steps.max(ex.max_steps);
        rep.complete &= ex.complete;
        rep.per_bound.push((b, ex.executions));
        for (k, v) in ex.outcomes {
            *rep.outcomes.entry(k).or_default() += v;
        }
        if let Some(f) = ex.failure {
            rep.failure = Some((f.schedule, format!("{} [preemption bound {b}]", f.what)));
            break;
        }
        if !ex.complete {
            break;
        }
    }
    std::fs::remove_dir_all(scratch_root()).ok();
    println!("C16S-REPORT {}", serde_json::to_string(&rep).unwrap());
    0
}
