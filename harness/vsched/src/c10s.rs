//! C10, thread schedules of pack indexing: `gix_pack::index::File::write_data_iter_to_stream` resolves the delta trees of a received pack
//! with several threads (`in_parallel_with_slice` over the root objects, plus `deltas_mt`, which hands the children of one delta tree to
//! additional threads through a shared work stack, a shared map of resolved base buffers and the `threads_left` counter). Here it runs on
//! the controlled scheduler: scheduling points at every atomic of `in_parallel_with_slice`, at `threads_left`, at every lock of the shared
//! work stack / buffer map (`gix_features::threading::Mutable`), at thread spawn / join / `is_finished`, and the 100 ms poll is a yield.
//! ALL interleavings with at most b preemptions; oracle: the index bytes and the outcome are identical to the single-threaded result
//! (which g-pack2's C10 compares with `git index-pack`).
//!
//! Helper mode of this binary (`--c10-sched <json>`), spawned once per scenario by g-pack2's C10.
use crate::sched::{explore, explore_with, ExploreOpts, Explored};
use gix_pack::data::input::{BytesToEntriesIter, EntryDataMode, Mode};
use serde::{Deserialize, Serialize};
use std::collections::BTreeMap;
use std::sync::{Arc, Mutex};
use std::time::{Duration, Instant};

#[derive(Serialize, Deserialize, Clone, Hash, Debug)]
pub struct Scn {
    /// path of a pack file to index (made by git), or empty: then `shape` is assembled
    pub pack: String,
    /// hand-assembled pack: blobs in pack order, each with the index of its delta base (an earlier entry; ofs-delta) or None (full blob)
    #[serde(default)]
    pub shape: Vec<Option<usize>>,
    /// write the assembled pack and the single-threaded index here (`<dump>.pack`, `<dump>.idx`) so that the caller can ask git
    #[serde(default)]
    pub dump: Option<String>,
    pub thread_limit: usize,
    pub bound: usize,
    pub secs: u64,
    pub schedule: Option<Vec<usize>>,
}

#[derive(Serialize, Deserialize, Debug, Default)]
pub struct Report {
    pub executions: u64,
    pub decisions: u64,
    pub max_steps: usize,
    pub complete: bool,
    pub outcomes: BTreeMap<String, u64>,
    pub failure: Option<(Vec<usize>, String)>,
    pub per_bound: Vec<(usize, u64)>,
    pub num_objects: u32,
}

fn varint_size(mut n: u64, out: &mut Vec<u8>) {
    loop {
        let b = (n & 0x7f) as u8;
        n >>= 7;
        if n == 0 {
            out.push(b);
            break;
        }
        out.push(b | 0x80);
    }
}

fn deflate(data: &[u8]) -> Vec<u8> {
    use std::io::Write;
    let mut w = gix_features::zlib::stream::deflate::Write::new(Vec::new());
    w.write_all(data).expect("deflate");
    w.flush().expect("deflate");
    w.into_inner()
}

/// Assemble a version-2 pack of blobs: entry i is a full blob (`None`) or an ofs-delta against the earlier entry `Some(j)`.
/// The content of entry i is 40 + i bytes derived from i; a delta is one or two insert instructions (no copies), which is all a
/// resolver needs to exercise base/child bookkeeping.
pub fn assemble(shape: &[Option<usize>]) -> Vec<u8> {
    let content = |i: usize| -> Vec<u8> { (0..40 + i).map(|k| b'a' + ((i * 7 + k) % 23) as u8).collect() };
    let mut out = Vec::new();
    out.extend_from_slice(b"PACK");
    out.extend_from_slice(&2u32.to_be_bytes());
    out.extend_from_slice(&(shape.len() as u32).to_be_bytes());
    let mut offsets = Vec::new();
    for (i, base) in shape.iter().enumerate() {
        offsets.push(out.len() as u64);
        let (type_id, payload) = match base {
            None => (3u8, content(i)),
            Some(j) => {
                let (b, r) = (content(*j), content(i));
                let mut d = Vec::new();
                varint_size(b.len() as u64, &mut d);
                varint_size(r.len() as u64, &mut d);
                for chunk in r.chunks(50) {
                    d.push(chunk.len() as u8);
                    d.extend_from_slice(chunk);
                }
                (6u8, d)
            }
        };
        let mut size = payload.len() as u64;
        let mut first = (type_id << 4) | (size & 0xf) as u8;
        size >>= 4;
        if size != 0 {
            first |= 0x80;
        }
        out.push(first);
        while size != 0 {
            let mut b = (size & 0x7f) as u8;
            size >>= 7;
            if size != 0 {
                b |= 0x80;
            }
            out.push(b);
        }
        if let Some(j) = base {
            let mut n = offsets[i] - offsets[*j];
            let mut buf = [0u8; 10];
            let mut k = 9;
            buf[k] = (n & 0x7f) as u8;
            n >>= 7;
            while n != 0 {
                n -= 1;
                k -= 1;
                buf[k] = 0x80 | (n & 0x7f) as u8;
                n >>= 7;
            }
            out.extend_from_slice(&buf[k..]);
        }
        out.extend_from_slice(&deflate(&payload));
    }
    let mut h = gix_features::hash::hasher(gix_hash::Kind::Sha1);
    h.update(&out);
    out.extend_from_slice(&h.digest());
    out
}

fn resolve_vec(range: gix_pack::data::EntryRange, data: &Vec<u8>) -> Option<&[u8]> {
    data.get(range.start as usize..range.end as usize)
}

fn index(bytes: &[u8], thread_limit: usize) -> Result<(Vec<u8>, u32, String), String> {
    use gix_features::verif_sched::std_shim::sync::atomic::AtomicBool;
    let interrupt = AtomicBool::new(false);
    let mut entries = BytesToEntriesIter::new_from_header(std::io::BufReader::new(bytes), Mode::Verify, EntryDataMode::Crc32, gix_hash::Kind::Sha1)
        .map_err(|e| format!("MACHINERY: pack header: {e}"))?;
    let version = entries.version();
    let mut idx = Vec::new();
    let owned = bytes.to_vec();
    let out = gix_pack::index::File::write_data_iter_to_stream(
        gix_pack::index::Version::default(),
        move || Ok((resolve_vec, owned)),
        &mut entries,
        Some(thread_limit),
        &mut gix_features::progress::Discard,
        &mut idx,
        &interrupt,
        gix_hash::Kind::Sha1,
        version,
    )
    .map_err(|e| {
        let mut s = e.to_string();
        let mut src = std::error::Error::source(&e);
        while let Some(x) = src {
            s.push_str(": ");
            s.push_str(&x.to_string());
            src = x.source();
        }
        format!("index-error: indexing failed with thread_limit {thread_limit}: {s}")
    })?;
    Ok((idx, out.num_objects, format!("{} {}", out.index_hash, out.data_hash)))
}

pub fn run_child(json: &str) -> i32 {
    let scn: Scn = match serde_json::from_str(json) {
        Ok(s) => s,
        Err(e) => {
            eprintln!("MACHINERY: bad scenario: {e}");
            return 2;
        }
    };
    let bytes = if scn.pack.is_empty() {
        Arc::new(assemble(&scn.shape))
    } else {
        match std::fs::read(&scn.pack) {
            Ok(b) => Arc::new(b),
            Err(e) => {
                eprintln!("MACHINERY: cannot read {}: {e}", scn.pack);
                return 2;
            }
        }
    };
    if scn.schedule.is_some() && std::env::var_os("VSCHED_TRACE").is_some() {
        gix_features::verif_sched::TRACE.store(true, std::sync::atomic::Ordering::Relaxed);
    }
    let deadline = Instant::now() + Duration::from_secs(scn.secs);
    let mut rep = Report { complete: true, ..Default::default() };
    // single-threaded reference, inside the scheduler runtime (the instrumented code needs it): one task, one execution
    let reference: Arc<Mutex<Option<Result<(Vec<u8>, u32, String), String>>>> = Default::default();
    {
        let (r2, b2) = (reference.clone(), bytes.clone());
        let ex = explore(0, 1, deadline, None, move || {
            let r = index(&b2, 1);
            let ok = r.is_ok();
            *r2.lock().unwrap() = Some(r);
            if ok {
                Ok("reference".into())
            } else {
                Err("reference failed".into())
            }
        });
        if ex.failure.is_some() {
            let why = match reference.lock().unwrap().take() {
                Some(Err(e)) => e,
                _ => ex.failure.map(|f| f.what).unwrap_or_default(),
            };
            rep.failure = Some((Vec::new(), format!("{why} [single-threaded reference]")));
            rep.complete = false;
            println!("C10S-REPORT {}", serde_json::to_string(&rep).unwrap());
            return 0;
        }
    }
    let (ref_idx, ref_n, ref_hashes) = reference.lock().unwrap().take().unwrap().unwrap();
    rep.num_objects = ref_n;
    if let Some(d) = &scn.dump {
        if std::fs::write(format!("{d}.pack"), &*bytes).is_err() || std::fs::write(format!("{d}.idx"), &ref_idx).is_err() {
            eprintln!("MACHINERY: cannot write {d}.pack/.idx");
            return 2;
        }
    }
    let reference = Arc::new((ref_idx, ref_n, ref_hashes));
    let bounds: Vec<usize> = if scn.schedule.is_some() { vec![scn.bound] } else { (0..=scn.bound).collect() };
    for b in bounds {
        let (b2, r2, tl) = (bytes.clone(), reference.clone(), scn.thread_limit);
        let ex: Explored = explore_with(b, u64::MAX, deadline, scn.schedule.clone(), ExploreOpts { fair: true, ..Default::default() }, move || {
            let (idx, n, hashes) = index(&b2, tl)?;
            if n != r2.1 {
                return Err(format!("wrong-index: {n} objects indexed with thread_limit {tl}, {} with one thread", r2.1));
            }
            if idx != r2.0 {
                let at = idx.iter().zip(r2.0.iter()).position(|(a, b)| a != b).unwrap_or(idx.len().min(r2.0.len()));
                return Err(format!(
                    "wrong-index: the index written with thread_limit {tl} differs from the single-threaded one at byte {at} (lengths {} / {}; hashes {hashes} / {})",
                    idx.len(),
                    r2.0.len(),
                    r2.2
                ));
            }
            Ok(format!("identical:{n}-objects"))
        });
        rep.executions += ex.executions;
        rep.decisions += ex.decisions;
        rep.max_steps = rep.max_steps.max(ex.max_steps);
        rep.complete &= ex.complete;
        rep.per_bound.push((b, ex.executions));
        for (k, v) in ex.outcomes {
            *rep.outcomes.entry(k).or_default() += v;
        }
        if let Some(f) = ex.failure {
            rep.failure = Some((f.schedule, format!("{} [preemption bound {b}]", f.what)));
            break;
        }
        if !ex.complete {
            break;
        }
    }
    println!("C10S-REPORT {}", serde_json::to_string(&rep).unwrap());
    0
}
