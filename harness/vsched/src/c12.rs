//! C12 — object lookups stay correct while the object directory is repacked.
//! E3 on the real `gix_odb::Store` (dynamic store): reader threads with their own handles look up objects while an
//! environment thread changes the objects directory the way git does (one syscall per step, git's order). All interleavings
//! up to a preemption bound; scheduling points = every ArcSwap load/store, mutex, atomic access and yield of the store
//! (type-substituted shim) and every disk access of the lookup path (`fs_point` hooks).
use crate::sched::{explore, Explored};
use gix_features::verif_sched::point;
use gix_hash::ObjectId;
use gix_object::Find;
use gix_pack::Find as PackFind;
use serde::{Deserialize, Serialize};
use std::path::{Path, PathBuf};
use std::sync::Arc;
use std::time::{Duration, Instant};
use vkit::{ok, Run, Verdict};

/// Fixture: a template objects directory plus staged files, built once with git.
pub struct Fixture {
    template: PathBuf,
    staging: PathBuf,
    /// x1 (in P1), x2 (in P2), l (loose), x3 (only in P3), missing
    ids: Vec<ObjectId>,
    contents: Vec<Option<Vec<u8>>>,
    packs: Vec<String>, // names "pack-<hash>" for P1..P5
    loose_rel: PathBuf,
}

fn pack_objects(repo: &Path, out_dir: &Path, ids: &[&str]) -> String {
    std::fs::create_dir_all(out_dir).unwrap();
    let input = ids.join("\n") + "\n";
    let prefix = out_dir.join("pack");
    let out = vkit::git::git_in(repo, &["pack-objects", "-q", prefix.to_str().unwrap()], input.as_bytes());
    format!("pack-{}", String::from_utf8_lossy(&out).trim())
}

impl Fixture {
    pub fn build(root: &Path) -> Fixture {
        let repo = root.join("work");
        vkit::git::init(&repo);
        let mut ids = Vec::new();
        let mut contents = Vec::new();
        let mut blob = |text: Vec<u8>| -> String {
            let id = vkit::git::git_in(&repo, &["hash-object", "-w", "--stdin"], &text);
            let id = String::from_utf8_lossy(&id).trim().to_string();
            ids.push(ObjectId::from_hex(id.as_bytes()).unwrap());
            contents.push(text);
            id
        };
        let x1 = blob(b"x1 content\n".to_vec());
        let x2 = blob(b"x2 content, different\n".to_vec());
        let l = blob(b"loose object content\n".to_vec());
        let x3 = blob(b"x3 arrives later\n".to_vec());
        // padding objects so that the packs have clearly different sizes (slot order is by index size)
        let pad: Vec<String> = (0..40).map(|i| blob(format!("padding {i}\n").into_bytes())).collect();
        // x6 lives in a pack with so many objects that its .idx is bigger than the multi-pack-index file
        let x6 = blob(b"x6 in a big pack that arrives later\n".to_vec());
        let pad6: Vec<String> = (0..150).map(|i| blob(format!("more padding {i}\n").into_bytes())).collect();
        let staging = root.join("staging");
        let template = root.join("template");
        std::fs::create_dir_all(template.join("pack")).unwrap();
        let mut p1: Vec<&str> = vec![&x1];
        p1.extend(pad[..30].iter().map(String::as_str));
        let mut p2: Vec<&str> = vec![&x2];
        p2.extend(pad[30..40].iter().map(String::as_str));
        let mut p4: Vec<&str> = vec![&x1, &x2, &l];
        p4.extend(pad.iter().map(String::as_str));
        let names = vec![
            pack_objects(&repo, &staging, &p1),
            pack_objects(&repo, &staging, &p2),
            pack_objects(&repo, &staging, &[&x3]),
            pack_objects(&repo, &staging, &p4),
            pack_objects(&repo, &staging, &[&l]),
            {
                let mut p6: Vec<&str> = vec![&x6];
                p6.extend(pad6.iter().map(String::as_str));
                pack_objects(&repo, &staging, &p6)
            },
        ];
        // template: P1, P2 installed + loose l
        for n in &names[..2] {
            for ext in ["pack", "idx"] {
                std::fs::hard_link(staging.join(format!("{n}.{ext}")), template.join("pack").join(format!("{n}.{ext}"))).unwrap();
            }
        }
        let loose_rel = PathBuf::from(&l[..2]).join(&l[2..]);
        std::fs::create_dir_all(template.join(&l[..2])).unwrap();
        std::fs::copy(repo.join(".git/objects").join(&loose_rel), template.join(&loose_rel)).unwrap();
        // multi-pack-index over P1+P2, and one over P4 only
        for (tag, members) in [("midx12", &names[..2]), ("midx4", &names[3..4])] {
            let d = root.join(tag);
            std::fs::create_dir_all(d.join("objects/pack")).unwrap();
            vkit::git::init_bare(&d);
            for n in members.iter() {
                for ext in ["pack", "idx"] {
                    std::fs::copy(staging.join(format!("{n}.{ext}")), d.join("objects/pack").join(format!("{n}.{ext}"))).unwrap();
                }
            }
            vkit::git::git(&d, &["multi-pack-index", "write"]);
            std::fs::copy(d.join("objects/pack/multi-pack-index"), staging.join(tag)).unwrap();
        }
        // the same multi-pack-index content written again later (new mtime), as `git multi-pack-index write` does on every run
        std::fs::copy(staging.join("midx12"), staging.join("midx12-rewritten")).unwrap();
        let later = std::time::SystemTime::now() + Duration::from_secs(3600);
        std::fs::File::options().write(true).open(staging.join("midx12-rewritten")).and_then(|f| f.set_modified(later)).unwrap();
        if std::fs::metadata(staging.join(format!("{}.idx", names[5]))).unwrap().len() <= std::fs::metadata(staging.join("midx12")).unwrap().len() {
            vkit::machinery!("fixture: the big pack's index must be larger than the multi-pack-index");
        }
        let x6_id = ids[44];
        let x6_content = contents[44].clone();
        ids.truncate(4);
        contents.truncate(4);
        ids.push(ObjectId::from_hex(b"00000000000000000000000000000000000000ff").unwrap());
        ids.push(x6_id);
        let mut contents: Vec<Option<Vec<u8>>> = contents.into_iter().map(Some).collect();
        contents.push(None);
        contents.push(Some(x6_content));
        Fixture { template, staging, ids, contents, packs: names, loose_rel }
    }
}

#[derive(Serialize, Deserialize, Hash, Clone, Debug, PartialEq, Eq)]
pub enum Step {
    /// link staging/<pack n>.<ext> into pack/
    Install(usize, String),
    Remove(usize, String),
    RemoveLoose,
    /// atomically put the named multi-pack-index in place (rename over any existing one)
    Midx(String),
    /// the environment thread looks up an absent object through a handle of its own: forces the shared store to
    /// consolidate with the disk state at this point of the history (what any other user of the store would cause)
    Refresh,
    /// the environment thread's handle starts / stops demanding stable pack ids (`prevent_pack_unload`)
    StableOn,
    StableOff,
    /// scripted histories: wait until the reader signalled / tell the reader to go on (spin with yield = blocking for the scheduler)
    AwaitReader,
    SignalReader,
}

#[derive(Serialize, Deserialize, Hash, Clone, Debug)]
pub struct Cfg {
    history: String,
    /// initial state has a multi-pack-index over P1+P2
    start_with_midx: bool,
    /// per reader: list of (op, object index); op = "find" | "contains"
    readers: Vec<Vec<(String, usize)>>,
    /// per reader: handle.prevent_pack_unload()
    stable: Vec<bool>,
    /// per reader: refresh_never()
    no_refresh: Vec<bool>,
    bound: usize,
    schedule: Option<Vec<usize>>,
    /// number of slots of the store (default 4); small values force slot reuse
    #[serde(default)]
    slots: Option<u16>,
}

pub fn history(name: &str) -> Vec<Step> {
    let ins = |n: usize| vec![Step::Install(n, "pack".into()), Step::Install(n, "idx".into())];
    let rm = |n: usize| vec![Step::Remove(n, "idx".into()), Step::Remove(n, "pack".into())];
    match name {
        "none" => vec![],
        "add-pack" => ins(2),
        "repack" => [ins(3), rm(0), rm(1)].concat(),
        "repack-prune" => [ins(3), rm(0), rm(1), vec![Step::RemoveLoose]].concat(),
        "pack-loose" => [ins(4), vec![Step::RemoveLoose]].concat(),
        "midx-write" => vec![Step::Midx("midx12".into())],
        "midx-repack" => [ins(3), vec![Step::Midx("midx4".into())], rm(0), rm(1)].concat(),
        // slot reuse: after the repack the cleared slots of P1/P2 are refilled by a later pack while a reader still holds P1's index
        "repack-add-refresh" => [ins(3), vec![Step::Refresh], rm(0), rm(1), vec![Step::Refresh], ins(2), vec![Step::Refresh]].concat(),
        // the same with a stable handle around while the packs vanish (slots are trashed, not cleared), which then goes away
        // scripted variants: the environment starts after the reader has P1's index and the reader continues after the script
        "repack-add-refresh-scripted" => [vec![Step::AwaitReader], history("repack-add-refresh"), vec![Step::SignalReader]].concat(),
        "trash-reuse-scripted" => [vec![Step::AwaitReader], history("trash-reuse"), vec![Step::SignalReader]].concat(),
        // `git multi-pack-index write` rewrites the (already loaded) multi-pack-index, then a pack it does not cover arrives
        // whose index is bigger than the multi-pack-index file (slot order is by size)
        "midx-rewrite-add-scripted" => vec![
            Step::AwaitReader,
            Step::Midx("midx12-rewritten".into()),
            Step::Install(5, "pack".into()),
            Step::Install(5, "idx".into()),
            Step::SignalReader,
        ],
        "trash-reuse" => [vec![Step::StableOn], ins(3), vec![Step::Refresh], rm(0), rm(1), vec![Step::Refresh, Step::StableOff], ins(2), vec![Step::Refresh]].concat(),
        other => vkit::machinery!("unknown history {other}"),
    }
}

fn reset_dir(fx: &Fixture, live: &Path, with_midx: bool) {
    let pack = live.join("pack");
    let _ = std::fs::create_dir_all(&pack);
    if let Ok(rd) = std::fs::read_dir(&pack) {
        for e in rd.flatten() {
            let _ = std::fs::remove_file(e.path());
        }
    }
    for n in &fx.packs[..2] {
        for ext in ["pack", "idx"] {
            let f = format!("{n}.{ext}");
            std::fs::hard_link(fx.template.join("pack").join(&f), pack.join(&f)).unwrap_or_else(|e| vkit::machinery!("link {f}: {e}"));
        }
    }
    if with_midx {
        std::fs::hard_link(fx.staging.join("midx12"), pack.join("multi-pack-index")).unwrap_or_else(|e| vkit::machinery!("link midx: {e}"));
    }
    let loose = live.join(&fx.loose_rel);
    let _ = std::fs::create_dir_all(loose.parent().unwrap());
    if !loose.is_file() {
        std::fs::hard_link(fx.template.join(&fx.loose_rel), &loose).unwrap_or_else(|e| vkit::machinery!("link loose: {e}"));
    }
}

fn apply(fx: &Fixture, live: &Path, step: &Step) {
    let pack = live.join("pack");
    let r = match step {
        Step::Install(n, ext) => {
            let f = format!("{}.{ext}", fx.packs[*n]);
            std::fs::hard_link(fx.staging.join(&f), pack.join(&f))
        }
        Step::Remove(n, ext) => std::fs::remove_file(pack.join(format!("{}.{ext}", fx.packs[*n]))),
        Step::RemoveLoose => std::fs::remove_file(live.join(&fx.loose_rel)),
        Step::Midx(tag) => {
            let tmp = pack.join("tmp_midx");
            let _ = std::fs::remove_file(&tmp);
            std::fs::hard_link(fx.staging.join(tag), &tmp).and_then(|()| std::fs::rename(&tmp, pack.join("multi-pack-index")))
        }
        Step::Refresh | Step::StableOn | Step::StableOff | Step::AwaitReader | Step::SignalReader => Ok(()), // handled by the environment thread itself
    };
    if let Err(e) = r {
        vkit::machinery!("environment step {step:?} failed: {e}");
    }
}

/// is object `i` on disk during the whole history (in git's order something always holds it)?
fn always_present(i: usize) -> bool {
    i <= 2
}

fn tracing() -> bool {
    gix_features::verif_sched::TRACE.load(std::sync::atomic::Ordering::Relaxed)
}

fn body(fx: &Arc<Fixture>, live: &Path, c: &Cfg) -> Result<String, String> {
    reset_dir(fx, live, c.start_with_midx);
    let store = Arc::new(
        gix_odb::Store::at_opts(
            live.to_owned(),
            &mut None.into_iter(),
            gix_odb::store::init::Options {
                slots: gix_odb::store::init::Slots::Given(c.slots.unwrap_or(4)),
                object_hash: gix_hash::Kind::Sha1,
                use_multi_pack_index: true,
                current_dir: Some(live.to_owned()),
            },
        )
        .map_err(|e| format!("unexpected-error: cannot open store: {e}"))?,
    );
    let steps = history(&c.history);
    let mut handles = Vec::new();
    // (reader reached its rendezvous, environment finished its script)
    let flags = Arc::new((std::sync::atomic::AtomicBool::new(false), std::sync::atomic::AtomicBool::new(false)));
    {
        let (fx, live, store, flags) = (fx.clone(), live.to_owned(), store.clone(), flags.clone());
        handles.push(shuttle::thread::spawn(move || -> Result<String, String> {
            let mut env_handle = None;
            let mut buf = Vec::new();
            for s in &steps {
                point();
                match s {
                    Step::Refresh => {
                        let h = env_handle.get_or_insert_with(|| store.to_handle_arc());
                        if let Ok(Some(_)) = Find::try_find(&*h, &fx.ids[4], &mut buf) {
                            return Err("wrong-content: the absent object was 'found' by the environment handle".into());
                        }
                    }
                    Step::StableOn => {
                        let mut h = store.to_handle_arc();
                        h.prevent_pack_unload();
                        env_handle = Some(h);
                    }
                    Step::StableOff => {
                        env_handle = None;
                    }
                    Step::AwaitReader => {
                        while !flags.0.load(std::sync::atomic::Ordering::SeqCst) {
                            shuttle::thread::yield_now();
                        }
                    }
                    Step::SignalReader => flags.1.store(true, std::sync::atomic::Ordering::SeqCst),
                    _ => {}
                }
                apply(&fx, &live, s);
                if tracing() {
                    eprintln!("[env] applied {s:?}");
                }
            }
            Ok("env".into())
        }));
    }
    for (r, ops) in c.readers.iter().enumerate() {
        let (fx, store, ops, flags) = (fx.clone(), store.clone(), ops.clone(), flags.clone());
        let (stable, no_refresh) = (c.stable[r], c.no_refresh[r]);
        handles.push(shuttle::thread::spawn(move || -> Result<String, String> {
            let mut h = store.to_handle_arc();
            if stable {
                h.prevent_pack_unload();
            }
            if no_refresh {
                h.refresh_never();
            }
            let mut obs = String::new();
            let mut buf = Vec::new();
            for (op, i) in &ops {
                let id = fx.ids[*i];
                if tracing() {
                    eprintln!("[reader {r}] {op} object #{i} ...");
                }
                if op == "signal" {
                    flags.0.store(true, std::sync::atomic::Ordering::SeqCst);
                    continue;
                }
                if op == "await" {
                    while !flags.1.load(std::sync::atomic::Ordering::SeqCst) {
                        shuttle::thread::yield_now();
                    }
                    continue;
                }
                // "must-find": the script guarantees that the object is on disk during the whole call
                let must = op == "must-find";
                let op = if must { "find" } else { op.as_str() };
                if op == "find" {
                    match Find::try_find(&h, &id, &mut buf) {
                        Ok(Some(data)) => {
                            let Some(content) = &fx.contents[*i] else {
                                return Err(format!("wrong-content: the absent object {id} was 'found'"));
                            };
                            let actual = gix_object::compute_hash(gix_hash::Kind::Sha1, data.kind, data.data);
                            if actual != id || data.data != content.as_slice() {
                                return Err(format!("wrong-content: lookup of {id} returned content hashing to {actual}"));
                            }
                            obs.push_str(&format!("r{r}:{i}=found "));
                        }
                        Ok(None) => {
                            if (always_present(*i) || must) && !no_refresh {
                                return Err(format!("not-found: object #{i} {id} is on disk during the whole lookup but try_find returned None"));
                            }
                            obs.push_str(&format!("r{r}:{i}=none "));
                        }
                        Err(e) => {
                            if (always_present(*i) || must) && !no_refresh {
                                return Err(format!("lookup-error: object #{i} {id} is on disk during the whole lookup but try_find failed: {e}"));
                            }
                            obs.push_str(&format!("r{r}:{i}=err "));
                        }
                    }
                } else if op == "header" {
                    match gix_odb::Header::try_header(&h, &id) {
                        Ok(Some(hdr)) => {
                            let Some(content) = &fx.contents[*i] else {
                                return Err(format!("wrong-content: try_header found the absent object {id}"));
                            };
                            if hdr.size() != content.len() as u64 {
                                return Err(format!("wrong-content: try_header({id}) reports size {} but the object has {} bytes", hdr.size(), content.len()));
                            }
                            obs.push_str(&format!("r{r}:{i}=hdr "));
                        }
                        Ok(None) => {
                            if always_present(*i) && !no_refresh {
                                return Err(format!("not-found: object #{i} {id} is on disk during the whole call but try_header returned None"));
                            }
                            obs.push_str(&format!("r{r}:{i}=nohdr "));
                        }
                        Err(e) => {
                            if always_present(*i) && !no_refresh {
                                return Err(format!("lookup-error: object #{i} {id} is on disk during the whole call but try_header failed: {e}"));
                            }
                            obs.push_str(&format!("r{r}:{i}=hdrerr "));
                        }
                    }
                } else if op == "prefix" {
                    let prefix = gix_hash::Prefix::new(&id, 12).expect("valid prefix length");
                    match h.lookup_prefix(prefix, None) {
                        Ok(Some(Ok(found))) => {
                            if found != id || fx.contents[*i].is_none() {
                                return Err(format!("wrong-content: lookup_prefix({prefix}) returned {found} for {id}"));
                            }
                            obs.push_str(&format!("r{r}:{i}=pfx "));
                        }
                        Ok(Some(Err(()))) => return Err(format!("wrong-content: lookup_prefix({prefix}) reports ambiguity, all fixture ids differ within 12 hex digits")),
                        Ok(None) => {
                            if always_present(*i) && !no_refresh {
                                return Err(format!("not-found: object #{i} {id} is on disk during the whole call but lookup_prefix returned None"));
                            }
                            obs.push_str(&format!("r{r}:{i}=nopfx "));
                        }
                        Err(e) => {
                            if always_present(*i) && !no_refresh {
                                return Err(format!("lookup-error: object #{i} {id} is on disk during the whole call but lookup_prefix failed: {e}"));
                            }
                            obs.push_str(&format!("r{r}:{i}=pfxerr "));
                        }
                    }
                } else {
                    let found = PackFind::contains(&h, &id);
                    if found && fx.contents[*i].is_none() {
                        return Err(format!("wrong-content: contains() is true for the absent object {id}"));
                    }
                    if !found && always_present(*i) && !no_refresh {
                        return Err(format!("not-found: object #{i} {id} is on disk during the whole call but contains() returned false"));
                    }
                    obs.push_str(&format!("r{r}:{i}={} ", if found { "has" } else { "hasnot" }));
                }
            }
            Ok(obs)
        }));
    }
    let mut obs = String::new();
    let mut first_err = None;
    for h in handles {
        match h.join() {
            Ok(Ok(o)) => {
                if o != "env" {
                    obs.push_str(&o)
                }
            }
            Ok(Err(v)) => first_err = first_err.or(Some(v)),
            Err(p) => std::panic::resume_unwind(p),
        }
    }
    match first_err {
        Some(v) => Err(v),
        None => Ok(obs),
    }
}

static PER_CASE: std::sync::Mutex<Vec<String>> = std::sync::Mutex::new(Vec::new());

fn eval(run: &Run, fx: &Arc<Fixture>, c: &Cfg) -> Verdict {
    let live = vkit::scratch::Dir::new("c12live");
    let (fx2, live2, cfg) = (fx.clone(), live.path().to_owned(), c.clone());
    let secs = if run.quick() { 30.0 } else { 1200.0 };
    let t0 = Instant::now();
    if c.schedule.is_some() && std::env::var("VSCHED_TRACE").is_ok() {
        gix_features::verif_sched::TRACE.store(true, std::sync::atomic::Ordering::Relaxed);
    }
    let deadline = Instant::now() + Duration::from_secs_f64(secs);
    let ex: Explored = if c.schedule.is_none() && !run.quick() && c.bound >= 2 {
        // big spaces: explore the subtrees below all 16-decision prefixes on 8 workers, each with a private objects directory
        let _ = &live2;
        crate::sched::explore_parallel(c.bound, 8, 16, deadline, |_w| {
            let (fx3, cfg) = (fx2.clone(), cfg.clone());
            let dir = vkit::scratch::Dir::new("c12live");
            move || body(&fx3, dir.path(), &cfg)
        })
    } else {
        explore(c.bound, u64::MAX, deadline, c.schedule.clone(), move || body(&fx2, &live2, &cfg))
    };
    run.mc_transitions(ex.decisions);
    run.mc_validated(ex.executions);
    run.mc_states_bulk((0..ex.executions).map(|i| vkit::hash_of(&(c, i))));
    run.cov_add(&format!("executions_bound_{}", c.bound), ex.executions);
    PER_CASE.lock().unwrap().push(format!(
        "history={} midx0={} readers={:?} stable={:?} no_refresh={:?} bound={}: executions={} decisions={} max_steps={} complete={} outcomes={:?} secs={:.1}",
        c.history, c.start_with_midx, c.readers, c.stable, c.no_refresh, c.bound, ex.executions, ex.decisions, ex.max_steps, ex.complete, ex.outcomes.keys().collect::<Vec<_>>(), t0.elapsed().as_secs_f64()
    ));
    if let Some(f) = ex.failure {
        let msg = format!("{} | history={} schedule={:?} (choice indices)", f.what, c.history, f.schedule);
        if c.schedule.is_some() {
            return Err(msg);
        }
        let mut with_schedule = c.clone();
        with_schedule.schedule = Some(f.schedule);
        run.violation("schedules", &with_schedule, msg);
        return vkit::ok_trivial("violation-recorded");
    }
    if !ex.complete {
        run.cap_hit(format!("history {} readers {:?}: bound {} not finished within the time cap ({} executions done)", c.history, c.readers, c.bound, ex.executions));
        return ok(format!("{}:capped", c.history));
    }
    for o in ex.outcomes.keys() {
        run.outcome(&format!("obs:{}", o.trim()));
    }
    ok(format!("{}:b{}:distinct-observations={}", c.history, c.bound, ex.outcomes.len()))
}

pub fn run(run: &'static Run) {
    run.rule("objects dir with packs P1,P2 + one loose object (optionally a multi-pack-index over P1+P2), Slots::Given(4); 1-2 reader threads, each with its own handle \
        (with/without prevent_pack_unload, with/without refresh) doing 1-2 try_find/contains/try_header/lookup_prefix of objects x1(P1) x2(P2) l(loose) x3(arrives later) and an absent id; \
        an environment thread performs one of the histories {add pack, repack (install new pack, then remove old .idx/.pack), repack + prune loose, pack the loose object + prune, \
        write multi-pack-index, repack under a multi-pack-index} one syscall at a time in git's order; ALL interleavings with at most b preemptions (b = 0,1 quick; 0..2 thorough); \
        oracle: returned data hashes to the requested id; an object on disk during the whole call is found when refresh is enabled; no panic, deadlock or livelock; \
        states = executions (distinct schedules), transitions = scheduling decisions");
    run.assume("sequentially consistent interleavings; data-race freedom of the store is assumed (not checked: mmap + directory reads rule out miri)");
    run.assume("trusted: shuttle runtime; ArcSwap modelled as Mutex<Arc<T>> (load/store atomic), parking_lot::Mutex as shuttle Mutex");
    let root = vkit::scratch::Dir::new("c12fx");
    let fx = Arc::new(Fixture::build(root.path()));
    let q = run.quick();
    let mut cases: Vec<Cfg> = Vec::new();
    let f = |i: usize| ("find".to_string(), i);
    let has = |i: usize| ("contains".to_string(), i);
    let hdr = |i: usize| ("header".to_string(), i);
    let pfx = |i: usize| ("prefix".to_string(), i);
    let mut add = |history: &str, midx0: bool, readers: Vec<Vec<(String, usize)>>, stable: Vec<bool>, no_refresh: Vec<bool>, bound: usize| {
        // the slot-reuse histories run on a store with exactly 3 slots so that the round-robin slot search wraps around
        let slots = history.contains("-reuse") .then_some(3).or(history.contains("repack-add-refresh").then_some(3));
        cases.push(Cfg { history: history.into(), start_with_midx: midx0, readers, stable, no_refresh, bound, schedule: None, slots });
    };
    let max_bound = if q { 1 } else { 2 };
    for bound in 0..=max_bound {
        // one reader against each history
        for h in ["add-pack", "repack", "repack-prune", "pack-loose", "midx-write"] {
            add(h, false, vec![vec![f(0), f(2)]], vec![false], vec![false], bound);
            add(h, false, vec![vec![f(2), f(1)]], vec![true], vec![false], bound);
        }
        add("midx-repack", true, vec![vec![f(0), f(1)]], vec![false], vec![false], bound);
        add("add-pack", false, vec![vec![f(3), f(4)]], vec![false], vec![false], bound);
        // the other lookup entry points have refresh loops of their own: header lookup and prefix disambiguation
        for h in ["repack", "pack-loose", "repack-prune"] {
            add(h, false, vec![vec![hdr(0), hdr(2)]], vec![false], vec![false], bound);
            add(h, false, vec![vec![pfx(2), pfx(0)]], vec![false], vec![false], bound);
        }
        add("midx-repack", true, vec![vec![hdr(0), pfx(1)]], vec![false], vec![false], bound);
        add("add-pack", false, vec![vec![pfx(3), hdr(3), hdr(4)]], vec![false], vec![false], bound);
        add("repack", false, vec![vec![has(0), f(0)]], vec![false], vec![true], bound);
        // stale reader: knows P1's index (contains) but not its pack data, looks the object up after the slots were recycled
        for h in ["repack-add-refresh-scripted", "trash-reuse-scripted"] {
            let sync = |op: &str| (op.to_string(), 0usize);
            add(h, false, vec![vec![has(0), sync("signal"), sync("await"), f(0)]], vec![false], vec![false], bound);
            add(h, false, vec![vec![has(1), sync("signal"), sync("await"), f(1), f(0)]], vec![false], vec![false], bound.min(1));
        }
        {
            let sync = |op: &str| (op.to_string(), 0usize);
            let must = |i: usize| ("must-find".to_string(), i);
            add("midx-rewrite-add-scripted", true, vec![vec![f(0), sync("signal"), sync("await"), must(5), f(1)]], vec![false], vec![false], bound);
            add("midx-rewrite-add-scripted", true, vec![vec![has(1), sync("signal"), sync("await"), must(5)]], vec![true], vec![false], bound.min(1));
        }
        for h in ["repack-add-refresh", "trash-reuse"] {
            add(h, false, vec![vec![has(0), f(0)]], vec![false], vec![false], bound);
            add(h, false, vec![vec![has(1), f(1), f(0)]], vec![false], vec![false], bound.min(1));
        }
        if bound <= 1 || !q {
            // two readers sharing the store: index loading races + consolidation
            add("none", false, vec![vec![f(0)], vec![f(1)]], vec![false, false], vec![false, false], bound);
            add("repack", false, vec![vec![f(0)], vec![f(1)]], vec![false, false], vec![false, false], bound.min(1));
            add("repack", false, vec![vec![f(0)], vec![f(0)]], vec![true, false], vec![false, false], bound.min(1));
            add("pack-loose", false, vec![vec![f(2)], vec![has(2)]], vec![false, false], vec![false, false], bound.min(1));
            add("midx-repack", true, vec![vec![f(0)], vec![f(1)]], vec![false, true], vec![false, false], bound.min(1));
        }
    }
    if q {
        // quick: everything at bound 0; at bound 1 one reader variant per history and two of the two-reader cases;
        // the scripted histories force their order themselves and are explored at bound 1 in the thorough tier
        let mut seen = std::collections::BTreeSet::new();
        cases.retain(|c| {
            if c.bound == 0 {
                return true;
            }
            if c.history.ends_with("-scripted") {
                return false;
            }
            if c.readers.len() == 2 {
                return matches!(c.history.as_str(), "none" | "pack-loose");
            }
            seen.insert((c.history.clone(), c.readers[0][0].0.clone()))
        });
    }
    if let Ok(only) = std::env::var("VERIF_C12_ONLY") {
        // development aid: restrict to one history (reported as a cap)
        cases.retain(|c| c.history == only);
        run.cap_hit("VERIF_C12_ONLY set: only one history explored");
    }
    cases.sort_by_key(|c| c.bound);
    cases.dedup_by(|a, b| vkit::hash_of(a) == vkit::hash_of(b));
    run.sub_with("schedules", vkit::Opts::default().chunk(1024), |emit| cases.into_iter().for_each(|c| emit(c)), |c: &Cfg| eval(run, &fx, c));
    let mut per_case = PER_CASE.lock().unwrap().clone();
    per_case.sort();
    run.cov("explorations", per_case);
}
