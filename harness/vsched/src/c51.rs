//! C51 — parallel helpers: every item is processed exactly once, results are complete, errors propagate, no deadlock.
//! E3: all interleavings of the real `gix_features::parallel` helpers up to a preemption bound.
use crate::sched::{explore, Explored};
use gix_features::parallel::{self, Reduce};
use gix_features::verif_sched::std_shim::sync::atomic::{AtomicBool as WBool, AtomicIsize as WIsize};
use serde::{Deserialize, Serialize};
use std::sync::atomic::{AtomicU32, Ordering};
use std::sync::Arc;
use std::time::{Duration, Instant};
use vkit::{bad, ok, Run, Verdict};
#[allow(unused_imports)]
use vkit::ok_trivial;

#[derive(Serialize, Deserialize, Hash, Clone, Debug)]
pub struct Cfg {
    helper: String,
    workers: usize,
    items: usize,
    /// consumer (slice) / reducer (others) fails at this item / feed number; Stepwise: number of results taken before drop
    fail_at: Option<usize>,
    bound: usize,
    /// replay exactly this schedule instead of exploring
    schedule: Option<Vec<usize>>,
}

fn counters(n: usize) -> Arc<Vec<AtomicU32>> {
    Arc::new((0..n).map(|_| AtomicU32::new(0)).collect())
}
fn counts(c: &[AtomicU32]) -> Vec<u32> {
    c.iter().map(|x| x.load(Ordering::SeqCst)).collect()
}

struct Collect {
    got: Vec<u32>,
    fail_at: Option<usize>,
}
impl Reduce for Collect {
    type Input = u32;
    type FeedProduce = u32;
    type Output = Vec<u32>;
    type Error = String;
    fn feed(&mut self, item: u32) -> Result<u32, String> {
        if Some(self.got.len()) == self.fail_at {
            return Err(format!("reducer-failed-at-{}", self.got.len()));
        }
        self.got.push(item);
        Ok(item)
    }
    fn finalize(mut self) -> Result<Vec<u32>, String> {
        self.got.sort_unstable();
        Ok(self.got)
    }
}

fn expect_all(n: usize) -> Vec<u32> {
    (0..n as u32).map(|i| i * 10).collect()
}

/// one execution of the configured helper; Ok(observation class) / Err(violation)
fn body(c: &Cfg) -> Result<String, String> {
    let n = c.items;
    let seen = counters(n);
    match c.helper.as_str() {
        "slice" => {
            let mut items: Vec<u32> = vec![0; n];
            let res = parallel::in_parallel_with_slice(
                &mut items,
                Some(c.workers),
                |_tid| 0usize,
                move |item: &mut u32, st: &mut usize, _left: &WIsize, _stop: &WBool| -> Result<(), String> {
                    *item += 1;
                    *st += 1;
                    Ok(())
                },
                || Some(Duration::from_millis(1)),
                |st| st,
            );
            match res {
                Ok(per_thread) => {
                    if items.iter().any(|&x| x != 1) {
                        return Err(format!("consumed-not-once: per-item consumption counts {items:?}"));
                    }
                    if per_thread.len() != c.workers || per_thread.iter().sum::<usize>() != n {
                        return Err(format!("results-incomplete: per-thread states {per_thread:?} for {n} items"));
                    }
                    Ok(format!("dist={per_thread:?}"))
                }
                Err(e) => Err(format!("unexpected-error: {e}")),
            }
        }
        "slice-fail" => {
            // the consumer fails on the item with index fail_at (items carry their index in the high bits)
            let k = c.fail_at.unwrap_or(0) as u32;
            let mut items: Vec<u32> = (0..n as u32).map(|i| i << 8).collect();
            let res = parallel::in_parallel_with_slice(
                &mut items,
                Some(c.workers),
                |_tid| 0usize,
                move |item: &mut u32, st: &mut usize, _left: &WIsize, _stop: &WBool| -> Result<(), String> {
                    *item += 1;
                    *st += 1;
                    if *item >> 8 == k {
                        Err(format!("consumer-failed-at-{k}"))
                    } else {
                        Ok(())
                    }
                },
                || Some(Duration::from_millis(1)),
                |st| st,
            );
            let cnt: Vec<u32> = items.iter().map(|x| x & 0xff).collect();
            if cnt.iter().any(|&x| x > 1) {
                return Err(format!("consumed-twice: per-item consumption counts {cnt:?}"));
            }
            match res {
                Err(e) if e == format!("consumer-failed-at-{k}") => Ok(format!("err consumed={cnt:?}")),
                Err(e) => Err(format!("wrong-error: {e}")),
                Ok(r) => Err(format!("error-lost: consumer failed at item {k} but the call returned Ok({r:?})")),
            }
        }
        "in_parallel" | "with_finalize" => {
            let seen2 = seen.clone();
            let consume = move |i: u32, st: &mut u32| {
                seen2[i as usize].fetch_add(1, Ordering::SeqCst);
                *st += 1;
                i * 10
            };
            let reducer = Collect { got: Vec::new(), fail_at: c.fail_at };
            let res = if c.helper == "in_parallel" {
                parallel::in_parallel(0..n as u32, Some(c.workers), |_| 0u32, consume, reducer)
            } else {
                // finalize reports the per-thread count, offset so it cannot collide with item outputs
                parallel::in_parallel_with_finalize(0..n as u32, Some(c.workers), |_| 0u32, consume, |st| 1_000_000 + st, reducer)
            };
            let cnt = counts(&seen);
            if cnt.iter().any(|&x| x > 1) {
                return Err(format!("consumed-twice: per-item consumption counts {cnt:?}"));
            }
            match (res, c.fail_at) {
                (Ok(got), None) => {
                    if cnt.iter().any(|&x| x != 1) {
                        return Err(format!("consumed-not-once: {cnt:?}"));
                    }
                    let (fin, outs): (Vec<u32>, Vec<u32>) = got.iter().partition(|&&x| x >= 1_000_000);
                    if outs != expect_all(n) {
                        return Err(format!("results-incomplete: reducer got {outs:?}, expected {:?}", expect_all(n)));
                    }
                    if c.helper == "with_finalize" {
                        let total: u32 = fin.iter().map(|x| x - 1_000_000).sum();
                        if fin.len() != c.workers || total as usize != n {
                            return Err(format!("finalize-incomplete: finalize outputs {fin:?} for {} workers / {n} items", c.workers));
                        }
                        return Ok(format!("ok fin={fin:?}"));
                    }
                    Ok("ok".into())
                }
                (Ok(got), Some(k)) => {
                    // fewer than k+1 feeds can only happen if there are fewer outputs than k+1
                    let outputs = n + if c.helper == "with_finalize" { c.workers } else { 0 };
                    if k < outputs {
                        Err(format!("error-lost: reducer failed at feed {k} but the call returned Ok({got:?})"))
                    } else {
                        Ok("ok-no-failure-reached".into())
                    }
                }
                (Err(e), Some(k)) if e == format!("reducer-failed-at-{k}") => Ok(format!("err consumed={}", cnt.iter().sum::<u32>())),
                (Err(e), _) => Err(format!("unexpected-error: {e}")),
            }
        }
        "stepwise" => {
            let seen2 = seen.clone();
            let mut sw = parallel::reduce::Stepwise::new(
                0..n as u32,
                Some(c.workers),
                |_| 0u32,
                move |i: u32, _st: &mut u32| {
                    seen2[i as usize].fetch_add(1, Ordering::SeqCst);
                    i * 10
                },
                Collect { got: Vec::new(), fail_at: None },
            );
            match c.fail_at {
                None => {
                    let got = sw.finalize().map_err(|e| format!("unexpected-error: {e}"))?;
                    let cnt = counts(&seen);
                    if got != expect_all(n) || cnt.iter().any(|&x| x != 1) {
                        return Err(format!("results-incomplete: got {got:?}, consumption {cnt:?}"));
                    }
                    Ok("finalized".into())
                }
                Some(k) => {
                    let mut taken = Vec::new();
                    for _ in 0..k {
                        match sw.next() {
                            Some(Ok(v)) => taken.push(v),
                            Some(Err(e)) => return Err(format!("unexpected-error: {e}")),
                            None => break,
                        }
                    }
                    drop(sw); // must join all threads without deadlock
                    let cnt = counts(&seen);
                    if cnt.iter().any(|&x| x > 1) {
                        return Err(format!("consumed-twice: {cnt:?}"));
                    }
                    let mut t = taken.clone();
                    t.sort_unstable();
                    t.dedup();
                    if t.len() != taken.len() || taken.len() != k.min(n) || taken.iter().any(|v| v % 10 != 0 || (*v / 10) as usize >= n) {
                        return Err(format!("results-wrong: took {taken:?} of {n} items asking for {k}"));
                    }
                    Ok(format!("dropped-after-{} consumed={}", taken.len(), cnt.iter().sum::<u32>()))
                }
            }
        }
        "eager" => {
            // workers = chunk size, fail_at = number of items taken before drop (None = all)
            let it = parallel::EagerIter::new(0..n as u32, c.workers.max(1), 1);
            match c.fail_at {
                None => {
                    let got: Vec<u32> = it.collect();
                    if got != (0..n as u32).collect::<Vec<_>>() {
                        return Err(format!("results-wrong: eager iteration produced {got:?}"));
                    }
                    Ok("all".into())
                }
                Some(k) => {
                    let got: Vec<u32> = it.take(k).collect();
                    if got != (0..n.min(k) as u32).collect::<Vec<_>>() {
                        return Err(format!("results-wrong: eager iteration produced {got:?}"));
                    }
                    Ok(format!("took-{}", got.len()))
                }
            }
        }
        "join" => {
            let (a, b) = parallel::join(|| 1u32, || 2u32);
            if (a, b) != (1, 2) {
                return Err(format!("results-wrong: join returned {:?}", (a, b)));
            }
            Ok("joined".into())
        }
        other => vkit::machinery!("unknown helper {other}"),
    }
}

static PER_CASE: std::sync::Mutex<Vec<String>> = std::sync::Mutex::new(Vec::new());

fn eval(run: &Run, c: &Cfg) -> Verdict {
    let cfg = c.clone();
    let secs = if run.quick() { 40.0 } else { 900.0 };
    let t0 = Instant::now();
    let deadline = Instant::now() + Duration::from_secs_f64(secs);
    let ex: Explored = if c.schedule.is_none() && !run.quick() && c.bound >= 2 {
        // big spaces: explore the subtrees below all 12-decision prefixes on 8 workers
        crate::sched::explore_parallel(c.bound, 8, 12, deadline, |_w| {
            let cfg = cfg.clone();
            move || body(&cfg)
        })
    } else {
        explore(c.bound, u64::MAX, deadline, c.schedule.clone(), move || body(&cfg))
    };
    run.mc_transitions(ex.decisions);
    run.mc_validated(ex.executions);
    run.mc_states_bulk((0..ex.executions).map(|i| vkit::hash_of(&(c, i))));
    run.cov_add(&format!("executions_bound_{}", c.bound), ex.executions);
    PER_CASE.lock().unwrap().push(format!(
        "{} workers={} items={} fail_at={:?} bound={}: executions={} decisions={} max_steps={} complete={} outcomes={} secs={:.1}",
        c.helper, c.workers, c.items, c.fail_at, c.bound, ex.executions, ex.decisions, ex.max_steps, ex.complete, ex.outcomes.len(), t0.elapsed().as_secs_f64()
    ));
    if let Some(f) = ex.failure {
        let msg = format!("{} | helper={} schedule={:?} (choice indices)", f.what, c.helper, f.schedule);
        if c.schedule.is_some() {
            return Err(msg);
        }
        // record the violation with the failing schedule inside the case, so that --replay runs exactly that execution
        let mut with_schedule = c.clone();
        with_schedule.schedule = Some(f.schedule);
        run.violation("schedules", &with_schedule, msg);
        return vkit::ok_trivial(format!("{}:violation-recorded", c.helper));
    }
    if !ex.complete {
        run.cap_hit(format!("{:?}: bound {} not finished within the time cap ({} executions done)", c.helper, c.bound, ex.executions));
        return ok(format!("{}:capped", c.helper));
    }
    if ex.outcomes.is_empty() {
        return bad("vacuous", "no execution completed");
    }
    ok(format!("{}:b{}:outcomes={}", c.helper, c.bound, ex.outcomes.len()))
}

pub fn run(run: &'static Run) {
    run.rule("helpers of gix_features::parallel run on the controlled scheduler: in_parallel_with_slice (also with a failing consumer at each item), \
        in_parallel and in_parallel_with_finalize (also with a reducer failing at each feed), Stepwise (finalize / drop after k results), EagerIter (all / drop after k), join; \
        2 workers x 0..3 items (quick) / up to 3 workers x 4 items (thorough); ALL interleavings with at most b preemptions, b iterated 0,1,2(,3); \
        scheduling points: every channel/mutex/condvar/spawn/join operation and every atomic access in the instrumented files; \
        a case = one (helper, sizes, failure point, bound) whose whole schedule space was explored; states = executions (distinct schedules), transitions = scheduling decisions");
    run.assume("sequentially consistent interleavings only (the helpers synchronise with SeqCst atomics and channels; Relaxed flags only decide when a loop stops)");
    run.assume("trusted: shuttle 0.9.3 runtime; crossbeam-channel is replaced by a bounded MPMC channel on shuttle Mutex+Condvar with crossbeam's disconnect semantics");
    let q = run.quick();
    let mut cases: Vec<Cfg> = Vec::new();
    let mut add = |helper: &str, workers: usize, items: usize, fail_at: Option<usize>, bound: usize| {
        cases.push(Cfg { helper: helper.into(), workers, items, fail_at, bound, schedule: None });
    };
    // slice-based helper: cheap, deeper bounds
    for bound in 0..=(if q { 2 } else { 3 }) {
        for items in 0..=3 {
            add("slice", 2, items, None, bound);
        }
        for k in 0..3 {
            add("slice-fail", 2, 3, Some(k), bound.min(2));
        }
    }
    if !q {
        add("slice", 3, 4, None, 2);
        add("slice", 3, 3, None, 2);
    }
    // channel-based helpers
    for helper in ["in_parallel", "with_finalize"] {
        for bound in 0..=1 {
            for items in 0..=3 {
                add(helper, 2, items, None, bound);
            }
            for k in 0..3 {
                add(helper, 2, 3, Some(k), bound);
            }
        }
        let max2 = if q { 1 } else { 3 };
        for items in 0..=max2 {
            add(helper, 2, items, None, 2);
        }
        add(helper, 2, max2.min(2), Some(0), 2);
        add(helper, 2, max2.min(2), Some(1), 2);
    }
    for bound in 0..=2 {
        let items = if bound == 2 { 2 } else { 3 };
        add("stepwise", 2, items, None, bound);
        for k in 0..=2 {
            add("stepwise", 2, items, Some(k), bound);
        }
        add("eager", 1, 3, None, bound);
        add("eager", 2, 3, None, bound);
        add("eager", 2, 3, Some(1), bound);
        add("join", 2, 0, None, bound);
    }
    cases.sort_by_key(|c| c.bound);
    cases.dedup_by(|a, b| vkit::hash_of(a) == vkit::hash_of(b));
    run.sub_with("schedules", vkit::Opts::default().chunk(1024), |emit| cases.into_iter().for_each(|c| emit(c)), |c: &Cfg| eval(run, c));

    let mut per_case = PER_CASE.lock().unwrap().clone();
    per_case.sort();
    run.cov("explorations", per_case);

    // engine self-test: the parallel (prefix-split) exploration must cover exactly the executions of the sequential one
    if !run.is_replay() {
        let cfg = Cfg { helper: "slice".into(), workers: 2, items: 3, fail_at: None, bound: 2, schedule: None };
        let far = Instant::now() + Duration::from_secs(600);
        let c1 = cfg.clone();
        let seq = explore(2, u64::MAX, far, None, move || body(&c1));
        let par = crate::sched::explore_parallel(2, 8, 10, far, |_w| {
            let c2 = cfg.clone();
            move || body(&c2)
        });
        run.cov("engine_selftest", format!("sequential executions={} outcomes={:?}; parallel executions={} outcomes={:?}", seq.executions, seq.outcomes, par.executions, par.outcomes));
        if seq.executions != par.executions || seq.outcomes != par.outcomes || seq.failure.is_some() != par.failure.is_some() {
            run.machinery_error(format!("parallel exploration differs from sequential: {} vs {} executions", seq.executions, par.executions));
        }
    }

    // InOrderIter: pure, all permutations of <= 6 sequence ids, with an error at each position
    in_order(run);
}

#[derive(Serialize, Deserialize, Hash, Clone, Debug)]
struct OrderCase {
    perm: Vec<usize>,
    err_at: Option<usize>,
}

fn in_order(run: &'static Run) {
    let maxn = run.pick(5, 6);
    run.sub(
        "in-order-iter",
        |emit| {
            for n in 0..=maxn {
                let ids: Vec<usize> = (0..n).collect();
                vkit::enumerate::permutations(&ids, |p| {
                    emit(OrderCase { perm: p.to_vec(), err_at: None });
                    for e in 0..n {
                        emit(OrderCase { perm: p.to_vec(), err_at: Some(e) });
                    }
                });
            }
        },
        |c: &OrderCase| -> Verdict {
            // items arrive in permuted order, tagged with their sequence id; the error replaces the item with id err_at
            let input = c.perm.iter().map(|&id| if Some(id) == c.err_at { Err::<(usize, usize), String>(format!("e{id}")) } else { Ok((id, id * 10)) });
            let got: Vec<Result<usize, String>> = parallel::InOrderIter::from(input).collect();
            // expected: values in id order up to (not including) the point where the error is met in arrival order ...
            // reference model: process arrivals in order; keep a buffer; emit consecutive ids; on Err emit it and stop.
            let mut expect: Vec<Result<usize, String>> = Vec::new();
            let mut buf = std::collections::BTreeMap::new();
            let mut next = 0usize;
            'outer: for &id in &c.perm {
                if Some(id) == c.err_at {
                    expect.push(Err(format!("e{id}")));
                    break 'outer;
                }
                buf.insert(id, id * 10);
                while let Some(v) = buf.remove(&next) {
                    expect.push(Ok(v));
                    next += 1;
                }
            }
            // the property: results come out in sequence order, each once, and an error is surfaced
            let oks: Vec<usize> = got.iter().filter_map(|r| r.as_ref().ok().copied()).collect();
            if oks.windows(2).any(|w| w[0] >= w[1]) {
                return bad("out-of-order", format!("got {got:?}"));
            }
            if c.err_at.is_some() != got.iter().any(|r| r.is_err()) {
                return bad("error-lost", format!("got {got:?}"));
            }
            if c.err_at.is_none() && oks != (0..c.perm.len()).map(|i| i * 10).collect::<Vec<_>>() {
                return bad("results-incomplete", format!("got {got:?}"));
            }
            // informational agreement with the boring model (not required by the property): only check prefix consistency
            if got.iter().zip(&expect).any(|(a, b)| a.is_ok() && b.is_ok() && a != b) {
                return bad("model-mismatch", format!("got {got:?} model {expect:?}"));
            }
            ok(if c.err_at.is_some() { "with-error" } else { "complete" })
        },
    );
}
