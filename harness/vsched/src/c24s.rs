//! C24, thread schedules of index decoding: `gix_index::State::from_bytes` loads the extensions in a thread of their own (EOIE) and the
//! entries in several chunk threads (IEOT), joined through `InOrderIter`. On the controlled scheduler (spawn / join / every channel or
//! atomic operation of the instrumented gix-features helpers are scheduling points) ALL interleavings with at most b preemptions must
//! decode to the state the single-threaded decode gives. Helper mode `--c24-sched <json>`, spawned by g-index's C24.
use crate::sched::{explore, Explored};
use serde::{Deserialize, Serialize};
use std::collections::BTreeMap;
use std::sync::{Arc, Mutex};
use std::time::{Duration, Instant};

trait PipeDigest {
    fn pipe_digest(self, data: &[u8]) -> String;
}
impl PipeDigest for gix_features::hash::Hasher {
    fn pipe_digest(mut self, data: &[u8]) -> String {
        self.update(data);
        gix_hash::ObjectId::from(self.digest()).to_string()
    }
}

#[derive(Serialize, Deserialize, Clone, Hash, Debug)]
pub struct Scn {
    pub index: String,
    pub thread_limit: usize,
    pub bound: usize,
    pub secs: u64,
    pub schedule: Option<Vec<usize>>,
}

#[derive(Serialize, Deserialize, Debug, Default)]
pub struct Report {
    pub executions: u64,
    pub decisions: u64,
    pub max_steps: usize,
    pub complete: bool,
    pub outcomes: BTreeMap<String, u64>,
    pub failure: Option<(Vec<usize>, String)>,
    pub per_bound: Vec<(usize, u64)>,
    pub entries: usize,
}

fn decode(bytes: &[u8], threads: usize) -> Result<(String, usize), String> {
    let (state, _checksum) = gix_index::State::from_bytes(
        bytes,
        filetime::FileTime::from_unix_time(0, 0),
        gix_hash::Kind::Sha1,
        gix_index::decode::Options { thread_limit: Some(threads), min_extension_block_in_bytes_for_threading: 0, expected_checksum: None },
    )
    .map_err(|e| format!("decode-error: from_bytes failed with thread_limit {threads}: {e}"))?;
    let mut fp = format!("v={:?} sparse={} entries=[", state.version(), state.is_sparse());
    for e in state.entries() {
        fp.push_str(&format!("{:?}|{:?};", e.path(&state), e));
    }
    fp.push_str(&format!(
        "] tree={:?} link={} resolve-undo-paths={:?} untracked={} fsmonitor={}",
        state.tree(),
        state.link().is_some(),
        state.resolve_undo().map(|v| v.len()),
        state.untracked().is_some(),
        state.fs_monitor().is_some()
    ));
    // the serialised form covers what Debug does not show (all extensions gitoxide writes back)
    let mut out = Vec::new();
    if state.write_to(&mut out, gix_index::write::Options::default()).is_ok() {
        fp.push_str(&format!(" rewritten-len={} rewritten-hash={}", out.len(), gix_features::hash::hasher(gix_hash::Kind::Sha1).pipe_digest(&out)));
    }
    Ok((fp, state.entries().len()))
}

pub fn run_child(json: &str) -> i32 {
    let scn: Scn = match serde_json::from_str(json) {
        Ok(s) => s,
        Err(e) => {
            eprintln!("MACHINERY: bad scenario: {e}");
            return 2;
        }
    };
    let bytes = match std::fs::read(&scn.index) {
        Ok(b) => Arc::new(b),
        Err(e) => {
            eprintln!("MACHINERY: cannot read {}: {e}", scn.index);
            return 2;
        }
    };
    if scn.schedule.is_some() && std::env::var_os("VSCHED_TRACE").is_some() {
        gix_features::verif_sched::TRACE.store(true, std::sync::atomic::Ordering::Relaxed);
    }
    let deadline = Instant::now() + Duration::from_secs(scn.secs);
    let mut rep = Report { complete: true, ..Default::default() };
    let reference: Arc<Mutex<Option<Result<(String, usize), String>>>> = Default::default();
    {
        let (r2, b2) = (reference.clone(), bytes.clone());
        let ex = explore(0, 1, deadline, None, move || {
            let r = decode(&b2, 1);
            let ok = r.is_ok();
            *r2.lock().unwrap() = Some(r);
            if ok {
                Ok("reference".into())
            } else {
                Err("reference failed".into())
            }
        });
        if ex.failure.is_some() {
            let why = match reference.lock().unwrap().take() {
                Some(Err(e)) => e,
                _ => ex.failure.map(|f| f.what).unwrap_or_default(),
            };
            rep.failure = Some((Vec::new(), format!("{why} [single-threaded reference]")));
            rep.complete = false;
            println!("C24S-REPORT {}", serde_json::to_string(&rep).unwrap());
            return 0;
        }
    }
    let (ref_fp, n) = reference.lock().unwrap().take().unwrap().unwrap();
    rep.entries = n;
    let ref_fp = Arc::new(ref_fp);
    let bounds: Vec<usize> = if scn.schedule.is_some() { vec![scn.bound] } else { (0..=scn.bound).collect() };
    for b in bounds {
        let (b2, r2, tl) = (bytes.clone(), ref_fp.clone(), scn.thread_limit);
        let ex: Explored = explore(b, u64::MAX, deadline, scn.schedule.clone(), move || {
            let (fp, n) = decode(&b2, tl)?;
            if fp != *r2 {
                let at = fp.bytes().zip(r2.bytes()).position(|(a, b)| a != b).unwrap_or(fp.len().min(r2.len()));
                return Err(format!(
                    "thread-limit-differs: state decoded with thread_limit {tl} differs from the single-threaded one near {:?} vs {:?}",
                    fp.get(at.saturating_sub(40)..(at + 60).min(fp.len())),
                    r2.get(at.saturating_sub(40)..(at + 60).min(r2.len()))
                ));
            }
            Ok(format!("identical:{n}-entries"))
        });
        rep.executions += ex.executions;
        rep.decisions += ex.decisions;
        rep.max_steps = rep.max_steps.max(ex.max_steps);
        rep.complete &= ex.complete;
        rep.per_bound.push((b, ex.executions));
        for (k, v) in ex.outcomes {
            *rep.outcomes.entry(k).or_default() += v;
        }
        if let Some(f) = ex.failure {
            rep.failure = Some((f.schedule, format!("{} [preemption bound {b}]", f.what)));
            break;
        }
        if !ex.complete {
            break;
        }
    }
    println!("C24S-REPORT {}", serde_json::to_string(&rep).unwrap());
    0
}
