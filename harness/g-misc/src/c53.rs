//! C53 — mailmap resolution agrees with `git check-mailmap` (E1: bounded-exhaustive mailmap files x identities).
//!
//! A case is a whole mailmap file (a sequence of line templates + line terminator). The evaluator builds the gitoxide
//! `Snapshot` from the bytes, resolves every identity of the identity alphabet and compares each result with what
//! one `git -c mailmap.file=<file> check-mailmap --stdin` call prints for the same identities.
use bstr::ByteSlice;
use serde::{Deserialize, Serialize};
use std::sync::atomic::{AtomicU64, Ordering};
use vkit::{bad, enumerate, ok, ok_trivial, Run, Verdict};

#[derive(Serialize, Deserialize, Hash, Clone, Debug)]
struct MapCase {
    /// the lines of the mailmap file, without terminator
    lines: Vec<String>,
    /// line terminator, also put after the last line unless `no_final_eol`
    eol: String,
    no_final_eol: bool,
    /// suffix carried by every commit email of this file (and of its identities): keeps the files of one batch disjoint
    tag: String,
}

/// Several mailmap files with pairwise disjoint commit emails, checked with one `git check-mailmap` call on their concatenation.
#[derive(Serialize, Deserialize, Hash, Clone, Debug)]
struct Batch {
    files: Vec<MapCase>,
}
impl MapCase {
    fn bytes(&self) -> Vec<u8> {
        let mut out = Vec::new();
        for (i, l) in self.lines.iter().enumerate() {
            out.extend_from_slice(l.as_bytes());
            if i + 1 < self.lines.len() || !self.no_final_eol {
                out.extend_from_slice(self.eol.as_bytes());
            }
        }
        out
    }
}

const OLD_NAMES: [&str; 3] = ["A", "a", "AB"];
const OLD_EMAILS: [&str; 3] = ["x@", "X@", "x@y"];

/// Line templates; `{i}` is replaced by the line's position so that it is visible which line won.
/// Returns the templates and how many of them (the first n) are regular entry forms.
fn templates(thorough: bool) -> (Vec<String>, usize) {
    let mut t: Vec<String> = Vec::new();
    for e in OLD_EMAILS {
        t.push(format!("N{{i}} <{{t}}{e}>")); // Proper Name <commit@email>
        t.push(format!("<m{{i}}@> <{{t}}{e}>")); // <proper@email> <commit@email>
        t.push(format!("N{{i}} <m{{i}}@> <{{t}}{e}>")); // Proper Name <proper@email> <commit@email>
    }
    for e in OLD_EMAILS {
        for n in OLD_NAMES {
            if !thorough && (e == "x@y" && n != "A" || n == "AB" && e != "x@") {
                continue;
            }
            t.push(format!("N{{i}} <m{{i}}@> {n} <{{t}}{e}>")); // Proper Name <proper@email> Commit Name <commit@email>
            t.push(format!("<m{{i}}@> {n} <{{t}}{e}>")); // <proper@email> Commit Name <commit@email>
        }
    }
    let n_regular = t.len();
    // comments, blanks, whitespace, and lines at the edge of the grammar
    for s in [
        "# N{i} <x@>",
        "",
        " # N{i} <x@>",
        "  N{i}  <m{i}@>   A  <x@>  ",
        "N{i}<m{i}@>A<x@>",
        "N{i} <x@",
        "<x@>",
        "N{i} x@",
        "N {i} <x@>",
    ] {
        t.push(s.replace("x@", "{t}x@"));
    }
    (t, n_regular)
}

/// Edge lines where git's line parser is more lenient than gitoxide's (trailing text, spaces inside <>, empty commit email).
fn lenient_templates() -> Vec<String> {
    ["N{i} <x@> # trailing", "N{i} < x@ >", "N{i} <m{i}@> <>"].iter().map(|s| s.replace("x@", "{t}x@")).collect()
}

/// Further edge lines, used in files shorter than the maximum length only.
fn extra_templates() -> Vec<String> {
    ["N{i} <m{i}@> <x@> trailing", "N{i} <m{i}@> A <x@> <x@y>", "N{i} <>", "N{i} <m{i}@> A <x@", "<m{i}@> <x@>\t#c"]
        .iter()
        .map(|s| s.replace("x@", "{t}x@"))
        .collect()
}

const IDS_PER_FILE: usize = 20;
fn identities(tag: &str) -> Vec<(String, String)> {
    let mut v = Vec::new();
    for n in ["A", "a", "AB", ""] {
        for e in [format!("{tag}x@"), format!("{tag}X@"), format!("{tag}x@y"), format!(" {tag}x@ "), String::new()] {
            v.push((n.to_string(), e));
        }
    }
    assert_eq!(v.len(), IDS_PER_FILE);
    v
}

fn git_resolve(repo: &std::path::Path, scratch: &std::path::Path, bytes: &[u8], ids: &[(String, String)]) -> Vec<(String, String)> {
    let file = scratch.join(format!("mailmap.{:016x}.{:?}", vkit::hash_of(bytes), std::thread::current().id()).replace(['(', ')'], ""));
    if let Err(e) = std::fs::write(&file, bytes) {
        vkit::machinery!("cannot write {}: {e}", file.display());
    }
    let mut stdin = Vec::new();
    for (n, e) in ids {
        if n.is_empty() {
            stdin.extend_from_slice(format!("<{e}>\n").as_bytes());
        } else {
            stdin.extend_from_slice(format!("{n} <{e}>\n").as_bytes());
        }
    }
    let arg = format!("mailmap.file={}", file.display());
    let out = vkit::git::try_git_in(repo, &["-c", arg.as_str(), "check-mailmap", "--stdin"], &stdin);
    let _ = std::fs::remove_file(&file);
    if !out.ok {
        vkit::machinery!("git check-mailmap failed: {}", out.err_text());
    }
    let text = String::from_utf8_lossy(&out.stdout).into_owned();
    let mut res = Vec::new();
    for line in text.split('\n') {
        if line.is_empty() {
            continue;
        }
        let (Some(lt), Some(gt)) = (line.rfind('<'), line.rfind('>')) else { vkit::machinery!("unexpected check-mailmap output line {line:?}") };
        if gt + 1 != line.len() || gt < lt {
            vkit::machinery!("unexpected check-mailmap output line {line:?}");
        }
        let name = line[..lt].strip_suffix(' ').unwrap_or(&line[..lt]);
        res.push((name.to_string(), line[lt + 1..gt].to_string()));
    }
    if res.len() != ids.len() {
        vkit::machinery!("check-mailmap printed {} lines for {} identities: {text:?}", res.len(), ids.len());
    }
    res
}

struct Diff {
    mismatch: Option<(&'static str, String)>,
    mapped: usize,
    case_dev: usize,
}

/// Compare gitoxide's and git's answers for all identities (first mismatch wins).
fn diff(ids: &[(String, String)], ours: &[(String, String)], theirs: &[(String, String)]) -> Diff {
    let mut d = Diff { mismatch: None, mapped: 0, case_dev: 0 };
    for (((name, email), (oname, oemail)), (gname, gemail)) in ids.iter().zip(ours).zip(theirs) {
        if (gname, gemail) != (name, email) {
            d.mapped += 1;
        }
        let same_name = oname == gname;
        let same_email = oemail == gemail;
        if same_name && same_email {
            continue;
        }
        // documented deviation: email spelling taken from the mailmap when it differs from the input only in ASCII case
        if same_name && gemail == email && oemail.eq_ignore_ascii_case(gemail) {
            d.case_dev += 1;
            continue;
        }
        let shape = match (same_name, same_email) {
            (false, true) => "name-differs",
            (true, false) => "email-differs",
            _ => "name-and-email-differ",
        };
        d.mismatch = Some((shape, format!("identity ({name:?}, {email:?}) -> gitoxide ({oname:?}, {oemail:?}), git ({gname:?}, {gemail:?})")));
        return d;
    }
    d
}

/// The mailmap re-written from the entries gitoxide's parser produced (refused lines dropped, fields as parsed),
/// and the name of the line-level difference to git's line parser if there is one.
fn as_gitoxide_read_it(bytes: &[u8]) -> (Vec<u8>, Option<&'static str>) {
    let mut out = Vec::new();
    let mut kinds: Vec<&'static str> = Vec::new();
    for r in gix_mailmap::parse(bytes) {
        match r {
            Ok(e) => {
                let mut parts: Vec<Vec<u8>> = Vec::new();
                if let Some(n) = e.new_name() {
                    parts.push(n.to_vec());
                }
                if let Some(m) = e.new_email() {
                    parts.push([&b"<"[..], m.as_bytes(), &b">"[..]].concat());
                }
                if let Some(n) = e.old_name() {
                    parts.push(n.to_vec());
                }
                parts.push([&b"<"[..], e.old_email().as_bytes(), &b">"[..]].concat());
                let line = parts.join(&b" "[..]);
                if line.first() == Some(&b'#') {
                    // a name that starts with '#' (possible after leading whitespace) must not become a comment
                    out.push(b' ');
                }
                out.extend_from_slice(&line);
                out.push(b'\n');
            }
            Err(gix_mailmap::parse::Error::UnconsumedInput { line, .. }) if line.contains(&b'<') => kinds.push("line-with-trailing-text-skipped"),
            Err(gix_mailmap::parse::Error::Malformed { message, .. }) if message.contains("must not be empty") => kinds.push("line-with-empty-email-skipped"),
            Err(gix_mailmap::parse::Error::Malformed { message, .. }) if message.contains("closing bracket") => kinds.push("line-with-unclosed-email-skipped"),
            Err(_) => kinds.push("other-line-skipped"),
        }
    }
    for k in ["line-with-trailing-text-skipped", "line-with-empty-email-skipped", "line-with-unclosed-email-skipped"] {
        if kinds.contains(&k) {
            return (out, Some(k));
        }
    }
    if bytes.find(b"< ").is_some() || bytes.find(b" >").is_some() {
        return (out, Some("email-whitespace-trimmed"));
    }
    (out, None)
}

/// development aid: with C53_DUMP=<file> every violation message is appended to that file
fn dump(v: Verdict) -> Verdict {
    if let (Err(m), Ok(path)) = (&v, std::env::var("C53_DUMP")) {
        use std::io::Write;
        if let Ok(mut f) = std::fs::OpenOptions::new().create(true).append(true).open(path) {
            let _ = f.write_all(format!("{m}\n").as_bytes());
        }
    }
    v
}

pub fn run(run: &'static Run) {
    run.rule(
        "mailmap files = all sequences of line templates: quick = all files of <= 1 line over all 44 templates + all 2-line files over 39 (without 5 rarer edge lines); thorough = all files of <= 2 lines over all 44 + all 3-line files over the 36 templates without the 8 lines git reads more leniently / rarer edge lines. templates: the five entry forms (name<-email, email<-email, name+email<-email, name+email<-name+email, email<-name+email) \
         with commit names {A,a,AB} and commit emails {x@,X@,x@y} (case variants, prefix extensions, duplicates across lines; every email of a file carries the file's numeric prefix), proper name/email tagged with the line position; \
         comment, blank, indented comment, extra whitespace, no whitespace, trailing text after the last '>', three emails, spaces inside <>, missing '>', empty <>, bare <email>, no brackets, name with inner space; \
         one-line files additionally with CRLF and with no final newline. identities = names {A,a,AB,''} x emails {x@,X@,x@y,' x@ ',''}. \
         non-trivial = git maps at least one identity and every identity resolves identically",
    );
    run.assume("files whose commit emails are pairwise disjoint (distinct numeric prefix) are concatenated, 32 at a time, into one mailmap for one git call: git keys entries by commit email, so disjoint files do not interact; every difference found is re-checked on the file alone before it is reported");
    run.assume("git 2.39.5 `git -c mailmap.file=<f> check-mailmap --stdin` in an empty repository as oracle; names and emails are ASCII (case folding of non-UTF-8 names is not compared)");
    run.assume(
        "documented deviation (Snapshot::try_resolve_ref docs): when the lookup email differs only in ASCII case from the mailmap's commit email and no proper email is given, gitoxide rewrites the email to the mailmap's spelling, git keeps the input spelling; such results are compared case-insensitively on the email only",
    );
    run.budget_secs(run.pick(35.0, 560.0));
    let thorough = !run.quick();
    let (tpl, n_regular) = templates(thorough);
    let repo = vkit::scratch::Dir::new("c53repo");
    vkit::git::init(repo.path());
    let scratch = vkit::scratch::Dir::new("c53files");
    let git_calls = AtomicU64::new(0);
    let files_compared = AtomicU64::new(0);
    let files_mapped = AtomicU64::new(0);
    let batch_size = 32;
    run.sub_with(
        "resolve",
        vkit::Opts::default().chunk(64),
        |emit| {
            // two batch streams: files made of the five regular entry forms only, and files with at least one edge line
            let mut pending: [Vec<MapCase>; 2] = [Vec::new(), Vec::new()];
            let mut push = |lines: &[String], edge: bool, eol: &str, no_final_eol: bool, emit: &mut dyn FnMut(Batch)| {
                // files that cannot be made disjoint (empty commit email) or concatenated (no final newline) go alone
                let solo = no_final_eol || lines.iter().any(|l| l.contains("> <>"));
                let stream = usize::from(edge);
                let tag = if solo { String::new() } else { pending[stream].len().to_string() };
                let case = MapCase { lines: lines.iter().map(|l| l.replace("{t}", &tag)).collect(), eol: eol.into(), no_final_eol, tag };
                if solo {
                    emit(Batch { files: vec![case] });
                } else {
                    pending[stream].push(case);
                    if pending[stream].len() == batch_size {
                        emit(Batch { files: std::mem::take(&mut pending[stream]) });
                    }
                }
            };
            let mut core = tpl.clone();
            core.extend(lenient_templates());
            let mut full = core.clone();
            full.extend(extra_templates());
            let edge_lines: std::collections::HashSet<&String> = full[n_regular..].iter().collect();
            let mut each = |ls: &[String]| {
                let edge = ls.iter().any(|l| edge_lines.contains(l));
                let lines: Vec<String> = ls.iter().enumerate().map(|(i, l)| l.replace("{i}", &i.to_string())).collect();
                push(&lines, edge, "\n", false, emit);
                if lines.len() == 1 {
                    push(&lines, edge, "\r\n", false, emit);
                    push(&lines, edge, "\n", true, emit);
                }
            };
            if thorough {
                enumerate::seqs(&full, 0, 2, &mut each);
                enumerate::seqs(&tpl, 3, 3, &mut each);
            } else {
                enumerate::seqs(&full, 0, 1, &mut each);
                enumerate::seqs(&core, 2, 2, &mut each);
            }
            for p in pending {
                if !p.is_empty() {
                    emit(Batch { files: p });
                }
            }
        },
        |b: &Batch| -> Verdict { dump((|| -> Verdict {
            let mut combined = Vec::new();
            let mut all_ids = Vec::new();
            for f in &b.files {
                combined.extend_from_slice(&f.bytes());
                all_ids.extend(identities(&f.tag));
            }
            git_calls.fetch_add(1, Ordering::Relaxed);
            let theirs_all = git_resolve(repo.path(), scratch.path(), &combined, &all_ids);
            let (mut mapped, mut case_dev) = (0, 0);
            let mut failures: Vec<(&'static str, String, bool)> = Vec::new();
            for (j, c) in b.files.iter().enumerate() {
                let bytes = c.bytes();
                let ids = identities(&c.tag);
                let snapshot = match vkit::catch(|| gix_mailmap::Snapshot::from_bytes(&bytes)) {
                    Ok(s) => s,
                    Err(p) => return bad("panic-parse", format!("mailmap {:?}: {p}", bytes.as_bstr())),
                };
                let mut ours = Vec::new();
                for (name, email) in &ids {
                    let sig = gix_actor::SignatureRef { name: name.as_bytes().as_bstr(), email: email.as_bytes().as_bstr(), time: Default::default() };
                    match vkit::catch(|| snapshot.resolve(sig)) {
                        Ok(s) => ours.push((s.name.to_string(), s.email.to_string())),
                        Err(p) => return bad("panic-resolve", format!("mailmap {:?}: resolve({name:?}, {email:?}): {p}", bytes.as_bstr())),
                    }
                }
                files_compared.fetch_add(1, Ordering::Relaxed);
                let mut d = diff(&ids, &ours, &theirs_all[j * IDS_PER_FILE..(j + 1) * IDS_PER_FILE]);
                if d.mismatch.is_some() && b.files.len() > 1 {
                    // confirm on the file alone: the verdict never rests on the batching assumption
                    git_calls.fetch_add(1, Ordering::Relaxed);
                    let alone = git_resolve(repo.path(), scratch.path(), &bytes, &ids);
                    d = diff(&ids, &ours, &alone);
                    if d.mismatch.is_none() {
                        vkit::machinery!("git answers differently for mailmap {:?} alone and inside a batch of disjoint files", bytes.as_bstr());
                    }
                }
                let Some((shape, detail)) = d.mismatch else {
                    mapped += d.mapped;
                    case_dev += d.case_dev;
                    if d.mapped > 0 {
                        files_mapped.fetch_add(1, Ordering::Relaxed);
                    }
                    continue;
                };
                let detail = format!("mailmap {:?}: {detail}", bytes.as_bstr());
                // Is the whole difference explained by line-level parsing (lines gitoxide's parser refuses but git uses, emails it trims)?
                // Decide by asking git about the file *as gitoxide read it*; only then the failure gets the specific class.
                let (canon, class) = as_gitoxide_read_it(&bytes);
                let mut explained = None;
                if let Some(class) = class {
                    git_calls.fetch_add(1, Ordering::Relaxed);
                    let theirs2 = git_resolve(repo.path(), scratch.path(), &canon, &ids);
                    if diff(&ids, &ours, &theirs2).mismatch.is_none() {
                        explained = Some(class);
                    }
                }
                failures.push((explained.unwrap_or(shape), detail, explained.is_some()));
            }
            // an unexplained difference is reported before explained ones, so that it can never hide behind a known finding
            if let Some((class, detail, _)) = failures.iter().find(|f| !f.2).or(failures.first()) {
                return bad(class, format!("{detail} [{} of {} files in this batch differ]", failures.len(), b.files.len()));
            }
            match (mapped, case_dev) {
                (0, _) => ok_trivial("nothing-mapped"),
                (n, 0) => ok(format!("agree-mapped-identities-{}", match n { 1..=9 => "1..9", 10..=99 => "10..99", _ => "100+" })),
                (_, _) => ok("agree-with-email-case-deviation"),
            }
        })()) },
    );
    run.cov_add("oracle_calls_git", git_calls.load(Ordering::Relaxed));
    run.cov("mailmap_files_compared", files_compared.load(Ordering::Relaxed));
    run.cov("mailmap_files_with_mapped_identities_and_full_agreement", files_mapped.load(Ordering::Relaxed));
    run.require("at least 100 mailmap files mapped identities and agreed with git", files_mapped.load(Ordering::Relaxed) >= 100);
}
