//! C56 — streaming compression and hashing do not depend on chunking (E5/E1: data x write-size patterns x sink behaviours).
//!
//! Every case writes one loose-object image (`<kind> <len>\0` + data) through the stack gix-odb uses for loose objects,
//! `hash::Write<deflate::Write<sink>>`, in the chunk pattern of the case, finishes with `flush()`, and checks
//!   * the compressed bytes inflate (one-shot reference inflate *and* gitoxide's `inflate::read` fed through a `BufRead`
//!     that hands out the same chunk pattern) to exactly the concatenated input, ending exactly at the last output byte;
//!   * `hash::Write` digest == `compute_hash` == `compute_stream_hash` (reader handing out the chunk pattern) == `git hash-object`.
//! Sub-check `git-reads-loose-object` lets git itself inflate the produced stream (`git cat-file`).
use gix_features::zlib::stream::{deflate, inflate};
use gix_hash::ObjectId;
use serde::{Deserialize, Serialize};
use std::collections::HashMap;
use std::io::{self, BufRead, Read, Write};
use std::sync::atomic::{AtomicBool, AtomicU64, Ordering};
use std::sync::Mutex;
use vkit::{bad, enumerate, ok, Run, Verdict};

#[derive(Serialize, Deserialize, Hash, Clone, Debug, PartialEq, Eq)]
struct Data {
    len: usize,
    /// "zeros" (maximally compressible), "lcg" (incompressible), "text" (repetitive, mixed)
    fill: String,
}
impl Data {
    fn bytes(&self) -> Vec<u8> {
        match self.fill.as_str() {
            "zeros" => vec![0u8; self.len],
            "lcg" => enumerate::lcg_bytes(self.len, 56),
            _ => b"tree 4b825dc642cb6eb9a060e54bf8d69288fbee4904\nauthor A U Thor <author@example.com> 1112911993 +0100\n\n".iter().copied().cycle().take(self.len).collect(),
        }
    }
}

#[derive(Serialize, Deserialize, Hash, Clone, Debug)]
enum Pattern {
    /// one write with everything
    Whole,
    /// cut positions inside the stream (sorted, strictly inside)
    Cuts(Vec<usize>),
    /// chunk sizes used cyclically until the stream is exhausted; 0 = an empty write
    Cyclic(Vec<usize>),
}
impl Pattern {
    /// the chunk lengths for a stream of `len` bytes (may contain zeros = empty writes)
    fn chunks(&self, len: usize) -> Vec<usize> {
        match self {
            Pattern::Whole => vec![len],
            Pattern::Cuts(c) => {
                let mut out = Vec::new();
                let mut last = 0;
                for &p in c {
                    out.push(p - last);
                    last = p;
                }
                out.push(len - last);
                out
            }
            Pattern::Cyclic(sizes) => {
                let mut out = Vec::new();
                let mut left = len;
                let mut i = 0;
                while left > 0 {
                    let n = sizes[i % sizes.len()].min(left);
                    out.push(n);
                    left -= n;
                    i += 1;
                }
                if sizes.contains(&0) {
                    out.push(0); // a trailing empty write as well
                }
                out
            }
        }
    }
    fn kind(&self) -> &'static str {
        match self {
            Pattern::Whole => "whole",
            Pattern::Cuts(c) if c.len() == 1 => "1-cut",
            Pattern::Cuts(c) if c.len() == 2 => "2-cuts",
            Pattern::Cuts(_) => "n-cuts",
            Pattern::Cyclic(s) if s.contains(&0) => "cyclic-with-empty-writes",
            Pattern::Cyclic(_) => "cyclic",
        }
    }
}

#[derive(Serialize, Deserialize, Hash, Clone, Debug)]
struct Case {
    data: Data,
    pattern: Pattern,
    /// the innermost writer accepts at most this many bytes per `write` call (0 = unlimited)
    sink_accepts: usize,
    /// write each chunk with `write_all` (true) or with a hand-written loop over `write` that checks the returned counts (false)
    write_all: bool,
}

/// innermost writer: accepts at most `max` bytes per call
struct Sink {
    out: Vec<u8>,
    max: usize,
}
impl Write for Sink {
    fn write(&mut self, buf: &[u8]) -> io::Result<usize> {
        let n = if self.max == 0 { buf.len() } else { buf.len().min(self.max) };
        self.out.extend_from_slice(&buf[..n]);
        Ok(n)
    }
    fn flush(&mut self) -> io::Result<()> {
        Ok(())
    }
}

/// reader that hands out the stream in the given chunk lengths (zero-length chunks are skipped: a 0 read means EOF)
struct ChunkReader<'a> {
    data: &'a [u8],
    chunks: Vec<usize>,
    next: usize,
    buffered: usize,
}
impl<'a> ChunkReader<'a> {
    fn new(data: &'a [u8], chunks: &[usize]) -> Self {
        ChunkReader { data, chunks: chunks.iter().copied().filter(|c| *c > 0).collect(), next: 0, buffered: 0 }
    }
    fn current(&mut self) -> usize {
        if self.buffered == 0 && !self.data.is_empty() {
            self.buffered = if self.chunks.is_empty() { self.data.len() } else { self.chunks[self.next % self.chunks.len()] }.min(self.data.len());
            self.next += 1;
        }
        self.buffered
    }
}
impl Read for ChunkReader<'_> {
    fn read(&mut self, buf: &mut [u8]) -> io::Result<usize> {
        let n = self.current().min(buf.len());
        buf[..n].copy_from_slice(&self.data[..n]);
        self.consume(n);
        Ok(n)
    }
}
impl BufRead for ChunkReader<'_> {
    fn fill_buf(&mut self) -> io::Result<&[u8]> {
        let n = self.current();
        Ok(&self.data[..n])
    }
    fn consume(&mut self, amt: usize) {
        self.data = &self.data[amt..];
        self.buffered -= amt;
    }
}

/// Write `image` in `chunks` through `w`. Err(text) = the writer misbehaved.
fn write_chunks(w: &mut impl Write, image: &[u8], chunks: &[usize], write_all: bool) -> Result<(), String> {
    let mut rest = image;
    for &n in chunks {
        let (mut chunk, tail) = rest.split_at(n);
        rest = tail;
        if write_all {
            w.write_all(chunk).map_err(|e| format!("write_all of {n} bytes failed: {e}"))?;
        } else if chunk.is_empty() {
            match w.write(chunk) {
                Ok(0) => {}
                Ok(k) => return Err(format!("write(&[]) returned {k}")),
                Err(e) => return Err(format!("write(&[]) failed: {e}")),
            }
        } else {
            while !chunk.is_empty() {
                match w.write(chunk) {
                    Ok(0) => return Err(format!("write of {} bytes returned 0", chunk.len())),
                    Ok(k) if k > chunk.len() => return Err(format!("write of {} bytes returned {k}", chunk.len())),
                    Ok(k) => chunk = &chunk[k..],
                    Err(e) => return Err(format!("write failed: {e}")),
                }
            }
        }
    }
    if !rest.is_empty() {
        return Err(format!("harness: chunks do not cover the stream ({} bytes left)", rest.len()));
    }
    Ok(())
}

/// (digest of what was written, compressed bytes)
fn deflate_and_hash(image: &[u8], chunks: &[usize], sink_accepts: usize, write_all: bool) -> Result<(ObjectId, Vec<u8>), String> {
    let mut w = gix_features::hash::Write::new(deflate::Write::new(Sink { out: Vec::new(), max: sink_accepts }), gix_hash::Kind::Sha1);
    write_chunks(&mut w, image, chunks, write_all)?;
    w.flush().map_err(|e| format!("flush failed: {e}"))?;
    let id = ObjectId::from(w.hash.digest());
    Ok((id, w.inner.into_inner().out))
}

/// one-shot reference inflate; checks that the zlib stream ends exactly at the end of `compressed`
fn inflate_reference(compressed: &[u8], expect_len: usize) -> Result<Vec<u8>, String> {
    let mut out = vec![0u8; expect_len + 64];
    let mut z = gix_features::zlib::Inflate::default();
    match z.once(compressed, &mut out) {
        Ok((gix_features::zlib::Status::StreamEnd, consumed, written)) => {
            if consumed != compressed.len() {
                return Err(format!("zlib stream ends after {consumed} of {} output bytes", compressed.len()));
            }
            out.truncate(written);
            Ok(out)
        }
        Ok((status, consumed, written)) => Err(format!("output is not a complete zlib stream: status {status:?} after {consumed} bytes in, {written} bytes out")),
        Err(e) => Err(format!("output does not inflate: {e}")),
    }
}

/// gitoxide's streaming inflate with the compressed bytes handed out in `chunks`
fn inflate_streaming(compressed: &[u8], chunks: &[usize], expect_len: usize) -> Result<Vec<u8>, String> {
    let mut rd = ChunkReader::new(compressed, chunks);
    let mut state = gix_features::zlib::Decompress::new(true);
    // one spare byte: with an exactly sized buffer `read` may return before it has seen the end of the stream
    let mut out = vec![0u8; expect_len + 1];
    let n = inflate::read(&mut rd, &mut state, &mut out).map_err(|e| format!("inflate::read failed: {e}"))?;
    out.truncate(n);
    if !rd.data.is_empty() {
        return Err(format!("inflate::read left {} compressed bytes unread", rd.data.len()));
    }
    Ok(out)
}

fn first_diff(a: &[u8], b: &[u8]) -> String {
    let p = a.iter().zip(b).position(|(x, y)| x != y).unwrap_or(a.len().min(b.len()));
    format!("lengths {} vs {}, first difference at byte {p}", a.len(), b.len())
}

fn size_class(n: usize) -> &'static str {
    match n {
        0 => "empty",
        1..=99 => "tiny",
        100..=32767 => "below-32k",
        32768..=65535 => "32k..64k",
        65536..=1048575 => "64k..1m",
        _ => "megabytes",
    }
}

/// How many of the offered bytes the writer directly below `hash::Write` takes per call.
#[derive(Serialize, Deserialize, Hash, Clone, Debug, PartialEq, Eq)]
enum Accept {
    All,
    AtMost(usize),
    /// half of what is offered, rounded up
    Half,
}
/// One irregular answer of that writer, given once, at the first call after `n` bytes were accepted in total.
#[derive(Serialize, Deserialize, Hash, Clone, Debug, PartialEq, Eq)]
enum Hiccup {
    None,
    /// `Err(ErrorKind::Interrupted)` — the caller must retry with the same bytes
    InterruptedAt(usize),
    /// `Ok(0)` for a non-empty buffer — nothing was taken, a retrying caller offers the same bytes again
    ZeroAt(usize),
}
#[derive(Serialize, Deserialize, Hash, Clone, Debug)]
struct HwCase {
    data: Data,
    pattern: Pattern,
    accept: Accept,
    hiccup: Hiccup,
    /// chunks written with `write_all` (true) or with a hand-written retry loop over `write` (false)
    write_all: bool,
}

struct FlakySink {
    out: Vec<u8>,
    accept: Accept,
    hiccup: Hiccup,
    fired: bool,
    short_writes: u64,
}
impl Write for FlakySink {
    fn write(&mut self, buf: &[u8]) -> io::Result<usize> {
        if !self.fired {
            match self.hiccup {
                Hiccup::InterruptedAt(p) if self.out.len() >= p => {
                    self.fired = true;
                    return Err(io::Error::new(io::ErrorKind::Interrupted, "interrupted once"));
                }
                Hiccup::ZeroAt(p) if self.out.len() >= p && !buf.is_empty() => {
                    self.fired = true;
                    return Ok(0);
                }
                _ => {}
            }
        }
        let n = match self.accept {
            Accept::All => buf.len(),
            Accept::AtMost(k) => buf.len().min(k),
            Accept::Half => (buf.len() + 1) / 2,
        };
        if n < buf.len() {
            self.short_writes += 1;
        }
        self.out.extend_from_slice(&buf[..n]);
        Ok(n)
    }
    fn flush(&mut self) -> io::Result<()> {
        Ok(())
    }
}

/// Write `image` in `chunks`, retrying like a careful caller does: `Interrupted` -> same bytes again, short write -> the rest,
/// a single `Ok(0)` for a non-empty buffer -> same bytes again.
fn write_chunks_retrying(w: &mut impl Write, image: &[u8], chunks: &[usize], write_all: bool) -> Result<(), String> {
    let mut rest_all = image;
    let mut zeros = 0;
    for &n in chunks {
        let (mut rest, tail) = rest_all.split_at(n);
        rest_all = tail;
        if write_all {
            w.write_all(rest).map_err(|e| format!("write_all of {n} bytes failed: {e}"))?;
            continue;
        }
        loop {
            match w.write(rest) {
                Ok(k) if k > rest.len() => return Err(format!("write of {} bytes returned {k}", rest.len())),
                Ok(0) if !rest.is_empty() => {
                    zeros += 1;
                    if zeros > 1 {
                        return Err("write returned 0 for a non-empty buffer more often than the sink did".into());
                    }
                }
                Ok(k) => {
                    rest = &rest[k..];
                    if rest.is_empty() {
                        break;
                    }
                }
                Err(e) if e.kind() == io::ErrorKind::Interrupted => {}
                Err(e) => return Err(format!("write failed: {e}")),
            }
        }
    }
    if !rest_all.is_empty() {
        return Err(format!("harness: chunks do not cover the stream ({} bytes left)", rest_all.len()));
    }
    Ok(())
}

fn hiccup_positions(total: usize) -> Vec<usize> {
    let mut v: Vec<usize> = if total <= 12 {
        (0..=total).collect()
    } else {
        [0, 1, 7, 8, 4095, 4096, 32767, 32768, 65535, 65536, total / 2, total - 1].into_iter().filter(|p| *p < total).collect()
    };
    v.sort_unstable();
    v.dedup();
    v
}

fn lens(thorough: bool) -> Vec<usize> {
    if thorough {
        vec![0, 1, 2, 3, 5, 32767 - 7, 32767, 32768, 32769, 65535 - 7, 65535, 65536, 100_000, 131_071, (1 << 20) + 1, (1 << 22) + 3]
    } else {
        vec![0, 1, 2, 32767 - 7, 32767, 32768, 32769, 65535, 65536, 100_000]
    }
}

fn patterns(len_total: usize, thorough: bool) -> Vec<Pattern> {
    let mut v = vec![Pattern::Whole];
    if len_total <= if thorough { 12 } else { 8 } {
        // every composition of the stream
        enumerate::cuts(len_total, len_total, |c| {
            if !c.is_empty() {
                v.push(Pattern::Cuts(c.to_vec()));
            }
        });
    } else {
        // cuts at the internal buffer sizes (deflate 32 KiB, hasher 65535) +-1, right after the object header, and at the ends
        let all: &[usize] = &[1, 7, 8, 32767, 32768, 32769, 65535, 65536, 65537, len_total / 2, len_total - 1];
        let fewer: &[usize] = &[1, 8, 32767, 32768, 32769, 65535, 65536, len_total - 1];
        let mut marks: Vec<usize> = if thorough { all } else { fewer }
            .iter()
            .copied()
            .filter(|p| *p > 0 && *p < len_total)
            .collect();
        marks.sort_unstable();
        marks.dedup();
        enumerate::subsets(&marks, 1, 2, |c| v.push(Pattern::Cuts(c.to_vec())));
    }
    let mut cyc: Vec<Vec<usize>> =
        vec![vec![0, 1], vec![7], vec![32767], vec![32768], vec![32769], vec![0, 32768], vec![1, 32768, 0, 32767], vec![65535], vec![65536, 1], vec![4096, 0, 0, 1]];
    if len_total <= 140_000 || thorough && len_total <= (1 << 20) + 100 {
        cyc.push(vec![1]);
    }
    v.extend(cyc.into_iter().map(Pattern::Cyclic));
    v
}

pub fn run(run: &'static Run) {
    run.rule(
        "data: lengths quick {0,1,2, 32760,32767,32768,32769, 65535,65536, 100000}, thorough {0,1,2,3,5, 32760,32767,32768,32769, 65528,65535,65536, 100000, 131071, 1MiB+1, 4MiB+3} x {zeros, LCG bytes, repetitive commit text}, written as loose-object image (header + data); \
         write patterns: whole; for images <= 8 bytes (thorough: <= 12) every composition; otherwise every 1- and 2-cut split at {1,8, 32767,32768,32769, 65535,65536, len-1} (thorough also 7, 65537, len/2); \
         cyclic chunk sizes [0,1] [1] [7] [32767] [32768] [32769] [0,32768] [1,32768,0,32767] [65535] [65536,1] [4096,0,0,1] (0 = empty write); \
         x (innermost writer accepting {all, 1, 4095} bytes per call, {write_all | checked write loop}): 3 combinations quick, all 6 thorough. \
         hash-write-over-partial-sink: hash::Write directly over a writer that accepts {all, 1, 7, 4095, half} of the offered bytes, optionally answering once with Interrupted or Ok(0) at every position of short images / at {0,1,7,8,4095,4096,32767,32768,65535,65536,len/2,len-1}, \
         chunk patterns {whole, [7], [32768], [1,32768,0,32767], every composition of images <= 7 (thorough 10) bytes}, driven by write_all and by a retry loop; digest == compute_hash == git hash-object and sink content == input. \
         non-trivial = stream inflates (reference + gitoxide streaming inflate in the same chunk pattern) to the input and all four ids agree",
    );
    run.assume("git 2.39.5 `git hash-object -t blob --stdin` (one call per distinct data, memoized) and `git cat-file blob` as oracles; one-shot flate2 inflate as reference decompressor");
    run.budget_secs(run.pick(36.0, 560.0));
    let thorough = !run.quick();
    let repo = vkit::scratch::Dir::new("c56repo");
    vkit::git::init(repo.path());
    let git_ids: Mutex<HashMap<Data, String>> = Mutex::new(HashMap::new());
    let git_calls = AtomicU64::new(0);
    let git_id = |d: &Data, bytes: &[u8]| -> String {
        if let Some(id) = git_ids.lock().unwrap().get(d) {
            return id.clone();
        }
        git_calls.fetch_add(1, Ordering::Relaxed);
        let out = vkit::git::try_git_in(repo.path(), &["hash-object", "-t", "blob", "--stdin"], bytes);
        if !out.ok {
            vkit::machinery!("git hash-object failed: {}", out.err_text());
        }
        let id = out.text();
        git_ids.lock().unwrap().insert(d.clone(), id.clone());
        id
    };

    let mut datas = Vec::new();
    for len in lens(thorough) {
        for fill in ["zeros", "lcg", "text"] {
            if len == 0 && fill != "zeros" {
                continue;
            }
            datas.push(Data { len, fill: fill.into() });
        }
    }

    let saw_partial_sink = AtomicU64::new(0);
    run.sub_with(
        "chunked-write",
        vkit::Opts::default().chunk(512),
        |emit| {
            for d in &datas {
                let total = gix_object::encode::loose_header(gix_object::Kind::Blob, d.len as u64).len() + d.len;
                for p in patterns(total, thorough) {
                    let variants: &[(usize, bool)] =
                        if thorough { &[(0, true), (0, false), (1, true), (1, false), (4095, true), (4095, false)] } else { &[(0, true), (1, true), (4095, false)] };
                    for &(sink_accepts, write_all) in variants {
                        // the slow sinks and the hand-written loop multiply cost, not behaviours, for multi-megabyte data: keep the plain combination there
                        if d.len > 200_000 && (sink_accepts == 1 || !write_all && sink_accepts != 0) {
                            continue;
                        }
                        emit(Case { data: d.clone(), pattern: p.clone(), sink_accepts, write_all });
                    }
                }
            }
        },
        |c: &Case| -> Verdict {
            let data = c.data.bytes();
            let mut image = gix_object::encode::loose_header(gix_object::Kind::Blob, data.len() as u64).to_vec();
            let header_len = image.len();
            image.extend_from_slice(&data);
            let chunks = c.pattern.chunks(image.len());

            let (written_id, compressed) = match deflate_and_hash(&image, &chunks, c.sink_accepts, c.write_all) {
                Ok(r) => r,
                Err(m) if m.starts_with("harness") => vkit::machinery!("{m}"),
                Err(m) => return bad("write", m),
            };
            if c.sink_accepts != 0 && compressed.len() > c.sink_accepts {
                saw_partial_sink.fetch_add(1, Ordering::Relaxed);
            }
            // --- compression ---
            match inflate_reference(&compressed, image.len()) {
                Ok(back) if back == image => {}
                Ok(back) => return bad("inflate-mismatch", first_diff(&back, &image)),
                Err(m) => return bad("bad-stream", m),
            }
            match inflate_streaming(&compressed, &chunks, image.len()) {
                Ok(back) if back == image => {}
                Ok(back) => return bad("streaming-inflate-mismatch", first_diff(&back, &image)),
                Err(m) => return bad("streaming-inflate", m),
            }
            // --- hashing ---
            let one_call = gix_object::compute_hash(gix_hash::Kind::Sha1, gix_object::Kind::Blob, &data);
            let data_chunks: Vec<usize> = {
                // the same pattern, seen from the data (the header is not part of the stream handed to compute_stream_hash)
                let mut v = Vec::new();
                let mut skip = header_len;
                for &n in &chunks {
                    let s = skip.min(n);
                    skip -= s;
                    if n - s > 0 {
                        v.push(n - s);
                    }
                }
                v
            };
            let mut rd = ChunkReader::new(&data, &data_chunks);
            let streamed = match gix_object::compute_stream_hash(
                gix_hash::Kind::Sha1,
                gix_object::Kind::Blob,
                &mut rd,
                data.len() as u64,
                &mut gix_features::progress::Discard,
                &AtomicBool::new(false),
            ) {
                Ok(id) => id,
                Err(e) => return bad("stream-hash-failed", e),
            };
            let git = git_id(&c.data, &data);
            if written_id != one_call || streamed != one_call || git != one_call.to_string() {
                return bad("id", format!("hash::Write {written_id}, compute_hash {one_call}, compute_stream_hash {streamed}, git hash-object {git}"));
            }
            ok(format!("{}/{}", size_class(c.data.len), c.pattern.kind()))
        },
    );
    run.require("the partial-accept sink really split writes", saw_partial_sink.load(Ordering::Relaxed) > 0);

    // ---- hash::Write directly over writers that take fewer bytes than offered / must be retried ----
    let retried = AtomicU64::new(0);
    run.sub_with(
        "hash-write-over-partial-sink",
        vkit::Opts::default().chunk(2048),
        |emit| {
            for d in &datas {
                if d.fill == "zeros" && d.len != 0 {
                    continue; // the digest does not care about compressibility: two fillings suffice
                }
                let total = gix_object::encode::loose_header(gix_object::Kind::Blob, d.len as u64).len() + d.len;
                let mut ps = vec![Pattern::Whole, Pattern::Cyclic(vec![7]), Pattern::Cyclic(vec![32768]), Pattern::Cyclic(vec![1, 32768, 0, 32767])];
                if total <= if thorough { 10 } else { 7 } {
                    enumerate::cuts(total, total, |c| {
                        if !c.is_empty() {
                            ps.push(Pattern::Cuts(c.to_vec()));
                        }
                    });
                }
                let mut hiccups = vec![Hiccup::None];
                for p in hiccup_positions(total) {
                    hiccups.push(Hiccup::InterruptedAt(p));
                    hiccups.push(Hiccup::ZeroAt(p));
                }
                for p in &ps {
                    let largest_chunk = p.chunks(total).into_iter().max().unwrap_or(0);
                    for accept in [Accept::All, Accept::AtMost(1), Accept::AtMost(7), Accept::AtMost(4095), Accept::Half] {
                        // bound the number of retries per chunk (a writer that hashed the offered bytes would otherwise need quadratic time)
                        if let Accept::AtMost(k) = accept {
                            // k >= every chunk behaves exactly like All
                            if largest_chunk / k > 64 || k >= largest_chunk {
                                continue;
                            }
                        }
                        for h in &hiccups {
                            for write_all in [true, false] {
                                // write_all turns Ok(0) into an error by contract: only the retry loop can meet it
                                if write_all && matches!(h, Hiccup::ZeroAt(_)) {
                                    continue;
                                }
                                emit(HwCase { data: d.clone(), pattern: p.clone(), accept: accept.clone(), hiccup: h.clone(), write_all });
                            }
                        }
                    }
                }
            }
        },
        |c: &HwCase| -> Verdict {
            let data = c.data.bytes();
            let mut image = gix_object::encode::loose_header(gix_object::Kind::Blob, data.len() as u64).to_vec();
            image.extend_from_slice(&data);
            let chunks = c.pattern.chunks(image.len());
            let sink = FlakySink { out: Vec::new(), accept: c.accept.clone(), hiccup: c.hiccup.clone(), fired: false, short_writes: 0 };
            let mut w = gix_features::hash::Write::new(sink, gix_hash::Kind::Sha1);
            match write_chunks_retrying(&mut w, &image, &chunks, c.write_all) {
                Ok(()) => {}
                Err(m) if m.starts_with("harness") => vkit::machinery!("{m}"),
                Err(m) => return bad("write", m),
            }
            if let Err(e) = w.flush() {
                return bad("write", format!("flush failed: {e}"));
            }
            let digest = ObjectId::from(w.hash.digest());
            let sink = w.inner;
            if sink.out != image {
                return bad("sink-content", first_diff(&sink.out, &image));
            }
            let one_call = gix_object::compute_hash(gix_hash::Kind::Sha1, gix_object::Kind::Blob, &data);
            let git = git_id(&c.data, &data);
            if digest != one_call || git != one_call.to_string() {
                return bad(
                    "digest",
                    format!("hash::Write digest {digest} after {} short writes{}, compute_hash {one_call}, git hash-object {git}", sink.short_writes, if sink.fired { " and one retried call" } else { "" }),
                );
            }
            if sink.short_writes > 0 || sink.fired {
                retried.fetch_add(1, Ordering::Relaxed);
            }
            let how = match (&c.accept, &c.hiccup) {
                (Accept::All, Hiccup::None) => "accepts-all".to_string(),
                (a, Hiccup::None) => format!("short-writes-{}", match a { Accept::Half => "half".to_string(), Accept::AtMost(k) => k.to_string(), Accept::All => "none".into() }),
                (_, Hiccup::InterruptedAt(_)) => if sink.fired { "interrupted-once".into() } else { "interrupt-position-not-reached".into() },
                (_, Hiccup::ZeroAt(_)) => if sink.fired { "zero-once".into() } else { "zero-position-not-reached".into() },
            };
            ok(format!("hash-write/{how}/{}", if c.write_all { "write_all" } else { "retry-loop" }))
        },
    );
    run.require("hash::Write saw short writes / retried calls from the writer below it", retried.load(Ordering::Relaxed) > 100);

    // ---- two streams through one writer (reset) ----
    run.sub(
        "reset-second-stream",
        |emit| {
            let ds: Vec<&Data> = datas.iter().filter(|d| [1usize, 32768, 100_000].contains(&d.len) && d.fill != "text").collect();
            for a in &ds {
                for b in &ds {
                    for p in [Pattern::Whole, Pattern::Cyclic(vec![0, 32768]), Pattern::Cyclic(vec![32769])] {
                        emit(((*a).clone(), (*b).clone(), p));
                    }
                }
            }
        },
        |c: &(Data, Data, Pattern)| -> Verdict {
            let (a, b) = (c.0.bytes(), c.1.bytes());
            let mut w = deflate::Write::new(Vec::new());
            if let Err(m) = write_chunks(&mut w, &a, &c.2.chunks(a.len()), true) {
                return bad("write", m);
            }
            if let Err(e) = w.flush() {
                return bad("write", format!("flush failed: {e}"));
            }
            w.reset();
            if let Err(m) = write_chunks(&mut w, &b, &c.2.chunks(b.len()), true) {
                return bad("write-after-reset", m);
            }
            if let Err(e) = w.flush() {
                return bad("write-after-reset", format!("flush failed: {e}"));
            }
            let out = w.into_inner();
            // first stream: must end somewhere inside; the second must use exactly the rest
            let mut z = gix_features::zlib::Inflate::default();
            let mut buf = vec![0u8; a.len() + 64];
            let first_len = match z.once(&out, &mut buf) {
                Ok((gix_features::zlib::Status::StreamEnd, consumed, written)) if buf[..written] == a[..] => consumed,
                Ok(r) => return bad("first-stream", format!("{r:?}")),
                Err(e) => return bad("first-stream", e),
            };
            match inflate_reference(&out[first_len..], b.len()) {
                Ok(back) if back == b => ok(format!("two-streams/{}", c.2.kind())),
                Ok(back) => bad("second-stream-mismatch", first_diff(&back, &b)),
                Err(m) => bad("second-stream", m),
            }
        },
    );

    // ---- git inflates what we wrote ----
    let objects = vkit::scratch::Dir::new("c56objects");
    run.sub_with(
        "git-reads-loose-object",
        vkit::Opts::default().chunk(32),
        |emit| {
            for d in &datas {
                if d.len > 200_000 && !thorough {
                    continue;
                }
                let mut ps = vec![Pattern::Whole, Pattern::Cyclic(vec![1, 32768, 0, 32767]), Pattern::Cyclic(vec![32769])];
                if thorough {
                    ps.extend([Pattern::Cyclic(vec![0, 1]), Pattern::Cyclic(vec![32768])]);
                }
                for p in ps {
                    if d.len > 200_000 && matches!(&p, Pattern::Cyclic(s) if s == &vec![0, 1]) {
                        continue;
                    }
                    emit(Case { data: d.clone(), pattern: p, sink_accepts: 4095, write_all: true });
                }
            }
        },
        |c: &Case| -> Verdict {
            let data = c.data.bytes();
            let mut image = gix_object::encode::loose_header(gix_object::Kind::Blob, data.len() as u64).to_vec();
            image.extend_from_slice(&data);
            let (id, compressed) = match deflate_and_hash(&image, &c.pattern.chunks(image.len()), c.sink_accepts, c.write_all) {
                Ok(r) => r,
                Err(m) if m.starts_with("harness") => vkit::machinery!("{m}"),
                Err(m) => return bad("write", m),
            };
            let hex = id.to_string();
            let dir = objects.path().join(format!("{:016x}", vkit::hash_of(c)));
            let sub = dir.join(&hex[..2]);
            if let Err(e) = std::fs::create_dir_all(&sub).and_then(|_| std::fs::write(sub.join(&hex[2..]), &compressed)) {
                vkit::machinery!("cannot write loose object: {e}");
            }
            let mut cmd = vkit::git::cmd(repo.path());
            cmd.env("GIT_OBJECT_DIRECTORY", &dir).args(["cat-file", "blob", &hex]);
            let out = vkit::git::run_cmd(cmd, None);
            git_calls.fetch_add(1, Ordering::Relaxed);
            let _ = std::fs::remove_dir_all(&dir);
            if !out.ok {
                return bad("git-rejects-object", format!("git cat-file blob {hex}: {}", out.err_text()));
            }
            if out.stdout != data {
                return bad("git-reads-different-bytes", first_diff(&out.stdout, &data));
            }
            ok(format!("git-reads/{}/{}", size_class(c.data.len), c.pattern.kind()))
        },
    );
    run.cov_add("oracle_calls_git", git_calls.load(Ordering::Relaxed));
}
