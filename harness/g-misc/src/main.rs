mod c52;
mod c53;
mod c56;
use vkit::{Check, Level};
fn main() {
    let checks: &[Check] = &[
        Check { id: "C52", level: Level::Exploration, run: c52::run },
        Check { id: "C53", level: Level::Exploration, run: c53::run },
        Check { id: "C56", level: Level::Exploration, run: c56::run },
    ];
    vkit::main(checks);
}
