mod c52;
use vkit::{Check, Level};
fn main() {
    let checks: &[Check] = &[Check { id: "C52", level: Level::Exploration, run: c52::run }];
    vkit::main(checks);
}
