//! C52 — dates format and parse consistently, and absolute date strings parse like git (E1: bounded-exhaustive inputs).
//!
//! Sub-check `roundtrip`: every instant of the alphabet x every whole-minute offset x every output format:
//! `gix_date::parse(t.format(f)) == t` (what the format's text can carry, see `expected_after_roundtrip`).
//! Sub-check `git-parse`: every string reachable from a base string of each accepted absolute grammar by replacing
//! at most k fields with boundary alternatives; if gitoxide accepts it, git (`GIT_COMMITTER_DATE=<s> git var
//! GIT_COMMITTER_IDENT`, which prints git's `parse_date()`) must compute the same instant and offset.
use gix_date::{
    time::{format, Format, Sign},
    Time,
};
use serde::{Deserialize, Serialize};
use std::collections::HashSet;
use std::sync::atomic::{AtomicU64, Ordering};
use vkit::{bad, enumerate, ok, ok_trivial, Run, Verdict};

const FORMATS: [&str; 9] = ["SHORT", "RFC2822", "GIT_RFC2822", "ISO8601", "ISO8601_STRICT", "UNIX", "RAW", "GITOXIDE", "DEFAULT"];
fn fmt_of(i: u8) -> Format {
    match i {
        0 => format::SHORT.into(),
        1 => format::RFC2822.into(),
        2 => format::GIT_RFC2822.into(),
        3 => format::ISO8601.into(),
        4 => format::ISO8601_STRICT.into(),
        5 => format::UNIX,
        6 => format::RAW,
        7 => format::GITOXIDE.into(),
        _ => format::DEFAULT.into(),
    }
}

/// The range of instants the calendar formats can express at all: years -9999..=9999 (jiff::Timestamp::MIN/MAX).
const CAL_MIN: i64 = -377705023201;
const CAL_MAX: i64 = 253402207200;
/// 0000-01-01T00:00:00 (local): below this the printed year is negative
const YEAR_ZERO: i64 = -62167219200;
/// Largest offset the calendar formats can express (jiff::tz::Offset: +-25:59:59).
const CAL_OFF_MAX: i32 = 25 * 3600 + 59 * 60 + 59;

/// days since 1970-01-01 of a proleptic Gregorian date (Hinnant's algorithm) — harness-side reference only.
fn days_from_civil(y: i64, m: i64, d: i64) -> i64 {
    let y = if m <= 2 { y - 1 } else { y };
    let era = y.div_euclid(400);
    let yoe = y.rem_euclid(400);
    let mp = (m + 9) % 12;
    let doy = (153 * mp + 2) / 5 + d - 1;
    let doe = yoe * 365 + yoe / 4 - yoe / 100 + doy;
    era * 146097 + doe - 719468
}
fn is_leap(y: i64) -> bool {
    y % 4 == 0 && (y % 100 != 0 || y % 400 == 0)
}

fn instants() -> Vec<i64> {
    let mut v = enumerate::boundaries_i64();
    // calendar boundaries: year edges (sign change, digit-count changes, git's 1970..2099 window, two-digit-year pivots),
    // leap days, month edges, one- vs two-digit days, and times of day at their edges
    let years: [i64; 24] =
        [-9999, -1000, -1, 0, 1, 9, 10, 99, 100, 999, 1000, 1582, 1899, 1900, 1969, 1970, 1999, 2000, 2022, 2037, 2038, 2099, 2100, 9999];
    let tods: [i64; 6] = [0, 59, 60, 9 * 3600 + 9 * 60 + 9, 12 * 3600, 86399];
    for y in years {
        let mut mds: Vec<(i64, i64)> = vec![(1, 1), (1, 9), (1, 10), (2, 28), (3, 1), (8, 18), (9, 4), (10, 31), (12, 31)];
        if is_leap(y) {
            mds.push((2, 29));
        }
        for (m, d) in mds {
            for tod in tods {
                v.push(days_from_civil(y, m, d) * 86400 + tod);
            }
        }
    }
    // one full week of consecutive days (every weekday name) and every month (every month name)
    for d in 0..7 {
        v.push(days_from_civil(2022, 8, 14 + d) * 86400 + 45906);
    }
    for m in 1..=12 {
        v.push(days_from_civil(2023, m, 15) * 86400 + 3723);
    }
    // the edges of the range the calendar formats can express
    for e in [CAL_MIN, CAL_MAX] {
        v.extend([e - 1, e, e + 1]);
    }
    v.sort_unstable();
    v.dedup();
    v
}

fn offsets() -> Vec<(i32, bool)> {
    // whole minutes, sign consistent with offset (what git can represent); (0,+) and (0,-) both exist in git
    let mins: [i32; 12] = [0, 1, 59, 60, 5 * 60 + 30, 9 * 60 + 59, 10 * 60, 14 * 60, 25 * 60 + 59, 26 * 60, 99 * 60 + 59, 100 * 60];
    let mut v = Vec::new();
    for m in mins {
        v.push((m * 60, false));
        v.push((-m * 60, true));
    }
    v.dedup();
    v
}

#[derive(Serialize, Deserialize, Hash, Clone, Debug)]
struct RtCase {
    seconds: i64,
    offset: i32,
    minus: bool,
    format: String,
}

/// What `parse(format(t))` must be: the instant and offset as far as the text of that format carries them.
fn expected_after_roundtrip(t: &Time, f: u8) -> (i64, i32) {
    match f {
        // `%Y-%m-%d`: the date in the time's own offset; parses as midnight UTC of that date
        0 => ((t.seconds + t.offset as i64).div_euclid(86400) * 86400, 0),
        // seconds only
        5 => (t.seconds, 0),
        _ => (t.seconds, t.offset),
    }
}

#[derive(Serialize, Deserialize, Hash, Clone, Debug)]
struct GitCase {
    grammar: String,
    text: String,
}

/// A grammar: fields in order; alternative 0 of each field forms the base string.
struct Grammar {
    name: &'static str,
    fields: Vec<Vec<&'static str>>,
}

/// All strings that differ from the base (alternative 0 everywhere) in at most `k` fields.
fn deviations(g: &Grammar, k: usize, width: usize, f: &mut dyn FnMut(String)) {
    let g = &Grammar { name: g.name, fields: g.fields.iter().map(|f| f.iter().take(width).copied().collect()).collect() };
    let idx: Vec<usize> = (0..g.fields.len()).collect();
    enumerate::subsets(&idx, 0, k, |chosen| {
        // all combinations of non-base alternatives for the chosen fields
        let mut alt = vec![1usize; chosen.len()];
        if chosen.iter().any(|&i| g.fields[i].len() < 2) {
            return;
        }
        loop {
            let mut s = String::new();
            for (i, field) in g.fields.iter().enumerate() {
                match chosen.iter().position(|&c| c == i) {
                    Some(p) => s.push_str(field[alt[p]]),
                    None => s.push_str(field[0]),
                }
            }
            f(s);
            let mut p = 0;
            loop {
                if p == alt.len() {
                    return;
                }
                alt[p] += 1;
                if alt[p] < g.fields[chosen[p]].len() {
                    break;
                }
                alt[p] = 1;
                p += 1;
            }
        }
    });
}

fn grammars() -> Vec<Grammar> {
    let lead = vec!["", " "];
    let trail = vec!["", " ", " x"];
    let year = vec!["2022", "2024", "1970", "2099", "1969", "2100", "2038", "1979", "22", "70", "122", "0022", "9999", "-0001", "12022"];
    let month_num = vec!["08", "02", "12", "8", "2", "13", "00", "01"];
    let day_num = vec!["17", "29", "31", "1", "01", "26", "30", "32", "00"];
    let hour = vec!["22", "00", "23", "24", "0", "9", "18"];
    let minute = vec!["04", "00", "59", "60", "4", "30"];
    let second = vec!["58", "59", "60", "00", "61", "8", "58.5"];
    let zone = vec![
        "+0200", "-0330", "+0000", "+2400", "+02:00", "-02:00", "+0530", "-0200", "-0000", "+1400", "+2359", "+2559", "+2600", "+9959", "+0060", "Z", "+02",
        "+020", "+02000", "", "UTC", "GMT", "EST", "EDT", "PDT", "A", "+0200 (CEST)",
    ];
    let wd_comma = vec!["Wed, ", "Thu, ", "", "Wednesday, ", "wed, ", "Wed ", "Xyz, "];
    let wd_space = vec!["Wed ", "Thu ", "", "Wednesday ", "wed ", "Wed, ", "Xyz "];
    let day_name_fmt = vec!["17", "1", "29", "31", "01", " 1", "9", "30", "32", "0"];
    let month_name = vec!["Aug", "Feb", "Dec", "aug", "AUG", "August", "Sep", "Sept", "Jan", "Foo", "08"];
    let hms_sec = vec![":58", ":60", "", ":59", ":00", ":61", ":8", ":58.5"];
    let mut iso_z = zone.clone();
    iso_z.swap(0, 4); // "+02:00" first
    vec![
        // `%Y-%m-%d`
        Grammar { name: "short", fields: vec![lead.clone(), year.clone(), vec!["-", "/", ""], month_num.clone(), vec!["-", "/", ""], day_num.clone(), trail.clone()] },
        // `%Y-%m-%d %H:%M:%S %z`
        Grammar {
            name: "iso8601",
            fields: vec![
                lead.clone(),
                year.clone(),
                vec!["-", "/"],
                month_num.clone(),
                vec!["-"],
                day_num.clone(),
                vec![" ", "T", "  ", ""],
                hour.clone(),
                vec![":"],
                minute.clone(),
                vec![":"],
                second.clone(),
                vec![" ", "", "  "],
                zone.clone(),
                trail.clone(),
            ],
        },
        // `%Y-%m-%dT%H:%M:%S%:z`
        Grammar {
            name: "iso8601-strict",
            fields: vec![
                lead.clone(),
                year.clone(),
                vec!["-"],
                month_num.clone(),
                vec!["-"],
                day_num.clone(),
                vec!["T", " ", "t", ""],
                hour.clone(),
                vec![":"],
                minute.clone(),
                vec![":"],
                second.clone(),
                vec!["", " "],
                iso_z,
                trail.clone(),
            ],
        },
        // `%a, %d %b %Y %H:%M:%S %z` and `%a, %-d ...` (RFC 2822 parser)
        Grammar {
            name: "rfc2822",
            fields: vec![
                lead.clone(),
                wd_comma,
                day_name_fmt.clone(),
                vec![" ", "  "],
                month_name.clone(),
                vec![" "],
                year.clone(),
                vec![" "],
                hour.clone(),
                vec![":"],
                minute.clone(),
                hms_sec.clone(),
                vec![" ", "", "  "],
                zone.clone(),
                trail.clone(),
            ],
        },
        // `%a %b %d %Y %H:%M:%S %z`
        Grammar {
            name: "gitoxide",
            fields: vec![
                lead.clone(),
                wd_space.clone(),
                month_name.clone(),
                vec![" ", "  "],
                day_name_fmt.clone(),
                vec![" "],
                year.clone(),
                vec![" "],
                hour.clone(),
                vec![":"],
                minute.clone(),
                hms_sec.clone(),
                vec![" ", "", "  "],
                zone.clone(),
                trail.clone(),
            ],
        },
        // `%a %b %-d %H:%M:%S %Y %z`
        Grammar {
            name: "default",
            fields: vec![
                lead.clone(),
                wd_space,
                month_name,
                vec![" ", "  "],
                day_name_fmt,
                vec![" "],
                hour,
                vec![":"],
                minute,
                hms_sec,
                vec![" "],
                year,
                vec![" ", "", "  "],
                zone,
                trail.clone(),
            ],
        },
        // `<seconds>` and `<seconds> <+-hhmm>`
        Grammar {
            name: "raw-unix",
            fields: vec![
                lead,
                vec![
                    "1660874655",
                    "100000000",
                    "99999999",
                    "4102444800",
                    "0",
                    "1",
                    "12345",
                    "123456789",
                    "2147483647",
                    "2147483648",
                    "4102444799",
                    "253402300800",
                    "9223372036854775807",
                    "9223372036854775808",
                    "18446744073709551615",
                    "-1",
                    "-1660874655",
                    "+1660874655",
                    "01660874655",
                    "@1660874655",
                    "20220817",
                    "1660874655.5",
                ],
                vec![" ", "", "  ", "\t"],
                vec![
                    "+0200", "", "-0000", "+9959", "-0200", "+0000", "+0059", "+0060", "+0099", "+1400", "+2359", "+2400", "+2559", "-9959", "--700", "+-200", "+02:00",
                    "+020", "+02000", "0200", "Z", "UTC",
                ],
                trail,
            ],
        },
    ]
}

enum Git {
    Parsed(i64, i32),
    Rejected,
}

fn git_parse(dir: &std::path::Path, s: &str) -> Git {
    let mut c = vkit::git::cmd(dir);
    c.env("GIT_COMMITTER_DATE", s).args(["var", "GIT_COMMITTER_IDENT"]);
    let out = vkit::git::run_cmd(c, None);
    if !out.ok {
        if out.code == Some(128) && out.err_text().contains("invalid date format") {
            return Git::Rejected;
        }
        vkit::machinery!("git var GIT_COMMITTER_IDENT failed for {s:?}: {}", out.err_text());
    }
    let text = out.text();
    let mut it = text.rsplitn(3, ' ');
    let (Some(off), Some(secs)) = (it.next(), it.next()) else { vkit::machinery!("unexpected ident {text:?}") };
    let Ok(secs) = secs.parse::<i64>() else {
        // beyond i64: git computes with unsigned 64 bit timestamps; gitoxide cannot represent those
        if secs.parse::<u64>().is_ok() {
            return Git::Parsed(i64::MAX, i32::MAX);
        }
        vkit::machinery!("unexpected seconds in ident {text:?}")
    };
    if off.len() != 5 || !off.is_char_boundary(1) {
        vkit::machinery!("unexpected offset in ident {text:?}");
    }
    let (Ok(h), Ok(m)) = (off[1..3].parse::<i32>(), off[3..5].parse::<i32>()) else { vkit::machinery!("unexpected offset in ident {text:?}") };
    let mut o = h * 3600 + m * 60;
    if &off[..1] == "-" {
        o = -o;
    }
    Git::Parsed(secs, o)
}

/// development aid: with C52_DUMP=<file> every violation message is appended to that file
fn dump(v: Verdict) -> Verdict {
    if let (Err(m), Ok(path)) = (&v, std::env::var("C52_DUMP")) {
        use std::io::Write;
        if let Ok(mut f) = std::fs::OpenOptions::new().create(true).append(true).open(path) {
            let _ = writeln!(f, "{m}");
        }
    }
    v
}

pub fn run(run: &'static Run) {
    run.rule(
        "roundtrip: instants = every i64 boundary (0, +-2^k(+-1), +-10^k(+-1), MIN, MAX) + calendar boundaries (24 years from -9999 to 9999 incl. 0/1/1000/1900/1970/2000/2038/2100 x \
         10 month/day edges incl. leap days x 6 times of day) + 7 weekdays + 12 months + edges of the calendar range; x 23 whole-minute offsets (0 both signs, +-1m .. +-25h59, +-26h, +-99h59, 100h) x 9 formats. \
         non-trivial = format produced text and parse returned exactly the instant and offset the text carries (full Time incl. sign for RAW)",
    );
    run.rule(
        "git-parse: 7 grammars (short, iso8601, iso8601-strict, rfc2822, gitoxide, default, raw/unix); every string that differs from the grammar's base string in at most k fields \
         (quick: k=1 over the full field alphabets + k=2 over the first 3 alternatives of each field; thorough: k=2 full + k=3 over the first 3), each field ranging over boundary alternatives (years 1969/1970/2099/2100/2-,3-,5-digit/negative; months 00/13/unpadded/names in 4 spellings; days 00/29..32/unpadded/space padded; \
         24:00, :60, :61, fractional, missing seconds; 27 zone spellings incl. -0000, +hh:mm, +2359/+2400/+2559/+2600/+9959, Z/UTC/GMT/EST/PDT, missing; wrong/missing/long weekday; leading/trailing junk); \
         plus the literal the parser special-cases. non-trivial = gitoxide and git both accept and agree on (seconds, offset)",
    );
    run.assume("offsets are whole minutes and the sign field is consistent with the offset (the domain git can represent); a -0000 sign survives only in RAW text, elsewhere instant+offset are compared");
    run.assume("SHORT and UNIX texts do not carry time-of-day/offset resp. offset: the round trip is required to return what the text carries (midnight UTC of the printed date; offset 0)");
    run.assume("git 2.39.5 `git var GIT_COMMITTER_IDENT` with TZ=UTC prints git's parse_date() of GIT_COMMITTER_DATE; strings git refuses (e.g. no time of day, year outside 1970..2099) are outside the comparison");
    run.assume("strings gitoxide refuses are outside the comparison (the property speaks about the formats gitoxide accepts); relative dates are not absolute formats and are not generated");
    run.budget_secs(std::env::var("C52_BUDGET").ok().and_then(|s| s.parse().ok()).unwrap_or(run.pick(35.0, 540.0)));

    let t0 = std::time::Instant::now();
    let insts = instants();
    let offs = offsets();
    run.sub(
        "roundtrip",
        |emit| {
            for (fi, f) in FORMATS.iter().enumerate() {
                let _ = fi;
                for &s in &insts {
                    for &(o, m) in &offs {
                        emit(RtCase { seconds: s, offset: o, minus: m, format: f.to_string() });
                    }
                }
            }
        },
        |c: &RtCase| -> Verdict { dump((|| -> Verdict {
            let Some(fi) = FORMATS.iter().position(|f| *f == c.format) else { vkit::machinery!("unknown format {}", c.format) };
            let fi = fi as u8;
            let t = Time { seconds: c.seconds, offset: c.offset, sign: if c.minus { Sign::Minus } else { Sign::Plus } };
            let calendar = !matches!(fi, 5 | 6);
            let text = match vkit::catch(|| t.format(fmt_of(fi))) {
                Ok(s) => s,
                Err(p) => {
                    return if fi == 6 && c.offset.unsigned_abs() >= 100 * 3600 {
                        // documented: to_bstring() panics "typically due to an invalid offset"
                        ok_trivial("raw-offset-100h-refused")
                    } else if calendar && !(CAL_MIN..=CAL_MAX).contains(&c.seconds) {
                        bad("format-panic-year-range", format!("Time::format({}) panics for {t:?}: {p}", c.format))
                    } else if calendar && c.offset.unsigned_abs() > CAL_OFF_MAX as u32 {
                        bad("format-panic-offset-range", format!("Time::format({}) panics for {t:?}: {p}", c.format))
                    } else {
                        bad("format-panic", format!("Time::format({}) panics for {t:?}: {p}", c.format))
                    };
                }
            };
            let (es, eo) = expected_after_roundtrip(&t, fi);
            match vkit::catch(|| gix_date::parse(&text, None)) {
                Err(p) => bad("parse-panic", format!("parse({text:?}) panics: {p}")),
                Ok(Err(e)) => {
                    // name the failure shape: the two places where the text leaves what the parser can take back
                    let class = if fi == 0 && !(CAL_MIN..=CAL_MAX).contains(&es) {
                        "unparsable-short-range-edge"
                    } else if matches!(fi, 1 | 2) && c.seconds + (c.offset as i64) < YEAR_ZERO {
                        "unparsable-rfc2822-negative-year"
                    } else {
                        "unparsable"
                    };
                    bad(class, format!("{t:?} formats as {text:?} ({}) which parse() refuses: {e}", c.format))
                }
                Ok(Ok(back)) => {
                    if fi == 6 {
                        return if back == t { ok("raw") } else { bad("roundtrip", format!("{t:?} -> {text:?} -> {back:?}")) };
                    }
                    if (back.seconds, back.offset) != (es, eo) {
                        return bad("roundtrip", format!("{t:?} -> {text:?} ({}) -> {back:?}, expected seconds {es} offset {eo}", c.format));
                    }
                    if (es, eo) == (t.seconds, t.offset) {
                        ok(format!("exact-{}", c.format))
                    } else {
                        ok(format!("as-carried-{}", c.format))
                    }
                }
            }
        })()) },
    );
    eprintln!("roundtrip done at {:.1}s", t0.elapsed().as_secs_f64());

    // ---- absolute strings vs git ----
    let dir = vkit::scratch::Dir::new("c52git");
    // (max number of deviating fields, number of alternatives per field incl. the base)
    let levels: &[(usize, usize)] = run.pick(&[(1, usize::MAX), (2, 3)], &[(2, usize::MAX), (3, 3)]);
    let agree = AtomicU64::new(0);
    let git_calls = AtomicU64::new(0);
    run.sub_with(
        "git-parse",
        vkit::Opts::default().chunk(2048),
        |emit| {
            let mut seen: HashSet<String> = HashSet::new();
            for s in ["1979-02-26 18:30:00", "1979-02-26 18:30:00 +0000", "1979-02-26 18:30:01", "1979-02-26"] {
                if seen.insert(s.to_string()) {
                    emit(GitCase { grammar: "literal".into(), text: s.to_string() });
                }
            }
            for g in grammars() {
                for &(k, width) in levels {
                    deviations(&g, k, width, &mut |s| {
                        if seen.insert(s.clone()) {
                            emit(GitCase { grammar: g.name.to_string(), text: s });
                        }
                    });
                }
            }
        },
        |c: &GitCase| -> Verdict { dump((|| -> Verdict {
            let ours = match vkit::catch(|| gix_date::parse(&c.text, None)) {
                Err(p) => return bad("parse-panic", format!("parse({:?}) panics: {p}", c.text)),
                Ok(Err(_)) => return ok_trivial("gitoxide-refuses"),
                Ok(Ok(t)) => t,
            };
            git_calls.fetch_add(1, Ordering::Relaxed);
            // documented deviations (see notes/C52.md): instants before the epoch cannot be expressed by git at all
            // (gix-date/src/lib.rs, `SecondsSinceUnixEpoch`: "git only supports dates *from* the UNIX epoch, whereas we chose to be more flexible"),
            // and a doubled sign in a raw offset is accepted on purpose (gix-date/tests/time/parse.rs `double_negation_in_offset`).
            if ours.seconds < 0 {
                return ok_trivial("before-epoch-documented-deviation");
            }
            if c.text.contains("--") || c.text.contains("+-") {
                return ok_trivial("double-sign-offset-documented-deviation");
            }
            git_calls.fetch_add(1, Ordering::Relaxed);
            match git_parse(dir.path(), &c.text) {
                Git::Rejected => ok_trivial(format!("git-refuses-{}", c.grammar)),
                Git::Parsed(s, o) if (s, o) == (ours.seconds, ours.offset) => {
                    agree.fetch_add(1, Ordering::Relaxed);
                    ok(format!("agree-{}", c.grammar))
                }
                Git::Parsed(s, o) => {
                    let detail = format!("{:?}: gitoxide parses seconds {} offset {}, git parses seconds {s} offset {o}", c.text, ours.seconds, ours.offset);
                    if c.text.starts_with("1979-02-26 18:30:00") && ours.seconds == 42 {
                        return bad("hardcoded-literal", detail);
                    }
                    // name the failure shape by what explains the whole difference; anything not fully explained keeps the generic class
                    let mut d = s.wrapping_sub(ours.seconds);
                    let mut shapes = Vec::new();
                    if o == 0 && ours.offset != 0 {
                        // git ignored the zone (hours >= 24 or minutes >= 60) and read the civil time as UTC
                        shapes.push("zone-ignored-by-git");
                        if c.grammar != "raw-unix" {
                            d = d.wrapping_sub(ours.offset as i64);
                        }
                    } else if o != ours.offset {
                        return bad("offset-differs", detail);
                    }
                    if d == 1 && c.text.contains(":60") {
                        shapes.push("leap-second-clamped");
                        d = 0;
                    }
                    if d != 0 || shapes.is_empty() {
                        return bad("instant-differs", detail);
                    }
                    bad(shapes[0], detail)
                }
            }
        })()) },
    );
    eprintln!("git-parse done at {:.1}s", t0.elapsed().as_secs_f64());
    run.cov_add("oracle_calls_git", git_calls.load(Ordering::Relaxed));
    run.require("git and gitoxide agreed on at least 100 accepted strings", agree.load(Ordering::Relaxed) >= 100);
    for g in ["iso8601", "iso8601-strict", "rfc2822", "gitoxide", "default", "raw-unix"] {
        run.require(&format!("grammar {g} has strings both sides accept"), run.outcome_count(&format!("agree-{g}")) > 0);
    }
    for f in ["RFC2822", "GIT_RFC2822", "ISO8601", "ISO8601_STRICT", "GITOXIDE", "DEFAULT", "UNIX", "SHORT"] {
        run.require(&format!("format {f} round-tripped exactly for some instants"), run.outcome_count(&format!("exact-{f}")) > 0);
    }
    run.require("RAW round-tripped", run.outcome_count("raw") > 0);
}
