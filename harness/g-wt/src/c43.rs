//! C43 — content filters (eol / ident) agree with git: to-git == blob stored by `git hash-object -w --path`, to-worktree == file
//! written by `git checkout-index` (E1: all token strings x attribute sets x line-ending configurations).
use bstr::ByteSlice;
use gix_filter::eol;
use serde::{Deserialize, Serialize};
use std::collections::HashMap;
use std::path::Path;
use std::sync::atomic::{AtomicU64, Ordering};
use vkit::{bad, enumerate, ok, ok_trivial, Run, Verdict, B};

#[derive(Serialize, Deserialize, Hash, Clone, Debug, PartialEq, Eq)]
struct Case {
    content: B,
    /// the attributes assigned to the path (one `.gitattributes` line without the pattern)
    attrs: String,
    /// core.autocrlf: false | true | input
    autocrlf: String,
    /// core.eol: "" (unset) | lf | crlf
    eol: String,
}

/// the first `QUICK_ATTRS` sets are used in the quick tier; ` | ` separates several attribute lines for the same path (later lines win)
const ATTRS: [&str; 35] = [
    "",
    "text",
    "-text",
    "text=auto",
    "text eol=crlf",
    "text=auto eol=crlf",
    "crlf",
    "binary",
    "ident",
    // an explicitly unset text attribute must not be overruled by eol= (one line, and two cooperating lines)
    "-text eol=crlf",
    "-text eol=lf",
    "binary eol=crlf",
    "binary eol=lf",
    "-crlf eol=crlf",
    "-crlf eol=lf",
    "eol=crlf | -text",
    "eol=lf | -text",
    "eol=crlf | binary",
    "eol=lf | binary",
    "eol=crlf | -crlf",
    "eol=lf | -crlf",
    "text=auto eol=lf | binary",
    "-text | eol=crlf",
    "binary | eol=lf",
    "text | -text eol=crlf",
    // thorough only
    "eol=lf",
    "crlf=input",
    "text=auto eol=crlf ident",
    "text eol=lf",
    "eol=crlf",
    "text=auto eol=lf",
    "-crlf",
    "crlf=auto",
    "text ident",
    "-text ident",
];
const QUICK_ATTRS: usize = 25;
/// (core.autocrlf, core.eol) — `true` + `lf` is refused by git as conflicting
/// the first `QUICK_CONFIGS` are used in the quick tier
const CONFIGS: [(&str, &str); 6] = [("false", ""), ("false", "crlf"), ("true", ""), ("input", ""), ("false", "lf"), ("input", "crlf")];
const QUICK_CONFIGS: usize = 3;

#[derive(Default, Clone, Debug)]
struct Answer {
    to_git: Vec<u8>,
    /// "CRLF->LF" / "LF->CRLF" when core.safecrlf=warn warned
    warn: Option<&'static str>,
    to_worktree: Vec<u8>,
}

/// (config index, attrs index, content) -> git's answer
type Table = HashMap<(usize, usize, Vec<u8>), Answer>;

fn git_config_repo(dir: &Path, autocrlf: &str, eol_cfg: &str) {
    vkit::git::init(dir);
    vkit::git::git(dir, &["config", "core.autocrlf", autocrlf]);
    if !eol_cfg.is_empty() {
        vkit::git::git(dir, &["config", "core.eol", eol_cfg]);
    }
    vkit::git::git(dir, &["config", "core.safecrlf", "warn"]);
}

/// Ask git about every (attrs, content) pair under one configuration, with 5 git processes.
fn oracle_for_config(base: &Path, cfg: usize, attr_idx: &[usize], contents: &[Vec<u8>], table: &mut Table) {
    let (autocrlf, eol_cfg) = CONFIGS[cfg];
    let dir = base.join(format!("cfg{cfg}"));
    git_config_repo(&dir, autocrlf, eol_cfg);
    let io = |e: std::io::Error| -> ! { vkit::machinery!("fixture i/o failed: {e}") };
    let mut ga = String::new();
    for &a in attr_idx {
        for line in ATTRS[a].split(" | ").filter(|l| !l.is_empty()) {
            ga.push_str(&format!("/d{a}/* {line}\n"));
        }
    }
    std::fs::write(dir.join(".gitattributes"), ga).unwrap_or_else(|e| io(e));
    let mut paths = String::new();
    for (k, &a) in attr_idx.iter().enumerate() {
        std::fs::create_dir_all(dir.join(format!("d{a}"))).unwrap_or_else(|e| io(e));
        for (n, c) in contents.iter().enumerate() {
            if k == 0 {
                std::fs::write(dir.join(format!("d{a}/f{n}")), c).unwrap_or_else(|e| io(e));
            } else {
                std::fs::hard_link(dir.join(format!("d{}/f{n}", attr_idx[0])), dir.join(format!("d{a}/f{n}"))).unwrap_or_else(|e| io(e));
            }
            paths.push_str(&format!("d{a}/f{n}\n"));
        }
    }
    // to-git: filtered hash-object, then read the stored blobs back
    let out = vkit::git::try_git_in(&dir, &["hash-object", "-w", "--stdin-paths"], paths.as_bytes());
    if !out.ok {
        vkit::machinery!("git hash-object --stdin-paths failed: {}", out.err_text());
    }
    let oids: Vec<String> = out.text().lines().map(str::to_string).collect();
    if oids.len() != attr_idx.len() * contents.len() {
        vkit::machinery!("git hash-object returned {} ids for {} paths", oids.len(), attr_idx.len() * contents.len());
    }
    let mut warned: HashMap<String, &'static str> = HashMap::new();
    for line in out.err_text().lines() {
        // warning: in the working copy of 'd5/f12', CRLF will be replaced by LF the next time Git touches it
        if let Some(rest) = line.strip_prefix("warning: in the working copy of '") {
            if let Some((path, msg)) = rest.split_once("', ") {
                let kind = if msg.starts_with("CRLF will be replaced by LF") {
                    "CRLF->LF"
                } else if msg.starts_with("LF will be replaced by CRLF") {
                    "LF->CRLF"
                } else {
                    vkit::machinery!("unexpected warning from git: {line}");
                };
                warned.insert(path.to_string(), kind);
                continue;
            }
        }
        if !line.trim().is_empty() {
            vkit::machinery!("unexpected stderr from git hash-object: {line}");
        }
    }
    let mut distinct: Vec<&String> = oids.iter().collect();
    distinct.sort();
    distinct.dedup();
    let req: String = distinct.iter().map(|o| format!("{o}\n")).collect();
    let batch = vkit::git::git_in(&dir, &["cat-file", "--batch"], req.as_bytes());
    let mut blobs: HashMap<String, Vec<u8>> = HashMap::new();
    let mut pos = 0usize;
    while pos < batch.len() {
        let nl = batch[pos..].find_byte(b'\n').unwrap_or_else(|| vkit::machinery!("cat-file --batch output truncated")) + pos;
        let header = String::from_utf8_lossy(&batch[pos..nl]).to_string();
        let mut it = header.split(' ');
        let (oid, _kind, size) = (it.next().unwrap_or(""), it.next(), it.next().and_then(|s| s.parse::<usize>().ok()));
        let Some(size) = size else { vkit::machinery!("cat-file --batch header unparsable: {header}") };
        blobs.insert(oid.to_string(), batch[nl + 1..nl + 1 + size].to_vec());
        pos = nl + 1 + size + 1;
    }
    // to-worktree: raw blobs + index entries for every directory, then checkout-index into out/
    let raw_paths: String = (0..contents.len()).map(|n| format!("d{}/f{n}\n", attr_idx[0])).collect();
    let raw = vkit::git::git_in(&dir, &["hash-object", "-w", "--no-filters", "--stdin-paths"], raw_paths.as_bytes());
    let raw_oids: Vec<String> = String::from_utf8_lossy(&raw).lines().map(str::to_string).collect();
    if raw_oids.len() != contents.len() {
        vkit::machinery!("git hash-object --no-filters returned {} ids for {} paths", raw_oids.len(), contents.len());
    }
    let mut info = String::new();
    for &a in attr_idx {
        for (n, oid) in raw_oids.iter().enumerate() {
            info.push_str(&format!("100644 {oid}\td{a}/f{n}\n"));
        }
    }
    vkit::git::git_in(&dir, &["update-index", "--index-info"], info.as_bytes());
    vkit::git::git(&dir, &["checkout-index", "-a", "--prefix=out/"]);
    let mut i = 0;
    for &a in attr_idx {
        for (n, c) in contents.iter().enumerate() {
            let path = format!("d{a}/f{n}");
            let to_git = blobs.get(&oids[i]).cloned().unwrap_or_else(|| vkit::machinery!("blob {} missing from cat-file output", oids[i]));
            let to_worktree = std::fs::read(dir.join("out").join(&path)).unwrap_or_else(|e| vkit::machinery!("checkout-index did not write {path}: {e}"));
            table.insert((cfg, a, c.clone()), Answer { to_git, warn: warned.get(&path).copied(), to_worktree });
            i += 1;
        }
    }
    let _ = std::fs::remove_dir_all(&dir);
}

fn eol_config(autocrlf: &str, eol_cfg: &str) -> eol::Configuration {
    eol::Configuration {
        auto_crlf: match autocrlf {
            "true" => eol::AutoCrlf::Enabled,
            "input" => eol::AutoCrlf::Input,
            _ => eol::AutoCrlf::Disabled,
        },
        eol: match eol_cfg {
            "lf" => Some(eol::Mode::Lf),
            "crlf" => Some(eol::Mode::CrLf),
            _ => None,
        },
    }
}

struct AttrSearch {
    search: gix_attributes::Search,
    collection: gix_attributes::search::MetadataCollection,
}
fn attr_search(attrs: &str) -> AttrSearch {
    let mut collection = gix_attributes::search::MetadataCollection::default();
    let mut search = gix_attributes::Search::default();
    search.add_patterns_buffer(b"[attr]binary -diff -merge -text", "[builtin]".into(), None, &mut collection, true);
    let lines: String = attrs.split(" | ").filter(|l| !l.is_empty()).map(|l| format!("* {l}\n")).collect();
    if !lines.is_empty() {
        search.add_patterns_buffer(lines.as_bytes(), "attributes".into(), None, &mut collection, true);
    }
    AttrSearch { search, collection }
}

fn pipeline(cfg: eol::Configuration, check: gix_filter::pipeline::CrlfRoundTripCheck) -> gix_filter::Pipeline {
    gix_filter::Pipeline::new(
        Default::default(),
        gix_filter::pipeline::Options {
            drivers: Vec::new(),
            eol_config: cfg,
            crlf_roundtrip_check: check,
            encodings_with_roundtrip_check: Vec::new(),
            object_hash: gix_hash::Kind::Sha1,
        },
    )
}

/// does the content contain an already expanded `$Id: ...$` on one line?
fn has_expanded_ident(c: &[u8]) -> bool {
    let mut rest = c;
    while let Some(p) = rest.find(b"$Id:") {
        let after = &rest[p + 4..];
        match after.find_byteset(b"$\n") {
            Some(e) if after[e] == b'$' => return true,
            Some(e) => rest = &after[e + 1..],
            None => return false,
        }
    }
    false
}

fn to_git(c: &Case, check: gix_filter::pipeline::CrlfRoundTripCheck) -> Result<Vec<u8>, String> {
    let a = attr_search(&c.attrs);
    let mut pipe = pipeline(eol_config(&c.autocrlf, &c.eol), check);
    let mut cb = |path: &bstr::BStr, out: &mut gix_attributes::search::Outcome| {
        out.initialize(&a.collection);
        a.search.pattern_matching_relative_path(path, gix_glob::pattern::Case::Sensitive, None, out);
    };
    let res = pipe.convert_to_git(&c.content[..], Path::new("dir/file"), &mut cb, &mut |_| Ok(None));
    match res {
        Ok(out) => match out {
            gix_filter::pipeline::convert::ToGitOutcome::Unchanged(_) => Ok(c.content.to_vec()),
            gix_filter::pipeline::convert::ToGitOutcome::Buffer(b) => Ok(b.to_vec()),
            gix_filter::pipeline::convert::ToGitOutcome::Process(_) => Err("unexpected process outcome".into()),
        },
        Err(e) => Err(e.to_string()),
    }
}

fn to_worktree(c: &Case) -> Result<Vec<u8>, String> {
    let a = attr_search(&c.attrs);
    let mut pipe = pipeline(eol_config(&c.autocrlf, &c.eol), gix_filter::pipeline::CrlfRoundTripCheck::Skip);
    let mut cb = |path: &bstr::BStr, out: &mut gix_attributes::search::Outcome| {
        out.initialize(&a.collection);
        a.search.pattern_matching_relative_path(path, gix_glob::pattern::Case::Sensitive, None, out);
    };
    let res = pipe.convert_to_worktree(&c.content, "dir/file".into(), &mut cb, gix_filter::driver::apply::Delay::Forbid);
    match res {
        Ok(out) => match out.as_bytes() {
            Some(b) => Ok(b.to_vec()),
            None => Err("unexpected process outcome".into()),
        },
        Err(e) => Err(e.to_string()),
    }
}

fn contents(quick: bool) -> Vec<Vec<u8>> {
    let toks: Vec<&[u8]> = vec![b"a", b"\n", b"\r\n", b"\r", b"\0", b"$Id$", b"\x1a", b"$Id: x $", b"\x01"];
    let mut out = Vec::new();
    let mut seen = std::collections::HashSet::new();
    let mut add = |c: Vec<u8>| {
        if seen.insert(c.clone()) {
            out.push(c);
        }
    };
    if quick {
        enumerate::strings(&toks[..7], 0, 3, |s| add(s.to_vec()));
        enumerate::strings(&toks, 0, 2, |s| add(s.to_vec()));
    } else {
        enumerate::strings(&toks, 0, 3, |s| add(s.to_vec()));
        enumerate::strings(&toks[..6], 4, 4, |s| add(s.to_vec()));
    }
    // the printable/non-printable ratio of git's binary heuristic: 127/128/129 printable bytes vs 0..2 non-printable ones
    let tail_toks: Vec<&[u8]> = vec![b"\r\n", b"\x01", b"\x1a", b"\x7f"];
    for n in [127usize, 128, 129] {
        enumerate::strings(&tail_toks, 1, 2, |t| {
            let mut c = vec![b'a'; n];
            c.extend_from_slice(t);
            add(c);
        });
    }
    out
}

pub fn run(run: &'static Run) {
    run.rule(
        "contents = quick: all strings of <=3 tokens over {a, LF, CRLF, CR, NUL, $Id$, 0x1A (DOS EOF)} and <=2 tokens with `$Id: x $` and 0x01 added; thorough: <=3 tokens over all 9 and exactly 4 tokens over {a, LF, CRLF, CR, NUL, $Id$}; \
         plus 127/128/129 printable bytes followed by <=2 tokens of {CRLF, 0x01, 0x1A, 0x7F} (git's binary heuristic threshold); x 25 (quick) / 35 (thorough) attribute sets (text, -text, text=auto, eol=lf|crlf, crlf, -crlf, crlf=input|auto, binary, ident and combinations, incl. {-text, binary, -crlf} x {eol=lf, eol=crlf} on one line and as two attribute lines for the same path) \
         x (core.autocrlf, core.eol) in {(false,-),(false,crlf),(true,-)} (quick) + {(input,-),(false,lf),(input,crlf)} (thorough) x core.safecrlf (warn in git == Fail in gitoxide; conversion result with the check skipped); \
         both directions per case; non-trivial = git changed the content in at least one direction or warned",
    );
    run.assume("git 2.39.5: to-git = blob stored by `git hash-object -w --stdin-paths` (path-based filters, empty index), safecrlf via the `core.safecrlf=warn` warnings; to-worktree = file written by `git checkout-index -a --prefix`");
    run.assume("to-worktree with ident is only compared for stored content that has no already expanded `$Id: ..$` keyword: gix_filter::ident::apply documents that it deliberately does not re-expand those, unlike git");
    run.assume("no content filter drivers and no working-tree-encoding are configured; the index has no entry for the path when converting to git");
    run.budget_secs(run.pick(36.0, 560.0));
    let quick = run.quick();
    let n_attrs = if quick { QUICK_ATTRS } else { ATTRS.len() };
    let n_configs = if quick { QUICK_CONFIGS } else { CONFIGS.len() };

    // ---- build the oracle table
    let replay = run.replay_case::<Case>("filters");
    let mut table = Table::new();
    let base = vkit::scratch::Dir::new("c43");
    let cs: Vec<Vec<u8>>;
    let t0 = std::time::Instant::now();
    if let Some(c) = &replay {
        let cfg = CONFIGS.iter().position(|(a, e)| *a == c.autocrlf && *e == c.eol).unwrap_or_else(|| vkit::machinery!("unknown config in replay case"));
        let a = ATTRS.iter().position(|x| *x == c.attrs).unwrap_or_else(|| vkit::machinery!("unknown attrs in replay case"));
        cs = vec![c.content.to_vec()];
        oracle_for_config(base.path(), cfg, &[a], &cs, &mut table);
    } else if run.is_replay() {
        cs = Vec::new();
    } else {
        cs = contents(quick);
        let all_attrs: Vec<usize> = (0..n_attrs).collect();
        let tables: Vec<Table> = std::thread::scope(|s| {
            let hs: Vec<_> = (0..n_configs)
                .map(|cfg| {
                    let (base, all_attrs, cs) = (base.path(), &all_attrs, &cs);
                    s.spawn(move || {
                        vkit::catch(|| {
                            let mut t = Table::new();
                            oracle_for_config(base, cfg, all_attrs, cs, &mut t);
                            t
                        })
                    })
                })
                .collect();
            hs.into_iter()
                .map(|h| match h.join() {
                    Ok(Ok(t)) => t,
                    Ok(Err(m)) => vkit::machinery!("oracle thread panicked: {m}"),
                    Err(p) => std::panic::resume_unwind(p),
                })
                .collect()
        });
        for t in tables {
            table.extend(t);
        }
    }
    run.cov("git_oracle_secs", t0.elapsed().as_secs_f64());
    run.cov("distinct_contents", cs.len());
    run.cov_add("oracle_calls_git", table.len() as u64 * 2);

    let changed_to_git = AtomicU64::new(0);
    let changed_to_wt = AtomicU64::new(0);
    let warned = AtomicU64::new(0);
    let ident_expanded = AtomicU64::new(0);
    run.sub(
        "filters",
        |emit| {
            if let Some(c) = replay.clone() {
                emit(c);
                return;
            }
            for c in &cs {
                for attrs in &ATTRS[..n_attrs] {
                    for (autocrlf, eol_cfg) in &CONFIGS[..n_configs] {
                        emit(Case { content: B(c.clone()), attrs: attrs.to_string(), autocrlf: autocrlf.to_string(), eol: eol_cfg.to_string() });
                    }
                }
            }
        },
        |c: &Case| -> Verdict {
            let cfg = CONFIGS.iter().position(|(a, e)| *a == c.autocrlf && *e == c.eol).unwrap_or_else(|| vkit::machinery!("unknown config"));
            let a = ATTRS.iter().position(|x| *x == c.attrs).unwrap_or_else(|| vkit::machinery!("unknown attrs"));
            let Some(git) = table.get(&(cfg, a, c.content.to_vec())) else { vkit::machinery!("no git answer for case") };
            let desc = format!("content {:?} attrs {:?} core.autocrlf={} core.eol={:?}", c.content.as_bstr(), c.attrs, c.autocrlf, c.eol);
            // ---- to git
            let ours = match to_git(c, gix_filter::pipeline::CrlfRoundTripCheck::Skip) {
                Ok(b) => b,
                Err(e) => return bad("to-git-error", format!("{desc}: convert_to_git failed: {e}")),
            };
            if ours != git.to_git {
                return bad("to-git", format!("{desc}: git stores {:?}, gitoxide stores {:?}", git.to_git.as_bstr(), ours.as_bstr()));
            }
            let strict = to_git(c, gix_filter::pipeline::CrlfRoundTripCheck::Fail);
            match (&strict, git.warn) {
                (Ok(_), None) => {}
                (Err(e), Some(kind)) => {
                    let ours_kind = if e.contains("CRLF would be replaced by LF") {
                        "CRLF->LF"
                    } else if e.contains("LF would be replaced by CRLF") {
                        "LF->CRLF"
                    } else {
                        "other"
                    };
                    if ours_kind != kind {
                        return bad("safecrlf-kind", format!("{desc}: git warns {kind}, gitoxide fails with {e}"));
                    }
                }
                (Ok(_), Some(kind)) => return bad("safecrlf-missed", format!("{desc}: git's safecrlf check reports {kind}, gitoxide's round-trip check passes")),
                (Err(e), None) => return bad("safecrlf-spurious", format!("{desc}: git's safecrlf check is silent, gitoxide fails with {e}")),
            }
            // ---- to worktree
            let ident = c.attrs.split(' ').any(|x| x == "ident") && !c.attrs.contains("-ident");
            let mut class = String::new();
            if ident && has_expanded_ident(&c.content) {
                class.push_str("expanded-ident-skipped");
            } else {
                let ours = match to_worktree(c) {
                    Ok(b) => b,
                    Err(e) => return bad("to-worktree-error", format!("{desc}: convert_to_worktree failed: {e}")),
                };
                if ours != git.to_worktree {
                    // the same up to the blank before the closing dollar of an expanded keyword?
                    let oid = gix_object::compute_hash(gix_hash::Kind::Sha1, gix_object::Kind::Blob, &c.content).to_string();
                    let spaced = ours.replace(format!("$Id: {oid}$"), format!("$Id: {oid} $"));
                    let class = if ident && spaced == git.to_worktree { "ident-format" } else { "to-worktree" };
                    return bad(class, format!("{desc}: git writes {:?}, gitoxide writes {:?}", git.to_worktree.as_bstr(), ours.as_bstr()));
                }
                if ident && ours != c.content.to_vec() && ours.find(b"$Id: ").is_some() {
                    ident_expanded.fetch_add(1, Ordering::Relaxed);
                    class.push_str("ident-expanded");
                }
            }
            let g = git.to_git != c.content.to_vec();
            let w = git.to_worktree != c.content.to_vec();
            if g {
                changed_to_git.fetch_add(1, Ordering::Relaxed);
            }
            if w {
                changed_to_wt.fetch_add(1, Ordering::Relaxed);
            }
            if git.warn.is_some() {
                warned.fetch_add(1, Ordering::Relaxed);
            }
            let label = format!(
                "{}{}{}{}",
                if g { "clean-changes " } else { "" },
                if w { "smudge-changes " } else { "" },
                git.warn.map_or(String::new(), |k| format!("warn:{k} ")),
                class
            );
            if g || w || git.warn.is_some() {
                ok(label.trim().to_string())
            } else {
                ok_trivial(if label.trim().is_empty() { "unchanged".to_string() } else { label.trim().to_string() })
            }
        },
    );
    run.require("some content was changed on the way to git", changed_to_git.load(Ordering::Relaxed) > 0);
    run.require("some content was changed on the way to the worktree", changed_to_wt.load(Ordering::Relaxed) > 0);
    run.require("git's safecrlf check warned for some case", warned.load(Ordering::Relaxed) > 0);
}
